#!/bin/bash
# seedverify.sh <dir-with-patch.diff+demo_test.go> <pkgdir-for-demo>
# Confirms a seeded change in a scratch worktree: builds, existing tests pass with it,
# demonstration fails with it and passes without it. Removes the worktree afterwards.
set -u
src=$1; pkg=$2
export GOFLAGS=-mod=mod GOPROXY=off
wt=/tmp/sv/$(basename $src).$$
mkdir -p /tmp/sv
git -C /repo worktree add -q --detach $wt HEAD || exit 2
trap 'git -C /repo worktree remove --force '$wt'; git -C /repo worktree prune' EXIT
cd $wt
cp $src/demo_test.go $pkg/zz_seed_demo_test.go
echo "== demo WITHOUT change (must pass)"
go test -vet=off -count=1 -run 'Seed' ./$pkg/ 2>&1 | tail -3
r0=${PIPESTATUS[0]}
rm $pkg/zz_seed_demo_test.go
git apply $src/patch.diff || { echo "patch does not apply"; exit 2; }
echo "== build + existing tests WITH change (must pass)"
go build ./... && go test -vet=off -count=1 ./... 2>&1 | grep -v "^ok\|no test files" | tail -20
r1=${PIPESTATUS[0]}
cp $src/demo_test.go $pkg/zz_seed_demo_test.go
echo "== demo WITH change (must fail)"
go test -vet=off -count=1 -run 'Seed' ./$pkg/ 2>&1 | tail -8
r2=${PIPESTATUS[0]}
echo "RESULT demo_without=$r0 suite_with=$r1 demo_with=$r2"
