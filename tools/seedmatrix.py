#!/usr/bin/env python3
"""seedmatrix.py [--all] [--tier quick] [--seeds 1,2,3] [dir...]
Applies each seeded change in /verif/seeded/<id>/ to /repo, runs the checks (the change's own
property, or every property with --all), reverts, and records the outcome in meta.json
(detection: {"<check> <tier>": "k/n seeds"}). Evidence files are restored afterwards: evidence
must only ever describe runs against the unchanged tree."""
import json, os, subprocess, sys, glob, shutil, tempfile

VERIF = "/verif"
REPO = "/repo"

def sh(*a, **kw):
    return subprocess.run(a, capture_output=True, text=True, **kw)

def main():
    args = sys.argv[1:]
    allp = "--all" in args
    tier = "quick"
    seeds = [1, 2, 3]
    dirs = []
    i = 0
    while i < len(args):
        a = args[i]
        if a == "--all":
            pass
        elif a == "--tier":
            tier = args[i + 1]; i += 1
        elif a == "--seeds":
            seeds = [int(x) for x in args[i + 1].split(",")]; i += 1
        else:
            dirs.append(a)
        i += 1
    if not dirs:
        dirs = sorted(glob.glob(os.path.join(VERIF, "seeded", "*")))
    dirs = [os.path.abspath(d) for d in dirs]
    if sh("git", "-C", REPO, "status", "--porcelain").stdout.strip():
        print("/repo is not clean"); return 2
    props = ["C%02d" % k for k in range(1, 21)]
    backup = tempfile.mkdtemp(prefix="evidence-bak-", dir="/var/tmp")
    shutil.copytree(os.path.join(VERIF, "evidence"), os.path.join(backup, "evidence"))
    try:
        for d in dirs:
            meta_p = os.path.join(d, "meta.json")
            meta = json.load(open(meta_p))
            own = meta["property"]
            r = sh("git", "-C", REPO, "apply", os.path.join(d, "patch.diff"))
            if r.returncode != 0:
                print(d, "patch does not apply:", r.stderr); continue
            try:
                for pid in (props if allp else [own]):
                    hit = 0; infra = 0
                    for s in seeds:
                        env = dict(os.environ, VERIF_SEED=str(s))
                        rr = sh("./check", pid, tier, cwd=VERIF, env=env)
                        if rr.returncode == 1 and "VIOLATION property=" in rr.stdout:
                            hit += 1
                        elif rr.returncode != 0:
                            infra += 1
                    res = "%d/%d" % (hit, len(seeds)) + (" (infra errors: %d)" % infra if infra else "")
                    if pid == own or hit or infra:
                        meta.setdefault("detection", {})["%s %s" % (pid, tier)] = res
                    print(os.path.basename(d), pid, tier, res, flush=True)
            finally:
                sh("git", "-C", REPO, "checkout", "--", ".")
            meta["detection_seeds"] = seeds
            json.dump(meta, open(meta_p, "w"), indent=1)
    finally:
        shutil.rmtree(os.path.join(VERIF, "evidence"))
        shutil.copytree(os.path.join(backup, "evidence"), os.path.join(VERIF, "evidence"))
        shutil.rmtree(backup)
    return 0

if __name__ == "__main__":
    sys.exit(main())
