#!/bin/bash
# usage: tools/mutant.sh <ID> <file-relative-to-/repo> <python-expr-old> <new>   (reads old/new from env OLD/NEW)
# applies a textual mutation to /repo, runs ./check ID quick at two seeds, reverts.
set -u
ID=$1; FILE=$2
python3 - "$FILE" <<'PY'
import os,sys
p='/repo/'+sys.argv[1]
s=open(p).read()
old=os.environ['OLD']; new=os.environ['NEW']
if s.count(old)<1:
    print("MUTANT: pattern not found"); sys.exit(3)
s=s.replace(old,new,1)
open(p,'w').write(s)
PY
[ $? -eq 0 ] || exit 3
(cd /repo && go build ./... 2>&1 | head -5)
for seed in ${SEEDS:-1 2}; do
  VERIF_SEED=$seed timeout 1200 /verif/check $ID quick > /tmp/mutant.out 2>&1; rc=$?
  echo "seed=$seed rc=$rc $(grep -m1 -o 'sig=[^:]*' /tmp/mutant.out) $(grep -c VIOLATION /tmp/mutant.out) violation lines"
done
git -C /repo checkout -- .
