#!/bin/bash
# seedrun.sh <patch> <tier> <ID...> : apply a seeded change to /repo, run the given checks, revert.
patch=$(realpath $1); tier=$2; shift 2
cd /verif
[ -z "$(git -C /repo status --porcelain)" ] || { echo "/repo not clean"; exit 2; }
git -C /repo apply $patch || exit 2
trap 'git -C /repo checkout -- .' EXIT
for id in "$@"; do
  for seed in ${SEEDS:-1 2}; do
    VERIF_SEED=$seed ./check $id $tier 2>&1 | grep -E "^(OK|VIOLATION|INFRA|ERROR|FAIL)" | cut -c1-220
  done
done
