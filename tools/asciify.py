#!/usr/bin/env python3
import sys
for p in sys.argv[1:]:
    s=open(p,encoding='utf-8').read()
    out=[]
    for ch in s:
        o=ord(ch)
        if o<0x80: out.append(ch)
        elif o<0x10000: out.append('\\u%04x'%o)
        else: out.append('\\U%08x'%o)
    open(p,'w',encoding='utf-8').write(''.join(out))
