#!/usr/bin/env python3
"""Regenerate /verif/MANIFEST.json from props.json (claimed properties are the keys with "claimed": true)."""
import json, os
V = os.path.dirname(os.path.dirname(os.path.abspath(__file__)))
props = [json.loads(l) for l in open(os.path.join(V, 'properties.jsonl'))]
cfg = json.load(open(os.path.join(V, 'props.json')))
base = json.load(open('/root/.vp/BASELINE.json'))["cmd"] if os.path.exists('/root/.vp/BASELINE.json') else ""
old = {}
try:
    old = json.load(open(os.path.join(V, 'MANIFEST.json')))
except Exception:
    pass
if not base:
    base = old.get("hooks", {}).get("baseline_off_cmd", "")
claimed = [p["id"] for p in props if cfg.get(p["id"], {}).get("claimed")]
man = {
    "version": 1,
    "setup_cmd": "./check --setup",
    "hooks": {"guard": "verif",
              "enable": "no hooks are needed: every observation point is public API; the checks build /repo's working tree through a go.mod replace directive (the tag 'verif' is reserved, unused)",
              "baseline_off_cmd": base, "source_commits": [], "add_only": True},
    "engines": [{"name": "rapid-harness", "path": "harness/", "serves_properties": claimed,
                 "kind_free_text": "Go test binary of rapid (pgregory.net/rapid v1.3.0) properties + native go fuzz targets, built against /repo via replace; driven by ./check"}],
    "checks": [],
    "not_applicable": [],
    "notes": "See DESIGN.md. ./check <ID> quick|thorough|--replay <file>; exit 0 held, 1 violation (VIOLATION line), 2 inconclusive/infrastructure. known_findings.json lists triaged genuine defects (known/fixed).",
}
for p in props:
    c = cfg.get(p["id"], {})
    if c.get("claimed"):
        man["checks"].append({
            "property_id": p["id"],
            "quick_cmd": "./check %s quick" % p["id"],
            "thorough_cmd": "./check %s thorough" % p["id"],
            "evidence_file": "evidence/%s.json" % p["id"],
            "replay_cmd_template": "./check %s --replay {path}" % p["id"],
            "engine": "rapid-harness",
            "level_claimed": {"category": "exploration",
                              "text": c.get("level_text", "generated-input search (rapid) against an explicit oracle; held on everything explored, with measured class histograms; no claim of absence"),
                              "design_ref": "DESIGN.md section 2, " + p["id"]},
            "level_note": c.get("level_note", "trusted base: go-cty, go-textseg, Go stdlib, rapid; bounds: generated sizes stated in DESIGN.md"),
            "technique": c.get("technique", "property-based testing (rapid)"),
        })
    else:
        man["not_applicable"].append({"property_id": p["id"], "reason": c.get("na_reason", "check not built yet in this session (planned, see DESIGN.md)")})
json.dump(man, open(os.path.join(V, 'MANIFEST.json'), 'w'), indent=1)
print("claimed:", claimed)
