// Package funcs is the function table used wherever generated expressions
// contain calls (DESIGN §1 G-FUNCS). It depends on go-cty only. The Go bodies
// (Impl) are shared by the implementation run (through function.New) and by the
// reference evaluator, which re-implements the *calling convention* itself.
package funcs

import (
	"errors"
	"strings"

	"github.com/zclconf/go-cty/cty"
	"github.com/zclconf/go-cty/cty/function"
)

// Param describes one parameter.
type Param struct {
	Name         string
	Type         cty.Type
	AllowNull    bool
	AllowUnknown bool
	AllowDynamic bool
	AllowMarked  bool
}

// Def is a function definition in harness terms.
type Def struct {
	Name     string
	Params   []Param
	VarParam *Param
	// RetType gives the result type for known, unmarked args (may depend on values).
	RetType func(args []cty.Value) (cty.Type, error)
	// Impl gives the result value for known, unmarked, non-null (unless AllowNull) args.
	Impl func(args []cty.Value, retType cty.Type) (cty.Value, error)
}

func fixed(t cty.Type) func([]cty.Value) (cty.Type, error) {
	return func([]cty.Value) (cty.Type, error) { return t, nil }
}

// Table is the list of all harness functions.
var Table = []Def{
	{
		Name:    "upper",
		Params:  []Param{{Name: "str", Type: cty.String}},
		RetType: fixed(cty.String),
		Impl: func(a []cty.Value, _ cty.Type) (cty.Value, error) {
			return cty.StringVal(strings.ToUpper(a[0].AsString())), nil
		},
	},
	{
		Name:    "len",
		Params:  []Param{{Name: "v", Type: cty.DynamicPseudoType, AllowDynamic: true}},
		RetType: fixed(cty.Number),
		Impl: func(a []cty.Value, _ cty.Type) (cty.Value, error) {
			v := a[0]
			ty := v.Type()
			switch {
			case ty == cty.String:
				return cty.NumberIntVal(int64(len([]rune(v.AsString())))), nil
			case ty.IsCollectionType() || ty.IsTupleType() || ty.IsObjectType():
				return cty.NumberIntVal(int64(v.LengthInt())), nil
			}
			return cty.NilVal, errors.New("value has no length")
		},
	},
	{
		Name:    "add",
		Params:  []Param{{Name: "a", Type: cty.Number}, {Name: "b", Type: cty.Number}},
		RetType: fixed(cty.Number),
		Impl: func(a []cty.Value, _ cty.Type) (cty.Value, error) {
			return a[0].Add(a[1]), nil
		},
	},
	{
		Name:     "cat",
		VarParam: &Param{Name: "strs", Type: cty.String},
		RetType:  fixed(cty.String),
		Impl: func(a []cty.Value, _ cty.Type) (cty.Value, error) {
			var sb strings.Builder
			for _, v := range a {
				sb.WriteString(v.AsString())
			}
			return cty.StringVal(sb.String()), nil
		},
	},
	{
		Name:     "fmt2",
		Params:   []Param{{Name: "prefix", Type: cty.String}},
		VarParam: &Param{Name: "nums", Type: cty.Number},
		RetType:  fixed(cty.String),
		Impl: func(a []cty.Value, _ cty.Type) (cty.Value, error) {
			var sb strings.Builder
			sb.WriteString(a[0].AsString())
			for _, v := range a[1:] {
				sb.WriteString("|")
				sb.WriteString(v.AsBigFloat().Text('f', -1))
			}
			return cty.StringVal(sb.String()), nil
		},
	},
	{
		Name:    "joinl",
		Params:  []Param{{Name: "sep", Type: cty.String}, {Name: "list", Type: cty.List(cty.String)}},
		RetType: fixed(cty.String),
		Impl: func(a []cty.Value, _ cty.Type) (cty.Value, error) {
			var parts []string
			for it := a[1].ElementIterator(); it.Next(); {
				_, v := it.Element()
				if v.IsNull() {
					return cty.NilVal, errors.New("list element is null")
				}
				parts = append(parts, v.AsString())
			}
			return cty.StringVal(strings.Join(parts, a[0].AsString())), nil
		},
	},
	{
		Name:    "nullok",
		Params:  []Param{{Name: "v", Type: cty.DynamicPseudoType, AllowNull: true, AllowDynamic: true}},
		RetType: fixed(cty.Bool),
		Impl: func(a []cty.Value, _ cty.Type) (cty.Value, error) {
			return cty.BoolVal(a[0].IsNull()), nil
		},
	},
	{
		Name:   "mk",
		Params: []Param{{Name: "name", Type: cty.String}},
		RetType: func(a []cty.Value) (cty.Type, error) {
			if !a[0].IsKnown() || a[0].IsNull() || a[0].IsMarked() {
				return cty.DynamicPseudoType, nil
			}
			return cty.Object(map[string]cty.Type{a[0].AsString(): cty.String}), nil
		},
		Impl: func(a []cty.Value, rt cty.Type) (cty.Value, error) {
			return cty.ObjectVal(map[string]cty.Value{a[0].AsString(): cty.StringVal("made")}), nil
		},
	},
	{
		Name:    "fail",
		RetType: fixed(cty.String),
		Impl: func(a []cty.Value, _ cty.Type) (cty.Value, error) {
			return cty.NilVal, errors.New("this function always fails")
		},
	},
	{
		Name:   "ns::id",
		Params: []Param{{Name: "v", Type: cty.DynamicPseudoType, AllowNull: true, AllowDynamic: true}},
		RetType: func(a []cty.Value) (cty.Type, error) {
			return a[0].Type(), nil
		},
		Impl: func(a []cty.Value, _ cty.Type) (cty.Value, error) { return a[0], nil },
	},
	{
		Name:    "ns::sub::two",
		RetType: fixed(cty.Number),
		Impl:    func(a []cty.Value, _ cty.Type) (cty.Value, error) { return cty.NumberIntVal(2), nil },
	},
}

// ByName indexes Table.
var ByName = func() map[string]*Def {
	m := map[string]*Def{}
	for i := range Table {
		m[Table[i].Name] = &Table[i]
	}
	return m
}()

func toCtyParam(p Param) function.Parameter {
	return function.Parameter{Name: p.Name, Type: p.Type, AllowNull: p.AllowNull, AllowUnknown: p.AllowUnknown,
		AllowDynamicType: p.AllowDynamic, AllowMarked: p.AllowMarked}
}

// CtyFunctions builds the function.Function table handed to hcl.EvalContext.
func CtyFunctions() map[string]function.Function {
	out := map[string]function.Function{}
	for i := range Table {
		d := &Table[i]
		spec := &function.Spec{
			Type: func(args []cty.Value) (cty.Type, error) { return d.RetType(args) },
			Impl: func(args []cty.Value, rt cty.Type) (cty.Value, error) { return d.Impl(args, rt) },
		}
		for _, p := range d.Params {
			spec.Params = append(spec.Params, toCtyParam(p))
		}
		if d.VarParam != nil {
			vp := toCtyParam(*d.VarParam)
			spec.VarParam = &vp
		}
		out[d.Name] = function.New(spec)
	}
	return out
}
