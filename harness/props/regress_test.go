package props

import (
	"bufio"
	"bytes"
	"fmt"
	"strings"
	"testing"

	"github.com/hashicorp/hcl/v2"
	"github.com/hashicorp/hcl/v2/ext/dynblock"
	"github.com/hashicorp/hcl/v2/ext/typeexpr"
	"github.com/hashicorp/hcl/v2/hcldec"
	"github.com/hashicorp/hcl/v2/hclsyntax"
	"github.com/hashicorp/hcl/v2/hclwrite"
	hcljson "github.com/hashicorp/hcl/v2/json"
	"github.com/zclconf/go-cty/cty"
)

// Plain regression checks (no generator, no library): one fixed input per defect that was
// found by the generated checks and repaired in /repo. They run with every quick check
// of their property, so a repair that is lost again is reported deterministically.

func regressFail(t *testing.T, prop, key, format string, args ...any) {
	t.Helper()
	t.Fatalf("VIOLATION[%s/Regress sig=%s]: %s", prop, key, fmt.Sprintf(format, args...))
}

func evalSrc(t *testing.T, src string, ctx *hcl.EvalContext) (cty.Value, hcl.Diagnostics) {
	t.Helper()
	e, d := hclsyntax.ParseExpression([]byte(src), "r.hcl", hcl.InitialPos)
	if d.HasErrors() {
		t.Fatalf("regression input does not parse: %s: %s", src, d.Error())
	}
	return e.Value(ctx)
}

func parseNative(t *testing.T, src string) hcl.Body {
	t.Helper()
	f, d := hclsyntax.ParseConfig([]byte(src), "r.hcl", hcl.InitialPos)
	if d.HasErrors() {
		t.Fatalf("regression input does not parse: %q: %s", src, d.Error())
	}
	return f.Body
}

func TestC01_Regress(t *testing.T) {
	for _, src := range []string{"true && null", "null && true", "null && null", "false || null", "null || null"} {
		if _, d := evalSrc(t, src, nil); !d.HasErrors() {
			regressFail(t, "C01", "logical-and-null-operand", "%s evaluates without an error", src)
		}
	}
	ctx := &hcl.EvalContext{Variables: map[string]cty.Value{"a": cty.ListVal([]cty.Value{cty.NullVal(cty.Number)})}}
	v, d := evalSrc(t, "[for ak, a in a : a if (null == ak) && null]", ctx)
	if d.HasErrors() || !v.RawEquals(cty.EmptyTupleVal) {
		regressFail(t, "C01", "for-if-precheck-unknown-and-null", "got %#v %s, want an empty tuple", v, d.Error())
	}
}

func TestC03_Regress(t *testing.T) {
	spec := &hcldec.AttrSpec{Name: "beta", Type: cty.String}
	for _, tc := range []struct{ js, native, key string }{
		{`{"beta":"\ufeffx"}`, "beta = \"\\ufeffx\"\n", "json-template-string-loses-leading-bom"},
		{`{"beta":"\r$$${"}`, "beta = \"\\r$$${\"\n", "bare-template-lone-cr-stops-scanning"},
	} {
		jf, d := hcljson.Parse([]byte(tc.js), "r.json")
		if d.HasErrors() {
			t.Fatalf("regression input does not parse: %s", d.Error())
		}
		jv, jd := hcldec.Decode(jf.Body, spec, &hcl.EvalContext{})
		nv, nd := hcldec.Decode(parseNative(t, tc.native), spec, &hcl.EvalContext{})
		if jd.HasErrors() || nd.HasErrors() || !jv.RawEquals(nv) {
			regressFail(t, "C03", tc.key, "JSON %s decodes to %#v, native to %#v", tc.js, jv, nv)
		}
	}
	jf, _ := hcljson.Parse([]byte(`{"beta":"a\r${x}"}`), "r.json")
	v, d := hcldec.Decode(jf.Body, spec, &hcl.EvalContext{Variables: map[string]cty.Value{"x": cty.StringVal("X")}})
	if d.HasErrors() || !v.RawEquals(cty.StringVal("a\rX")) {
		regressFail(t, "C03", "bare-template-lone-cr-stops-scanning", "interpolation after a lone CR: got %#v %v", v, d)
	}
}

func TestC04_Regress(t *testing.T) {
	body := parseNative(t, "res {}\nalpha = 1\n")
	_, remain, d := body.PartialContent(&hcl.BodySchema{Blocks: []hcl.BlockHeaderSchema{{Type: "res"}}})
	if d.HasErrors() {
		t.Fatal(d.Error())
	}
	if attrs, d := remain.JustAttributes(); d.HasErrors() || len(attrs) != 1 {
		regressFail(t, "C04", "justattributes-ignores-hidden-blocks", "remain.JustAttributes after consuming the block: %d attributes, %v", len(attrs), d)
	}
	exp := dynblock.Expand(parseNative(t, "alpha = 1\nbeta = 2\n"), &hcl.EvalContext{})
	_, remain, _ = exp.PartialContent(&hcl.BodySchema{Attributes: []hcl.AttributeSchema{{Name: "alpha"}}})
	if attrs, d := remain.JustAttributes(); d.HasErrors() || len(attrs) != 1 || attrs["beta"] == nil {
		regressFail(t, "C04", "dynblock-justattributes-ignores-hidden", "remain.JustAttributes on an expanded body still returns the consumed attribute (%d attributes)", len(attrs))
	}
}

func TestC06_Regress(t *testing.T) {
	ctx := func(xs cty.Value) *hcl.EvalContext {
		return &hcl.EvalContext{Variables: map[string]cty.Value{"xs": xs.Mark("M")}, Functions: ctyFuncs}
	}
	v1, d1 := evalSrc(t, `cat("a", xs...)`, ctx(cty.ListValEmpty(cty.String)))
	if d1.HasErrors() || !v1.ContainsMarked() {
		regressFail(t, "C06", "expand-empty-marked-collection", "cat(\"a\", xs...) with xs an empty marked list gives %#v %v", v1, d1)
	}
	v2, d2 := evalSrc(t, `[for x in xs : x]`, ctx(cty.DynamicVal))
	if d2.HasErrors() || !v2.ContainsMarked() {
		regressFail(t, "C06", "for-over-marked-dynamic-unknown", "[for x in xs : x] with xs a marked unknown of unknown type gives %#v %v", v2, d2)
	}
}

func TestC08_Regress(t *testing.T) {
	guard := func(key string, f func()) {
		defer func() {
			if r := recover(); r != nil {
				regressFail(t, "C08", key, "Decode panicked: %v", r)
			}
		}()
		f()
	}
	anyAttr := hcldec.ObjectSpec{"a": &hcldec.AttrSpec{Name: "a", Type: cty.DynamicPseudoType}}
	guard("blocklist-inconsistent-types-panic", func() {
		hcldec.Decode(parseNative(t, "b {\n  a = [1]\n}\nb {\n  a = [\"x\", \"y\"]\n}\n"), &hcldec.BlockListSpec{TypeName: "b", Nested: anyAttr}, nil)
		hcldec.Decode(parseNative(t, "b {\n  a = {x = 1}\n}\nb {\n  a = {y = \"s\"}\n}\n"), &hcldec.BlockSetSpec{TypeName: "b", Nested: anyAttr}, nil)
	})
	guard("blockattrs-heterogeneous-panic", func() {
		hcldec.Decode(parseNative(t, "res {\n  if = \"\"\n  id = [\"x\"]\n}\n"), &hcldec.BlockAttrsSpec{TypeName: "res", ElementType: cty.DynamicPseudoType}, nil)
	})
	guard("blockmap-inconsistent-types-panic", func() {
		inner := &hcldec.BlockMapSpec{TypeName: "in", LabelNames: []string{"k1", "k2"}, Nested: hcldec.ObjectSpec{"a": &hcldec.AttrSpec{Name: "a", Type: cty.Number}}}
		hcldec.Decode(parseNative(t, "out \"a\" {\n}\nout \"b\" {\n  in \"x\" \"y\" {\n    a = 1\n  }\n}\n"), &hcldec.BlockMapSpec{TypeName: "out", LabelNames: []string{"k"}, Nested: inner}, nil)
	})
	spec := &hcldec.DefaultSpec{Primary: &hcldec.AttrSpec{Name: "alpha", Type: cty.String}, Default: &hcldec.AttrSpec{Name: "beta", Type: cty.String, Required: true}}
	if _, d := hcldec.Decode(parseNative(t, "beta = null\n"), spec, nil); d.HasErrors() {
		regressFail(t, "C08", "defaultspec-duplicate-schema-required", "beta = null under Default(alpha, required beta): %s", d.Error())
	}
}

func roundTripBytes(t *testing.T, prop, key, src string) {
	t.Helper()
	f, d := hclwrite.ParseConfig([]byte(src), "r.hcl", hcl.InitialPos)
	if d.HasErrors() {
		t.Fatalf("regression input does not parse: %q: %s", src, d.Error())
	}
	if got := string(f.Bytes()); got != src {
		regressFail(t, prop, key, "load/save of %q gives %q", src, got)
	}
}

func TestC10_Regress(t *testing.T) {
	roundTripBytes(t, "C10", "block-header-comment-dropped", "blk /* c */ \"a\" {\n}\n")
	roundTripBytes(t, "C10", "index-bool-null-key-dropped", "x = a[true]\ny = a[null]\n")
	f, _ := hclwrite.ParseConfig([]byte("blk \"a$b\" \"c%d\" {\n}\n"), "r.hcl", hcl.InitialPos)
	if got := f.Body().Blocks()[0].Labels(); len(got) != 2 || got[0] != "a$b" || got[1] != "c%d" {
		regressFail(t, "C10", "labels-accessor-multi-token", "Labels() = %q", got)
	}
}

func TestC11_Regress(t *testing.T) {
	toks := hclwrite.TokensForValue(cty.ObjectVal(map[string]cty.Value{"for": cty.StringVal("x"), "in": cty.StringVal("y")}))
	src := toks.Bytes()
	v, d := evalSrc(t, string(src), nil)
	if d.HasErrors() || !v.Type().IsObjectType() || !v.Type().HasAttribute("for") {
		regressFail(t, "C11", "for-first-key", "TokensForValue({for=..}) = %s, which evaluates to %#v %v", src, v, d)
	}
}

func TestC12_Regress(t *testing.T) {
	f := hclwrite.NewEmptyFile()
	b := f.Body().AppendNewBlock("old", nil)
	func() {
		defer func() {
			if r := recover(); r != nil {
				regressFail(t, "C12", "settype-stale-node", "second SetType panicked: %v", r)
			}
		}()
		b.SetType("mid")
		if b.Type() != "mid" {
			regressFail(t, "C12", "settype-stale-node", "Type() = %q after SetType(\"mid\")", b.Type())
		}
		b.SetType("new")
	}()
	for _, src := range []string{"blk {}", "a = 1 # c"} {
		f, _ := hclwrite.ParseConfig([]byte(src), "r.hcl", hcl.InitialPos)
		f.Body().AppendNewBlock("nb", nil)
		f.Body().SetAttributeValue("added", cty.True)
		out := f.Bytes()
		nf, d := hclsyntax.ParseConfig(out, "r.hcl", hcl.InitialPos)
		if d.HasErrors() {
			regressFail(t, "C12", "append-after-unterminated-last-item", "after appending to %q the output %q does not parse: %s", src, out, d.Error())
		}
		if _, ok := nf.Body.(*hclsyntax.Body).Attributes["added"]; !ok {
			regressFail(t, "C12", "append-after-unterminated-last-item", "after appending to %q the new attribute is lost: %q", src, out)
		}
	}
	f, _ = hclwrite.ParseConfig([]byte("blk { # comment\n  a = 1\n  b = 2\n}\n"), "r.hcl", hcl.InitialPos)
	f.Body().Blocks()[0].Body().RemoveAttribute("a")
	if _, d := hclsyntax.ParseConfig(f.Bytes(), "r.hcl", hcl.InitialPos); d.HasErrors() {
		regressFail(t, "C12", "brace-line-comment-removed-with-first-item", "after removing the first attribute the output %q does not parse", f.Bytes())
	}
}

func TestC14_Regress(t *testing.T) {
	src := []byte("ab\rcd\n  ef gh")
	sc := hcl.NewRangeScanner(src, "r", bufio.ScanLines)
	sc.Scan()
	if r := sc.Range(); r.End.Line != 1 {
		regressFail(t, "C14", "rangescanner-lone-cr", "a lone CR was counted as a line break: first line ends at %+v", r.End)
	}
	sc = hcl.NewRangeScanner(src, "r", bufio.ScanWords)
	for sc.Scan() {
		if r := sc.Range(); !bytes.Equal(r.SliceBytes(src), sc.Bytes()) {
			regressFail(t, "C14", "rangescanner-leading-skip", "ScanWords: range %v slices to %q, token is %q", r, r.SliceBytes(src), sc.Bytes())
		}
	}
}

func TestC15_Regress(t *testing.T) {
	inBounds := func(key string, d hcl.Diagnostics, n int) {
		for _, dg := range d {
			for _, r := range []*hcl.Range{dg.Subject, dg.Context} {
				if r != nil && (r.Start.Line < 1 || r.End.Byte > n || r.Start.Byte > r.End.Byte) {
					regressFail(t, "C15", key, "diagnostic %q has range %+v for an input of %d bytes", dg.Summary, *r, n)
				}
			}
		}
	}
	f, _ := hcljson.Parse([]byte(""), "r.json")
	_, d := f.Body.Content(&hcl.BodySchema{Attributes: []hcl.AttributeSchema{{Name: "a", Required: true}}})
	inBounds("json-placeholder-missing-item-range", d, 0)
	_, d = hcljson.Parse([]byte(`[{"`), "r.json")
	inBounds("json-invalid-string-range-past-eof", d, 3)
	func() {
		defer func() {
			if r := recover(); r != nil {
				regressFail(t, "C15", "json-marked-property-name-panic", "panic: %v", r)
			}
		}()
		e, _ := hcljson.ParseExpression([]byte(`{"${b}": 1}`), "r.json")
		e.Value(&hcl.EvalContext{Variables: map[string]cty.Value{"b": cty.StringVal("k").Mark("M")}})
	}()
}

func TestC19_Regress(t *testing.T) {
	secret := "Zq7xK9pLm2Rt5Wv8Yb3N"
	ctx := &hcl.EvalContext{Variables: map[string]cty.Value{"s": cty.StringVal(secret).Mark("M"), "c": cty.False}}
	for key, src := range map[string]string{
		"duplicate-key-quotes-marked-key":                   "{for v in [s, s] : v => 1}",
		"conditional-mismatch-quotes-marked-attribute-name": "c ? {(s) = 1} : {a = 1, b = []}",
	} {
		_, d := evalSrc(t, src, ctx)
		for _, dg := range d {
			if strings.Contains(dg.Summary+dg.Detail, secret) {
				regressFail(t, "C19", key, "%s: diagnostic reveals the marked string: %s", src, dg.Detail)
			}
		}
	}
	_, d := hcldec.Decode(parseNative(t, "gamma = {(s) = null, other = true}\n"), &hcldec.AttrSpec{Name: "gamma", Type: cty.Map(cty.Number)}, ctx)
	for _, dg := range d {
		if strings.Contains(dg.Summary+dg.Detail, secret) {
			regressFail(t, "C19", "hcldec-conversion-error-quotes-marked-key", "diagnostic reveals the marked string: %s", dg.Detail)
		}
	}
}

func TestC20_Regress(t *testing.T) {
	ty := cty.Object(map[string]cty.Type{"for": cty.String, "in": cty.String})
	src := typeexpr.TypeString(ty)
	e, d := hclsyntax.ParseExpression([]byte(src), "r.hcl", hcl.InitialPos)
	if d.HasErrors() {
		regressFail(t, "C20", "typestring-for-first-attr", "TypeString = %s does not parse: %s", src, d.Error())
	}
	got, d := typeexpr.TypeConstraint(e)
	if d.HasErrors() || !got.Equals(ty) {
		regressFail(t, "C20", "typestring-for-first-attr", "TypeString = %s parses back to %#v", src, got)
	}
}

func TestC19_Regress2(t *testing.T) {
	secret := "Zq7xK9pLm2Rt5Wv8Yb3N"
	ctx := &hcl.EvalContext{Variables: map[string]cty.Value{"s": cty.StringVal(secret).Mark("M"), "n": cty.NumberIntVal(1)}}
	for _, src := range []string{"alpha = (null ? null : {(s) = [1]})\n", "alpha = (n.foo ? {(s) = [1]} : null)\n", "alpha = ([] ? {(s) = [1]} : null)\n"} {
		_, d := hcldec.Decode(parseNative(t, src), &hcldec.AttrSpec{Name: "alpha", Type: cty.Map(cty.Number)}, ctx)
		for _, dg := range d {
			if strings.Contains(dg.Summary+dg.Detail, secret) {
				regressFail(t, "C19", "conditional-error-placeholder-unmarked", "%s: diagnostic reveals the marked string: %s", src, dg.Detail)
			}
		}
	}
}

func TestC09_Regress(t *testing.T) {
	for _, src := range []string{"A=0 .0", "a = 1.5 .0\n", "a = [1 .2, -3 .4]\n"} {
		out := hclwrite.Format([]byte(src))
		in, _ := lexConfigToks([]byte(src))
		got, _ := lexConfigToks(out)
		if i := firstTokDiff(in, got); i >= 0 {
			regressFail(t, "C09", "format-fuses-number-and-legacy-index", "Format(%q) = %q: token %d differs (%s vs %s)", src, out, i, tokAt(in, i), tokAt(got, i))
		}
	}
}
