package props

import (
	"bytes"
	"fmt"
	"strings"
	"testing"

	"github.com/hashicorp/hcl/v2"
	"github.com/hashicorp/hcl/v2/hclsyntax"
	"github.com/zclconf/go-cty/cty"
	"pgregory.net/rapid"

	"verifharness/ast"
	"verifharness/gen"
	"verifharness/hx"
	"verifharness/render"
)

// canaryForms are the substrings whose presence in a diagnostic reveals secret content.
var canaryForms = []string{gen.CanaryCoreA, gen.CanaryCoreB, gen.CanaryNum, "9.18273645", "918,273,645"}

func leaks(s string) string {
	for _, f := range canaryForms {
		if strings.Contains(s, f) {
			return f
		}
	}
	return ""
}

// iteratesMarkedCollection reports whether the expression contains a for expression (or
// template for directive) whose collection is marked as a whole under ctx: the
// implementation unmarks the collection and binds its elements to the iteration
// variables without marks (known finding for-binds-unmarked-elements-of-marked-collection).
func iteratesMarkedCollection(expr hclsyntax.Expression, ctx *hcl.EvalContext) bool {
	found := false
	_ = hclsyntax.VisitAll(expr, func(n hclsyntax.Node) hcl.Diagnostics {
		fe, ok := n.(*hclsyntax.ForExpr)
		if !ok || found {
			return nil
		}
		func() {
			defer func() { _ = recover() }()
			cv, _ := fe.CollExpr.Value(ctx)
			if cv.IsMarked() {
				found = true
				return
			}
			// containers nested in the collection that are marked as a whole expose their
			// elements the same way when an inner for iterates them
			_ = cty.Walk(cv, func(p cty.Path, pv cty.Value) (bool, error) {
				if pv.IsMarked() {
					u, _ := pv.Unmark()
					if !u.IsNull() && u.IsKnown() && u.CanIterateElements() {
						found = true
					}
				}
				return true, nil
			})
		}()
		return nil
	})
	return found
}

// drawSecretScope draws a scope in which canary content occurs only inside values marked SECRET.
func drawSecretScope(t *rapid.T) *gen.Scope {
	full := gen.DrawScope(t, gen.ScopeOpts{Nulls: 14})
	sc := &gen.Scope{Vals: map[string]cty.Value{}}
	// keep only a few plain variables so that most scope paths lead to secrets
	for _, name := range full.Names {
		if len(sc.Names) < 3 && rapid.Bool().Draw(t, "keepplain") {
			sc.Names = append(sc.Names, name)
			sc.Vals[name] = full.Vals[name]
		}
	}
	n := rapid.IntRange(2, 4).Draw(t, "nsecrets")
	for i := 0; i < n; i++ {
		name := rapid.SampledFrom([]string{"s", "sec", "a", "b", "lst", "obj", "m"}).Draw(t, "secretname")
		v := gen.DrawSecretValue(t)
		placement := gen.MarkPlacement(rapid.IntRange(0, 2).Draw(t, "placement"))
		if placement != gen.MarkTop {
			// keys of a map are content of the collection itself: only a top-level mark covers them
			if v.Type().IsMapType() || (v.Type().IsObjectType() && len(v.Type().AttributeTypes()) == 1) {
				// (the single-attribute object shape has the secret as its attribute name)
				placement = gen.MarkTop
			}
		}
		if _, exists := sc.Vals[name]; !exists {
			sc.Names = append(sc.Names, name)
		}
		sc.Vals[name] = gen.ApplyMark(v, secretMark, placement)
	}
	for i := 1; i < len(sc.Names); i++ {
		for j := i; j > 0 && sc.Names[j] < sc.Names[j-1]; j-- {
			sc.Names[j], sc.Names[j-1] = sc.Names[j-1], sc.Names[j]
		}
	}
	return sc
}

// secretNamedStructure builds an expression in which secret strings become attribute
// names or keys of a structure (object constructor with computed keys, for expressions in
// plain and grouping mode, a function building an object), combined with an operation
// whose error message describes structure: a conditional with an incompatible other
// branch, an index or attribute access that misses, a conversion by a function parameter,
// a template interpolation, or a duplicate key.
func secretNamedStructure(t *rapid.T, sc *gen.Scope) ast.Node {
	var strs, colls []string
	for _, name := range sc.Names {
		v := sc.Vals[name]
		u, _ := v.Unmark()
		if !v.ContainsMarked() || !u.IsKnown() || u.IsNull() || !plainIdent.MatchString(name) || reservedName[name] {
			continue
		}
		switch {
		case u.Type() == cty.String:
			strs = append(strs, name)
		case !v.IsMarked() && (u.Type().IsListType() || u.Type().IsTupleType() || u.Type().IsSetType()) && u.LengthInt() > 0:
			// element-wise marks (a collection marked as a whole is the known for-expression finding)
			colls = append(colls, name)
		}
	}
	var named ast.Node
	switch k := rapid.IntRange(0, 4).Draw(t, "named_kind"); {
	case k <= 1 && len(strs) > 0:
		s := ast.Var{Name: rapid.SampledFrom(strs).Draw(t, "s")}
		named = ast.Object{Items: []ast.ObjItem{{Kind: ast.KeyParens, Key: s, Val: ast.Num{Text: "1"}}, {Kind: ast.KeyIdent, Name: "b", Val: ast.Tuple{}}}}
	case k == 2 && len(strs) > 0:
		named = ast.Call{Name: "mk", Args: []ast.Node{ast.Var{Name: rapid.SampledFrom(strs).Draw(t, "s")}}}
	case len(colls) > 0:
		coll := ast.Var{Name: rapid.SampledFrom(colls).Draw(t, "coll")}
		key := ast.Template{Parts: []ast.TPart{ast.TInterp{X: ast.Var{Name: "e"}}}}
		named = ast.For{ValVar: "e", Coll: coll, Key: key, Val: ast.Num{Text: "1"}, Group: rapid.Bool().Draw(t, "group")}
	default:
		return nil
	}
	other := ast.Object{Items: []ast.ObjItem{{Kind: ast.KeyIdent, Name: "a", Val: ast.Num{Text: "1"}}, {Kind: ast.KeyIdent, Name: "b", Val: ast.Tuple{}}}}
	switch rapid.IntRange(0, 5).Draw(t, "sink") {
	case 0, 1:
		return ast.Cond{P: ast.Bool{V: rapid.Bool().Draw(t, "c")}, T: named, F: other}
	case 2:
		return ast.GetAttr{Obj: named, Name: "missing"}
	case 3:
		return ast.Index{Coll: named, Key: ast.Template{Parts: []ast.TPart{ast.TLit{Text: "missing"}}}}
	case 4:
		return ast.Call{Name: "upper", Args: []ast.Node{named}}
	default:
		return ast.Template{Parts: []ast.TPart{ast.TLit{Text: "x"}, ast.TInterp{X: named}}}
	}
}

func scopeDumpUnsafe(sc *gen.Scope) map[string]string { return scopeDump(sc) }

func TestC19_Diagnostics(t *testing.T) {
	hx.Run(t, "C19", "Diagnostics", 25000,
		"expression from G-EXPR biased to be erroneous (1-in-3 ill-typed sub-expressions) over a scope in which canary strings/numbers occur only inside values marked SECRET (directly, nested, as map keys, convertible forms); oracle (canary sweep): no diagnostic summary/detail and no rendering by the text diagnostic writer (with snippets and variable summaries, widths 0/78, colour on/off) contains a canary in any form; non-trivial = an error diagnostic whose expression refers to a secret variable; distinct by (AST dump, scope types)",
		func(c *hx.Case) {
			t := c.T
			sc := drawSecretScope(t)
			g := gen.NewEG(t, sc, gen.ExprOpts{IllTyped: 3, AvoidKeys: []string{gen.CanaryCoreA, gen.CanaryCoreB, gen.CanaryNum}})
			n := g.Expr(cty.DynamicPseudoType)
			if d := secretNamedStructure(t, sc); d != nil && rapid.IntRange(0, 5).Draw(t, "directed") == 0 {
				// a structure whose attribute names / keys are secret content, pushed into a place
				// that describes types or keys when it fails
				c.Class("directed_secret_named_structure")
				n = d
			}
			src, _ := render.Expression(n, render.Fixed{}, render.Opts{})
			if f := leaks(src); f != "" {
				c.Class("skipped_source_would_contain_canary")
				c.Done(false, "")
				return
			}
			dump := ast.Dump(n)
			c.Set("source", src)
			c.Set("scope", scopeDump(sc))
			expr, diags := parseExprSrc(src)
			if diags.HasErrors() {
				c.Failf("parse-error", "%s", diagStr(diags))
			}
			ctx := evalCtx(sc)
			var ediags hcl.Diagnostics
			c.Guard("Value", func() { _, ediags = expr.Value(ctx) })
			used := ast.FreeVars(n)
			usesSecret := false
			for name := range used {
				if v, ok := sc.Vals[name]; ok && v.ContainsMarked() {
					usesSecret = true
				}
			}
			knownIter := iteratesMarkedCollection(expr, ctx)
			excluded := func() bool {
				if knownIter && c.Known("for-binds-unmarked-elements-of-marked-collection") {
					c.Class("excluded_known_for_over_marked")
					c.Done(false, "")
					return true
				}
				return false
			}
			for _, d := range ediags {
				c.Class("summary:" + d.Summary)
				if f := leaks(d.Summary); f != "" {
					if excluded() {
						return
					}
					c.Failf("leak-in-summary", "diagnostic summary reveals marked content (%q): %s", f, d.Summary)
				}
				if f := leaks(d.Detail); f != "" {
					if excluded() {
						return
					}
					c.Failf("leak-in-detail", "diagnostic %q detail reveals marked content (%q): %s", d.Summary, f, d.Detail)
				}
			}
			file := &hcl.File{Bytes: []byte(src)}
			files := map[string]*hcl.File{"t.hcl": file}
			for _, w := range []uint{0, 78} {
				for _, color := range []bool{false, true} {
					var buf bytes.Buffer
					c.Guard("DiagnosticTextWriter", func() {
						wr := hcl.NewDiagnosticTextWriter(&buf, files, w, color)
						_ = wr.WriteDiagnostics(ediags)
					})
					if f := leaks(buf.String()); f != "" {
						if excluded() {
							return
						}
						c.Failf("leak-in-text-writer", "text diagnostic writer (width %d, colour %v) reveals marked content (%q):\n%s", w, color, f, buf.String())
					}
				}
			}
			if ediags.HasErrors() {
				c.Class("error_diag")
			}
			c.Done(ediags.HasErrors() && usesSecret, fmt.Sprintf("%s|%s", dump, scopeTypes(sc)))
		})
}
