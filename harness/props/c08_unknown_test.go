package props

import (
	"fmt"
	"testing"

	"github.com/hashicorp/hcl/v2"
	"github.com/hashicorp/hcl/v2/hcldec"
	"github.com/hashicorp/hcl/v2/hclsyntax"
	"github.com/zclconf/go-cty/cty"
	"pgregory.net/rapid"

	"verifharness/ast"
	"verifharness/gen"
	"verifharness/hx"
	"verifharness/ref"
	"verifharness/render"
)

// unkBody hands out the blocks of the chosen types with bodies that report themselves as
// unknown (hcldec.UnknownBody), the way ext/dynblock does for an unknown for_each.
type unkBody struct {
	hcl.Body
	types map[string]bool
	count *int
}

type unkLeaf struct{ hcl.Body }

func (unkLeaf) Unknown() bool { return true }

func (b unkBody) wrap(c *hcl.BodyContent) *hcl.BodyContent {
	if c == nil {
		return nil
	}
	out := *c
	out.Blocks = nil
	for _, bl := range c.Blocks {
		nb := *bl
		if b.types[bl.Type] {
			nb.Body = unkLeaf{bl.Body}
			*b.count++
		} else {
			nb.Body = unkBody{bl.Body, b.types, b.count}
		}
		out.Blocks = append(out.Blocks, &nb)
	}
	return &out
}

func (b unkBody) Content(s *hcl.BodySchema) (*hcl.BodyContent, hcl.Diagnostics) {
	c, d := b.Body.Content(s)
	return b.wrap(c), d
}

func (b unkBody) PartialContent(s *hcl.BodySchema) (*hcl.BodyContent, hcl.Body, hcl.Diagnostics) {
	c, r, d := b.Body.PartialContent(s)
	return b.wrap(c), unkBody{r, b.types, b.count}, d
}

// TestC08_UnknownBodies: blocks whose bodies are unknown (hcldec.UnknownBody) under every
// specification: the result still has the implied type.
func TestC08_UnknownBodies(t *testing.T) {
	hx.Run(t, "C08", "UnknownBodies", 8000,
		"spec tree over every hcldec spec kind (depth<=3, block-biased, up to 3 label names) and a body built from it (1-in-8 perturbed); the blocks of 1..2 block types are handed out, at every depth, with bodies implementing hcldec.UnknownBody (Unknown() = true), as ext/dynblock does for an unknown for_each; oracle: no panic, Decode and PartialDecode return a value that conforms to hcldec.ImpliedType(spec) with and without errors, twice the same; non-trivial = an unknown body reached a block-collection spec; distinct by (spec dump, body dump, types)",
		func(c *hx.Case) {
			t := c.T
			ms := gen.DrawSpec(t, gen.SpecOpts{Depth: 3, AttrNames: specAttrPool, BlockTypes: specBlockPool, BlockBias: 45})
			c.Set("spec", ms.Dump())
			kinds := map[string]bool{}
			specKinds(ms, kinds)
			featClasses(c, "spec_", kinds)
			body := gen.BodyFromSpec(t, ms, gen.BodyFromSpecOpts{Perturb: 8, Labels: []string{"a", "b", "l"}, Expr: func(ty cty.Type) ast.Node { return literalOfType(t, ty) }})
			dump := ast.DumpBody(body)
			c.Set("body", dump)
			spec := toHCLDec(ms)
			src, _ := render.File(body, rchooser{t}, drawBodyOpts(t))
			c.Set("native", src)
			f, diags := hclsyntax.ParseConfig([]byte(src), "t.hcl", hcl.InitialPos)
			if diags.HasErrors() {
				c.Failf("parse-error", "%s", diagStr(diags))
			}
			types := map[string]bool{}
			for i := rapid.IntRange(1, 2).Draw(t, "ntypes"); i > 0; i-- {
				types[rapid.SampledFrom(specBlockPool).Draw(t, "unknown_type")] = true
			}
			c.Set("unknown_types", fmt.Sprint(types))
			implied := hcldec.ImpliedType(spec).WithoutOptionalAttributesDeep()
			count := 0
			conform := func(what string, v cty.Value, d hcl.Diagnostics) {
				if ref.Conforms(v.Type(), implied) {
					return
				}
				if hasMultiLabelBlockMap(ms) && hasEmptyMapVal(v) && c.Known("blockmap-multilabel-empty-type") {
					c.Class("excluded_known_multilabel_empty_map")
					return
				}
				if d.HasErrors() && tupleBecameList(v.Type(), implied) && c.Known("blocklist-unifies-nested-tuples-to-list") {
					c.Class("excluded_known_tuple_became_list")
					return
				}
				if hasInconsistentTypesDiag(d) && c.Known("blocklist-inconsistent-types-returns-dynamicval") {
					c.Class("excluded_known_inconsistent_types")
					return
				}
				c.Failf("type-nonconforming", "%s with unknown %v bodies: value of type %#v does not conform to the implied type %#v (%s)", what, types, v.Type(), implied, diagStr(d))
			}
			var v1, v2 cty.Value
			var d1, d2 hcl.Diagnostics
			c.Guard("Decode", func() { v1, d1 = hcldec.Decode(unkBody{f.Body, types, &count}, spec, nil) })
			conform("Decode", v1, d1)
			c.Guard("Decode (again)", func() { v2, d2 = hcldec.Decode(unkBody{f.Body, types, &count}, spec, nil) })
			if d1.HasErrors() != d2.HasErrors() || !v1.RawEquals(v2) {
				c.Failf("nondeterministic", "two decodes differ: %#v vs %#v", v1, v2)
			}
			var pv cty.Value
			var pd hcl.Diagnostics
			c.Guard("PartialDecode", func() { pv, _, pd = hcldec.PartialDecode(unkBody{f.Body, types, &count}, spec, nil) })
			conform("PartialDecode", pv, pd)
			if count > 0 {
				c.Class("unknown_body_handed_out")
			}
			if !v1.IsWhollyKnown() {
				c.Class("result_has_unknown_part")
			}
			c.Done(count > 0 && !v1.IsWhollyKnown(), fmt.Sprintf("%s|%s|%v", ms.Dump(), dump, types))
		})
}
