package props

import (
	"strings"
	"testing"

	"github.com/hashicorp/hcl/v2"
	"github.com/hashicorp/hcl/v2/hclsyntax"
	hcljson "github.com/hashicorp/hcl/v2/json"
	"pgregory.net/rapid"

	"verifharness/gen"
	"verifharness/hx"
)

// TestC20_TraversalText: the stand-alone traversal parser (also reached through the static
// traversal view of a JSON string) is judged on texts that are only traversal-like: step
// texts are concatenated freely, so that most combinations are not valid for one parser or
// the other. Whatever it accepts must be what the expression parser makes of the same text.
func TestC20_TraversalText(t *testing.T) {
	roots := []string{"a", "l", "obj", "foo_bar", "é", "x1", "null", "for"}
	steps := []string{".a", ".b", ".foo", ".0", ".1", ".2", ".10", ".01", ".0a", "[0]", "[1]", "[ 0 ]", "[\n0\n]", "[\"k\"]", "[\"a b\"]", "[\"\"]",
		"[\"$${x}\"]", "[\"%%{x}\"]", "[\"\\n\"]", "[\"\\u00e9\"]", "[-1]", "[1.5]", "[1e2]", "[true]", "[null]", "[a]", "[\"${a}\"]", ".*", "[*]", ". a", " .a", ".\na",
		"[0][1]", ".a.b", ".0.1", ".1.0", ".0.a", ".a.0", "[\"k\"].0", ".0[\"k\"]", "[0x1]", "[00]", "[1_0]", "..a", ".", "[", "]", "[]", "()", "(a)", "?", "!", "-", " ", "\t", "#c\n", "/*c*/"}
	hx.Run(t, "C20", "TraversalText", 20000,
		"traversal-like text: a root followed by 0..5 step texts drawn from a pool of valid, legacy, fused (`.0.1`), spaced, escaped and malformed steps, concatenated without regard to validity; oracle: if hclsyntax.ParseTraversalAbs accepts the text then the expression parser accepts it as a static traversal with the same steps (root, attribute names, index keys incl. type), and ParseTraversalPartial likewise; if the static traversal view of the JSON string with that content succeeds it gives those steps too; non-trivial = accepted by the stand-alone parser with >=2 steps, or rejected by exactly one of the two parsers; distinct by text",
		func(c *hx.Case) {
			t := c.T
			var sb strings.Builder
			sb.WriteString(rapid.SampledFrom(roots).Draw(t, "root"))
			n := rapid.IntRange(0, 5).Draw(t, "nsteps")
			for i := 0; i < n; i++ {
				sb.WriteString(rapid.SampledFrom(steps).Draw(t, "step"))
			}
			src := sb.String()
			c.Set("source", src)
			var expr hclsyntax.Expression
			var ediags hcl.Diagnostics
			c.Guard("ParseExpression", func() { expr, ediags = hclsyntax.ParseExpression([]byte(src), "t.hcl", hcl.InitialPos) })
			var et hcl.Traversal
			exprStatic := false
			if !ediags.HasErrors() {
				var d hcl.Diagnostics
				c.Guard("AbsTraversalForExpr", func() { et, d = hcl.AbsTraversalForExpr(expr) })
				exprStatic = !d.HasErrors()
			}
			check := func(what string, tr hcl.Traversal, d hcl.Diagnostics) bool {
				if d.HasErrors() {
					return false
				}
				c.Class(what + "_accepts")
				if ediags.HasErrors() {
					c.Failf("traversal-parser-only", "%s accepts %q (as %s), which the expression parser rejects: %s", what, src, travString(tr), diagStr(ediags))
				}
				if !exprStatic {
					c.Failf("traversal-parser-only", "%s accepts %q (as %s), which is not a static traversal for the expression parser", what, src, travString(tr))
				}
				if !sameTraversal(tr, et) {
					c.Failf("traversal-parser-steps", "%s reads %q as %s, the expression parser as %s", what, src, travString(tr), travString(et))
				}
				return true
			}
			var tr hcl.Traversal
			var d hcl.Diagnostics
			c.Guard("ParseTraversalAbs", func() { tr, d = hclsyntax.ParseTraversalAbs([]byte(src), "t.hcl", hcl.InitialPos) })
			accepted := check("ParseTraversalAbs", tr, d)
			c.Guard("ParseTraversalPartial", func() { tr, d = hclsyntax.ParseTraversalPartial([]byte(src), "t.hcl", hcl.InitialPos) })
			if !d.HasErrors() && !isSplatTraversal(tr) {
				check("ParseTraversalPartial", tr, d)
			}
			// the JSON string with this content, seen as a static traversal
			js := gen.EncodeJSONString(src, rchooser{t}, false, map[string]bool{})
			jexpr, jd := hcljson.ParseExpression([]byte(js), "t.json")
			if !jd.HasErrors() {
				c.Guard("AbsTraversalForExpr(json)", func() { tr, d = hcl.AbsTraversalForExpr(jexpr) })
				check("the JSON string's static traversal", tr, d)
			}
			if accepted != exprStatic {
				c.Class("parsers_disagree_on_acceptance")
			}
			c.Done((accepted && len(tr) >= 2) || accepted != exprStatic, src)
		})
}

func isSplatTraversal(tr hcl.Traversal) bool {
	for _, s := range tr {
		if _, ok := s.(hcl.TraverseSplat); ok {
			return true
		}
	}
	return false
}
