package props

import (
	"fmt"
	"testing"

	"github.com/hashicorp/hcl/v2"
	hcljson "github.com/hashicorp/hcl/v2/json"
	"github.com/zclconf/go-cty/cty"
	"pgregory.net/rapid"

	"verifharness/gen"
	"verifharness/hx"
)

// TestC13_Reeval: the two readings of a JSON document (literal with a nil context, full
// expression with a non-nil one) are functions of the document and the context alone: an
// expression object that has been evaluated before, in either mode or under another
// context, gives what a fresh parse gives.
func TestC13_Reeval(t *testing.T) {
	keys := append(append([]string{}, gen.KeyPool...), "${k}", "x${1+1}", "$${lit}", "%{if true}y%{endif}", "${k}-${k}", "%%{lit}", "pre${k}")
	hx.Run(t, "C13", "Reeval", 8000,
		"grammar-generated JSON document (nesting <= 3; property names and strings incl. template sequences that read the variable k; half of the documents without any string value) parsed once with json.ParseExpression (and as a body through JustAttributes) and evaluated 3..5 times in a drawn sequence of modes: nil context, context with k = \"A\", context with k = \"B\", child context; oracle: every evaluation equals (value and error flag) the evaluation of a fresh parse of the same text in that mode; non-trivial = a name or string with a template sequence and two different modes in the sequence; distinct by (text, sequence)",
		func(c *hx.Case) {
			t := c.T
			opts := gen.JSONOpts{Depth: 3, NoDup: true, Keys: keys}
			if rapid.Bool().Draw(t, "no_strings") {
				opts.Strings = rapid.Just("")
			} else {
				opts.Strings = rapid.OneOf(gen.HostileString(), rapid.SampledFrom([]string{"${k}", "a${k}b", "$${k}", "%{if k == \"A\"}yes%{endif}", "plain"}))
			}
			doc := gen.DrawJSON(t, opts)
			if opts.Strings != nil && doc.Kind == gen.JStr {
				doc = &gen.JVal{Kind: gen.JArr, Arr: []*gen.JVal{doc}}
			}
			var strip func(v *gen.JVal)
			noStrings := rapid.Bool().Draw(t, "strip_strings")
			strip = func(v *gen.JVal) {
				v.LoneSurrogate = false
				if noStrings && v.Kind == gen.JStr {
					v.Kind, v.Num = gen.JNum, "7"
				}
				for _, e := range v.Arr {
					strip(e)
				}
				for _, m := range v.Obj {
					strip(m.Val)
				}
			}
			strip(doc)
			text, feat := gen.RenderJSON(doc, rchooser{t}, rapid.Bool().Draw(t, "wild"))
			c.Set("json", text)
			featClasses(c, "", feat)
			ctxs := map[string]*hcl.EvalContext{
				"nil": nil,
				"A":   {Variables: map[string]cty.Value{"k": cty.StringVal("A")}},
				"B":   {Variables: map[string]cty.Value{"k": cty.StringVal("B")}},
			}
			child := ctxs["A"].NewChild()
			child.Variables = map[string]cty.Value{"k": cty.StringVal("C")}
			ctxs["child"] = child
			type outcome struct {
				v   cty.Value
				err bool
			}
			eval := func(e hcl.Expression, mode string) outcome {
				var v cty.Value
				var d hcl.Diagnostics
				c.Guard("Value("+mode+")", func() { v, d = e.Value(ctxs[mode]) })
				return outcome{v, d.HasErrors()}
			}
			parse := func() []hcl.Expression {
				var out []hcl.Expression
				e, d := hcljson.ParseExpression([]byte(text), "t.json")
				if d.HasErrors() {
					c.Failf("valid-json-rejected", "%s", diagStr(d))
				}
				out = append(out, e)
				if doc.Kind == gen.JObj {
					f, d := hcljson.Parse([]byte(text), "t.json")
					if !d.HasErrors() {
						attrs, _ := f.Body.JustAttributes()
						for _, m := range doc.Obj {
							if a, ok := attrs[m.Key]; ok {
								out = append(out, a.Expr)
							}
						}
					}
				}
				return out
			}
			shared := parse()
			n := rapid.IntRange(3, 5).Draw(t, "nevals")
			var seq []string
			distinct := map[string]bool{}
			for i := 0; i < n; i++ {
				mode := rapid.SampledFrom([]string{"nil", "A", "B", "child", "nil", "A"}).Draw(t, "mode")
				seq = append(seq, mode)
				distinct[mode] = true
				fresh := parse()
				if len(fresh) != len(shared) {
					c.Failf("harness-generator", "parses differ in shape")
				}
				for j := range shared {
					got, want := eval(shared[j], mode), eval(fresh[j], mode)
					if got.err != want.err || (!got.err && !got.v.RawEquals(want.v)) {
						c.Set("sequence", seq)
						c.Failf("reevaluation-differs", "expression %d evaluated after %v in mode %q gives %#v (error=%v); a fresh parse gives %#v (error=%v)", j, seq[:len(seq)-1], mode, got.v, got.err, want.v, want.err)
					}
				}
			}
			tpl := false
			var scan func(v *gen.JVal)
			scan = func(v *gen.JVal) {
				has := func(s string) bool {
					for i := 0; i+1 < len(s); i++ {
						if (s[i] == '$' || s[i] == '%') && s[i+1] == '{' {
							return true
						}
					}
					return false
				}
				if v.Kind == gen.JStr && has(v.Str) {
					tpl = true
				}
				for _, e := range v.Arr {
					scan(e)
				}
				for _, m := range v.Obj {
					if has(m.Key) {
						tpl = true
					}
					scan(m.Val)
				}
			}
			scan(doc)
			if noStrings {
				c.Class("no_string_values")
			}
			c.Done(tpl && len(distinct) >= 2, text+fmt.Sprint(seq))
		})
}
