package props

import (
	"fmt"
	"testing"

	"github.com/hashicorp/hcl/v2"
	"github.com/hashicorp/hcl/v2/hcldec"
	"github.com/hashicorp/hcl/v2/hclsyntax"
	hcljson "github.com/hashicorp/hcl/v2/json"
	"github.com/zclconf/go-cty/cty"
	"pgregory.net/rapid"

	"verifharness/ast"
	"verifharness/gen"
	"verifharness/hx"
	"verifharness/ref"
	"verifharness/render"
)

// literalOfType draws a JSON-expressible literal expression that converts to ty (or, for `any`, anything).
func literalOfType(t *rapid.T, ty cty.Type) ast.Node {
	if rapid.IntRange(0, 9).Draw(t, "nulllit") == 0 {
		return ast.Null{}
	}
	str := func() ast.Node {
		s := cty.StringVal(rapid.SampledFrom([]string{"a", "b", "x y", "invalid", "", "é", "${x}", "5", "true", "%{x}", "100%", "%%{a}", "$${b}", "%{ if x }", "a${", "~}"}).Draw(t, "s")).AsString()
		if s == "" {
			return ast.Template{}
		}
		return ast.Template{Parts: []ast.TPart{ast.TLit{Text: s}}}
	}
	switch {
	case ty == cty.String:
		return str()
	case ty == cty.Number:
		return ast.Num{Text: rapid.SampledFrom([]string{"0", "1", "2", "42", "1.5"}).Draw(t, "n")}
	case ty == cty.Bool:
		return ast.Bool{V: rapid.Bool().Draw(t, "b")}
	case ty.IsListType() || ty.IsSetType():
		n := rapid.IntRange(0, 3).Draw(t, "n")
		var elems []ast.Node
		for i := 0; i < n; i++ {
			elems = append(elems, literalOfType(t, ty.ElementType()))
		}
		return ast.Tuple{Elems: elems}
	case ty.IsMapType():
		n := rapid.IntRange(0, 3).Draw(t, "n")
		var items []ast.ObjItem
		seen := map[string]bool{}
		for i := 0; i < n; i++ {
			k := rapid.SampledFrom([]string{"k", "a", "b", "x"}).Draw(t, "k")
			if seen[k] {
				continue
			}
			seen[k] = true
			items = append(items, ast.ObjItem{Kind: ast.KeyIdent, Name: k, Val: literalOfType(t, ty.ElementType())})
		}
		return ast.Object{Items: items}
	default:
		return drawLiteral(t, 1)
	}
}

var specAttrPool = []string{"alpha", "beta", "gamma", "count", "for_each", "in"}
var specBlockPool = []string{"blk", "res", "nested", "q"}

func hasInconsistentTypesDiag(diags hcl.Diagnostics) bool {
	for _, d := range diags {
		if len(d.Summary) > 30 && d.Summary[:30] == "Unconsistent argument types in" {
			return true
		}
	}
	return false
}

// tupleBecameList reports whether got has a list (map) where the implied type has a tuple (object): the
// shape of the known finding blocklist-unifies-nested-tuples-to-list (BlockListSpec /
// BlockSetSpec unify the values of their blocks with cty's unifier, which falls back from
// a tuple type to a list type when the element-wise unification has no conversion).
func tupleBecameList(got, want cty.Type) bool {
	switch {
	case want == cty.DynamicPseudoType:
		return false
	case want.IsTupleType():
		if got.IsListType() {
			return true
		}
		if got.IsTupleType() && got.Length() == want.Length() {
			for i, w := range want.TupleElementTypes() {
				if tupleBecameList(got.TupleElementType(i), w) {
					return true
				}
			}
		}
	case want.IsCollectionType():
		if got.IsCollectionType() {
			return tupleBecameList(got.ElementType(), want.ElementType())
		}
	case want.IsObjectType():
		if got.IsMapType() {
			// (the same fallback exists for object types: they unify to a map)
			return true
		}
		if got.IsObjectType() {
			for n, w := range want.AttributeTypes() {
				if got.HasAttribute(n) && tupleBecameList(got.AttributeType(n), w) {
					return true
				}
			}
		}
	}
	return false
}

// hasMultiLabelBlockMap reports whether the spec contains a BlockMapSpec with two or more label names.
func hasMultiLabelBlockMap(s *gen.SpecM) bool {
	if s == nil {
		return false
	}
	if s.Kind == gen.SBlockMap && len(s.LabelNames) >= 2 {
		return true
	}
	for _, f := range s.Fields {
		if hasMultiLabelBlockMap(f) {
			return true
		}
	}
	for _, e := range s.Elems {
		if hasMultiLabelBlockMap(e) {
			return true
		}
	}
	return hasMultiLabelBlockMap(s.Nested) || hasMultiLabelBlockMap(s.Primary) || hasMultiLabelBlockMap(s.Default)
}

func checkDecode(c *hx.Case, what string, body hcl.Body, spec hcldec.Spec, ms *gen.SpecM, want ref.DecResult, ctx *hcl.EvalContext) {
	implied := hcldec.ImpliedType(spec)
	mImplied := ref.ImpliedType(ms)
	if !implied.Equals(mImplied) {
		c.Failf("implied-type-model", "%s: hcldec.ImpliedType = %#v, documented rule gives %#v", what, implied, mImplied)
	}
	var got cty.Value
	var diags hcl.Diagnostics
	c.Guard(what+" Decode", func() { got, diags = hcldec.Decode(body, spec, ctx) })
	gt := got.Type()
	if !ref.Conforms(gt, implied.WithoutOptionalAttributesDeep()) {
		if diags.HasErrors() {
			c.Class("nonconforming_with_errors")
		}
		if want.EmptyMultiLabelMap && c.Known("blockmap-multilabel-empty-type") {
			c.Class("excluded_known_blockmap_multilabel_empty")
			return
		}
		if hasInconsistentTypesDiag(diags) && c.Known("blocklist-inconsistent-types-returns-dynamicval") {
			c.Class("excluded_known_blocklist_dynamicval")
			return
		}
		if diags.HasErrors() && tupleBecameList(gt, implied.WithoutOptionalAttributesDeep()) && c.Known("blocklist-unifies-nested-tuples-to-list") {
			c.Class("excluded_known_blocklist_tuple_to_list")
			return
		}
		c.Set("decoded", got.GoString())
		c.Failf("type-nonconforming", "%s: decoded value of type %#v does not conform to the implied type %#v (errors=%v: %s)", what, gt, implied, diags.HasErrors(), diagStr(diags))
	}
	var pgot cty.Value
	var rest hcl.Body
	var pdiags hcl.Diagnostics
	c.Guard(what+" PartialDecode", func() { pgot, rest, pdiags = hcldec.PartialDecode(body, spec, ctx) })
	if rest == nil {
		c.Failf("nil-remain", "%s: PartialDecode returned a nil remaining body", what)
	}
	if !ref.Conforms(pgot.Type(), implied.WithoutOptionalAttributesDeep()) {
		if want.EmptyMultiLabelMap && c.Known("blockmap-multilabel-empty-type") {
			return
		}
		if hasInconsistentTypesDiag(pdiags) && c.Known("blocklist-inconsistent-types-returns-dynamicval") {
			return
		}
		c.Failf("partial-type-nonconforming", "%s: PartialDecode value of type %#v does not conform to %#v (%s)", what, pgot.Type(), implied, diagStr(pdiags))
	}
	if want.Unspec != "" {
		c.Unspecified(want.Unspec)
		return
	}
	if want.EmptyMultiLabelMap {
		// (the reference reproduces the known one-level-short empty map, so the comparison
		// below stays strict; the hit is counted)
		c.Known("blockmap-multilabel-empty-type")
		c.Class("known_blockmap_multilabel_empty_reproduced")
	}
	if diags.HasErrors() != want.Err {
		c.Set("decoded", got.GoString())
		c.Failf("error-flag", "%s: Decode error=%v (%s), reference %v", what, diags.HasErrors(), diagStr(diags), want.Err)
	}
	if !want.Err && !got.RawEquals(want.V) {
		c.Failf("value-mismatch", "%s: decoded %#v, reference %#v", what, got, want.V)
	}
}

func TestC08_Decode(t *testing.T) {
	hx.Run(t, "C08", "Decode", 20000,
		"spec tree over every hcldec spec kind (depth<=3, within documented preconditions) and a body built from the spec and then perturbed (1-in-6: presence flipped, wrong literal type, wrong label count, zero/one/many blocks, extra items), native and (literal-only) JSON; oracle: no panic, hcldec.ImpliedType == documented rule, decoded type conforms to the implied type with and without errors (Decode and PartialDecode), error flag and value equal the reference decoder; non-trivial = a block-collection spec nested under another spec and an empty or erroneous branch exercised; distinct by (spec dump, body dump)",
		func(c *hx.Case) {
			t := c.T
			ms := gen.DrawSpec(t, gen.SpecOpts{Depth: 3, AttrNames: specAttrPool, BlockTypes: specBlockPool, BlockBias: 25})
			c.Set("spec", ms.Dump())
			kinds := map[string]bool{}
			specKinds(ms, kinds)
			featClasses(c, "spec_", kinds)
			body := gen.BodyFromSpec(t, ms, gen.BodyFromSpecOpts{Perturb: 6, Labels: sLabels, Expr: func(ty cty.Type) ast.Node { return literalOfType(t, ty) }})
			dump := ast.DumpBody(body)
			c.Set("body", dump)
			spec := toHCLDec(ms)
			want := ref.DecodeWith(ms, body, nil, ref.NewEnv(nil), ref.DecodeOpts{EmptyMultiLabelMapQuirk: hx.IsKnown("C08", "blockmap-multilabel-empty-type")})
			if want.Err {
				c.Class("reference_error")
			} else {
				c.Class("reference_value")
			}
			src, _ := render.File(body, rchooser{t}, drawBodyOpts(t))
			c.Set("native", src)
			f, diags := hclsyntax.ParseConfig([]byte(src), "t.hcl", hcl.InitialPos)
			if diags.HasErrors() {
				c.Failf("parse-error", "%s", diagStr(diags))
			}
			checkDecode(c, "native", f.Body, spec, ms, want, nil)
			// the same content as JSON (literal-only mode)
			if js, _, ok := render.JSONFile(body, rchooser{t}, true, false, blockAttrsTypes(ms)...); ok && jsonExpressible(ms, body) {
				c.Set("json", js)
				jf, jd := hcljson.Parse([]byte(js), "t.json")
				if jd.HasErrors() {
					c.Failf("json-parse-error", "%s", diagStr(jd))
				}
				c.Class("json_checked")
				checkDecode(c, "json", jf.Body, spec, ms, want, nil)
			}
			nested := false
			for k := range kinds {
				if len(k) > 5 && k[:5] == "Block" && k != "BlockLabel" {
					nested = true
				}
			}
			c.Done(nested && (want.Err || hasEmptyBranch(ms, body)), fmt.Sprintf("%s|%s", ms.Dump(), dump))
		})
}

// jsonExpressible: the JSON form denotes the same configuration only when the body's
// label counts agree with the spec's at every level (JSON derives label levels from
// the schema) and no free-form attributes block is involved in a mismatch.
// blockLike is a block or a dynamic block generating blocks of that type.
type blockLike struct {
	Type    string
	NLabels int
	Body    *ast.Body
}

func blockLikes(body *ast.Body) []blockLike {
	var out []blockLike
	for _, it := range body.Items {
		switch x := it.(type) {
		case ast.Block:
			out = append(out, blockLike{x.Type, len(x.Labels), x.Body})
		case ast.Dyn:
			out = append(out, blockLike{x.Type, len(x.Labels), x.Content})
		}
	}
	return out
}

func jsonExpressible(s *gen.SpecM, body *ast.Body) bool {
	ok := true
	counts := map[string]int{}
	nestedOf := map[string]*gen.SpecM{}
	attrsBlocks := map[string]bool{}
	s.SameBody(func(x *gen.SpecM) {
		if x.Kind.IsBlock() {
			counts[x.Name] = x.BlockLabelCount()
			nestedOf[x.Name] = x.Nested
			if x.Kind == gen.SBlockAttrs {
				attrsBlocks[x.Name] = true
			}
		}
	})
	for _, bl := range blockLikes(body) {
		n, known := counts[bl.Type]
		if !known {
			// an unexpected block type: JSON reports an extraneous property too, but cannot tell how
			// many label levels it has; fine as long as it has none
			if bl.NLabels != 0 {
				ok = false
			}
			continue
		}
		if n != bl.NLabels {
			ok = false
			continue
		}
		if attrsBlocks[bl.Type] {
			if len(bl.Body.Blocks()) > 0 {
				ok = false
			}
			continue
		}
		if nestedOf[bl.Type] != nil && !jsonExpressible(nestedOf[bl.Type], bl.Body) {
			ok = false
		}
	}
	// all blocks of one type must have one label count
	seen := map[string]int{}
	for _, bl := range blockLikes(body) {
		if n, dup := seen[bl.Type]; dup && n != bl.NLabels {
			ok = false
		}
		seen[bl.Type] = bl.NLabels
	}
	// an attribute named like a block type (or vice versa) is ambiguous in JSON
	for _, a := range body.Attrs() {
		if _, clash := counts[a.Name]; clash {
			ok = false
		}
	}
	return ok
}

// blockAttrsTypes lists the block types decoded in dynamic-attributes mode anywhere in the spec.
func blockAttrsTypes(s *gen.SpecM) []string {
	var out []string
	var walk func(x *gen.SpecM)
	walk = func(x *gen.SpecM) {
		if x == nil {
			return
		}
		if x.Kind == gen.SBlockAttrs {
			out = append(out, x.Name)
		}
		for _, f := range x.Fields {
			walk(f)
		}
		for _, e := range x.Elems {
			walk(e)
		}
		walk(x.Nested)
		walk(x.Primary)
		walk(x.Default)
	}
	walk(s)
	return out
}

func hasEmptyBranch(s *gen.SpecM, body *ast.Body) bool {
	found := false
	s.SameBody(func(x *gen.SpecM) {
		if x.Kind.IsBlock() {
			n := 0
			for _, bl := range body.Blocks() {
				if bl.Type == x.Name {
					n++
					if x.Nested != nil && hasEmptyBranch(x.Nested, bl.Body) {
						found = true
					}
				}
			}
			if n == 0 {
				found = true
			}
		}
	})
	return found
}
