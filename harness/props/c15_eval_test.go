package props

import (
	"fmt"
	"testing"

	"github.com/hashicorp/hcl/v2"
	"github.com/hashicorp/hcl/v2/hclsyntax"
	"github.com/zclconf/go-cty/cty"
	"pgregory.net/rapid"

	"verifharness/ast"
	"verifharness/gen"
	"verifharness/hx"
	"verifharness/render"
)

// hostileVariant returns v with some of its parts (v itself, elements, attributes, at any
// depth) replaced by nulls, unknowns, the dynamic value, marked values or values of
// another type. Keys of maps and objects are kept.
func hostileVariant(t *rapid.T, v cty.Value, depth int) cty.Value {
	ty := v.Type()
	switch rapid.IntRange(0, 11).Draw(t, "hostile") {
	case 0:
		return cty.NullVal(ty)
	case 1:
		return cty.UnknownVal(ty)
	case 2:
		return cty.DynamicVal
	case 3:
		return cty.NullVal(cty.DynamicPseudoType)
	case 4:
		return v.Mark("h")
	case 5:
		return rapid.SampledFrom([]cty.Value{cty.StringVal("x"), cty.NumberIntVal(1), cty.True, cty.EmptyTupleVal, cty.EmptyObjectVal, cty.ListValEmpty(cty.String), cty.MapValEmpty(cty.Number)}).Draw(t, "othertype")
	}
	if v.IsNull() || !v.IsKnown() || depth >= 3 {
		return v
	}
	switch {
	case ty.IsTupleType() || ty.IsListType():
		if v.LengthInt() == 0 {
			return v
		}
		var vals []cty.Value
		for it := v.ElementIterator(); it.Next(); {
			_, ev := it.Element()
			vals = append(vals, hostileVariant(t, ev, depth+1))
		}
		// (a tuple: the element types may now differ)
		return cty.TupleVal(vals)
	case ty.IsObjectType() || ty.IsMapType():
		if v.LengthInt() == 0 {
			return v
		}
		m := map[string]cty.Value{}
		for it := v.ElementIterator(); it.Next(); {
			k, ev := it.Element()
			m[k.AsString()] = hostileVariant(t, ev, depth+1)
		}
		return cty.ObjectVal(m)
	}
	return v
}

// TestC15_Eval: evaluation of an error-free parse is total for every scope.
func TestC15_Eval(t *testing.T) {
	hx.Run(t, "C15", "Eval", 15000,
		"expression from G-EXPR (1-in-5 ill-typed sub-expressions: for / object-for with computed keys, splats, indexes, conditionals, calls with expansion, templates) parsed without error and evaluated in 4 scopes in which every variable, and every element / attribute inside it at any depth, is independently replaced by a null (typed or dynamic), an unknown, the dynamic value, a marked value or a value of another type; also with a nil context and a child context; oracle: no panic, a non-nil result value, well-formed in-bounds diagnostics, Variables() and the text writer panic-free; non-trivial = an evaluation returned error diagnostics and another returned none; distinct by (AST dump)",
		func(c *hx.Case) {
			t := c.T
			sc := gen.DrawScope(t, gen.ScopeOpts{Nulls: 8})
			g := gen.NewEG(t, sc, gen.ExprOpts{IllTyped: 5, Budget: 14, MaxDepth: 4})
			n := g.Expr(cty.DynamicPseudoType)
			dump := ast.Dump(n)
			src, _ := render.Expression(n, render.Fixed{}, render.Opts{})
			c.Set("source", src)
			featClasses(c, "node_", nodeKinds(n))
			expr, diags := hclsyntax.ParseExpression([]byte(src), "t.hcl", hcl.InitialPos)
			if diags.HasErrors() {
				c.Failf("parse-error", "%s", diagStr(diags))
			}
			files := map[string]*hcl.File{"t.hcl": {Bytes: []byte(src)}}
			sawErr, sawOK := false, false
			eval := func(what string, ctx *hcl.EvalContext) {
				var v cty.Value
				var d hcl.Diagnostics
				c.Guard("Value ("+what+")", func() { v, d = expr.Value(ctx) })
				if v == cty.NilVal {
					c.Failf("nil-value", "%s: Value returned cty.NilVal", what)
				}
				checkDiags(c, "Value ("+what+")", d, len(src), hcl.InitialPos)
				_ = renderDiags(c, d, files)
				if d.HasErrors() {
					sawErr = true
				} else {
					sawOK = true
				}
			}
			c.Guard("Variables", func() { _ = expr.Variables() })
			eval("original scope", evalCtx(sc))
			eval("nil context", nil)
			for k := 0; k < 4; k++ {
				ctx := evalCtx(sc)
				desc := map[string]string{}
				for _, name := range sc.Names {
					hv := hostileVariant(t, sc.Vals[name], 0)
					ctx.Variables[name] = hv
					desc[name] = hv.GoString()
				}
				if rapid.IntRange(0, 4).Draw(t, "child") == 0 {
					ctx = ctx.NewChild()
				}
				c.Set("scope", desc)
				eval(fmt.Sprintf("hostile scope %d", k), ctx)
			}
			c.Done(sawErr && sawOK, dump)
		})
}
