package props

import (
	"fmt"
	"testing"

	"github.com/hashicorp/hcl/v2"
	"github.com/hashicorp/hcl/v2/ext/dynblock"
	"github.com/hashicorp/hcl/v2/hcldec"
	"github.com/hashicorp/hcl/v2/hclsyntax"
	"github.com/zclconf/go-cty/cty"
	"pgregory.net/rapid"

	"verifharness/hx"
)

// TestC06_NestedDynamic: blocks generated inside generated blocks, where the collections,
// labels and values at the different levels carry different marks (or none).
func TestC06_NestedDynamic(t *testing.T) {
	hx.Run(t, "C06", "NestedDynamic", 6000,
		"directed family: `dynamic \"outer\"` whose content holds an attribute, optionally a static block, and a `dynamic \"inner\"` (optionally a third level); the three for_each collections are scope variables (lists / maps / sets of strings, 0..3 elements) each of which is unmarked, marked OTHER or - exactly one - the secret marked SECRET as a whole or per element; inner for_each may also derive from the outer iterator; labels and values read the iterators; decoded by BlockList / BlockSet / BlockMap / BlockTuple specs; the secret is given two contents; oracle (non-interference): both runs error-free and the decoded values differ after deep unmarking => both carry SECRET; non-trivial = results differ and another mark is present at another level; distinct by (source, marks)",
		func(c *hx.Case) {
			t := c.T
			drawColl := func(label string) cty.Value {
				n := rapid.IntRange(0, 3).Draw(t, label+"_n")
				shape := rapid.SampledFrom([]string{"list", "map", "set"}).Draw(t, label+"_shape")
				var elems []cty.Value
				m := map[string]cty.Value{}
				for i := 0; i < n; i++ {
					s := rapid.SampledFrom([]string{"p", "q", "r", "s"}).Draw(t, label+"_elem")
					elems = append(elems, cty.StringVal(s))
					m[fmt.Sprintf("k%d", i)] = cty.StringVal(s)
				}
				switch {
				case n == 0 && shape == "map":
					return cty.MapValEmpty(cty.String)
				case n == 0 && shape == "set":
					return cty.SetValEmpty(cty.String)
				case n == 0:
					return cty.ListValEmpty(cty.String)
				case shape == "map":
					return cty.MapVal(m)
				case shape == "set":
					return cty.SetVal(elems)
				default:
					return cty.ListVal(elems)
				}
			}
			names := []string{"o", "i", "d", "val"}
			vals := map[string]cty.Value{"o": drawColl("o"), "i": drawColl("i"), "d": drawColl("d"), "val": cty.StringVal("v")}
			secret := rapid.SampledFrom(names).Draw(t, "secret")
			perElem := rapid.Bool().Draw(t, "per_element")
			mark := func(v cty.Value, m string) cty.Value {
				if !perElem || !v.CanIterateElements() || v.LengthInt() == 0 {
					return v.Mark(m)
				}
				switch {
				case v.Type().IsMapType():
					mm := map[string]cty.Value{}
					for it := v.ElementIterator(); it.Next(); {
						k, ev := it.Element()
						mm[k.AsString()] = ev.Mark(m)
					}
					return cty.MapVal(mm)
				case v.Type().IsSetType():
					return v.Mark(m)
				default:
					var es []cty.Value
					for it := v.ElementIterator(); it.Next(); {
						_, ev := it.Element()
						es = append(es, ev.Mark(m))
					}
					return cty.ListVal(es)
				}
			}
			other := map[string]bool{}
			for _, n := range names {
				if n != secret && rapid.IntRange(0, 1).Draw(t, "other_"+n) == 0 {
					other[n] = true
				}
			}
			// alternative content of the secret: same type; with per-element marks the length and
			// the keys of the (unmarked) container are public structure and stay fixed
			var alt cty.Value
			sv := vals[secret]
			wholeMarked := secret == "val" || !perElem || sv.Type().IsSetType() || sv.LengthInt() == 0
			if secret == "val" {
				alt = cty.StringVal("w")
			} else if !wholeMarked {
				m := map[string]cty.Value{}
				var es []cty.Value
				for it := sv.ElementIterator(); it.Next(); {
					k, _ := it.Element()
					e := cty.StringVal(rapid.SampledFrom([]string{"p", "q", "r", "s", "t"}).Draw(t, "alt_elem"))
					es = append(es, e)
					if k.Type() == cty.String {
						m[k.AsString()] = e
					}
				}
				if sv.Type().IsMapType() {
					alt = cty.MapVal(m)
				} else {
					alt = cty.ListVal(es)
				}
			} else {
				for tries := 0; ; tries++ {
					alt = drawColl("alt")
					if alt.Type().Equals(vals[secret].Type()) || tries > 20 {
						break
					}
				}
				if !alt.Type().Equals(vals[secret].Type()) {
					alt = vals[secret]
				}
			}
			// the body
			levels := rapid.IntRange(2, 3).Draw(t, "levels")
			innerFE := rapid.SampledFrom([]string{"i", "i", "[outer.value, \"x\"]", "{a = outer.key}"}).Draw(t, "inner_for_each")
			staticWrap := rapid.Bool().Draw(t, "static_wrap")
			deep := ""
			if levels == 3 {
				deep = "      dynamic \"deep\" {\n        for_each = d\n        content {\n          z = \"${deep.value}${inner.value}${val}\"\n        }\n      }\n"
			}
			inner := "    dynamic \"inner\" {\n      for_each = " + innerFE + "\n      content {\n        v = \"${inner.value}-${outer.key}\"\n        w = val\n" + deep + "      }\n    }\n"
			if staticWrap {
				inner = "    wrap {\n" + inner + "    }\n"
			}
			src := "dynamic \"outer\" {\n  for_each = o\n  content {\n    x = outer.value\n" + inner + "  }\n}\n"
			if rapid.Bool().Draw(t, "static_sibling") {
				src += "outer {\n  x = val\n}\n"
			}
			c.Set("source", src)
			f, diags := hclsyntax.ParseConfig([]byte(src), "t.hcl", hcl.InitialPos)
			if diags.HasErrors() {
				c.Failf("harness-generator", "%s", diagStr(diags))
			}
			coll := func(typ string, nested hcldec.Spec) hcldec.Spec {
				switch rapid.SampledFrom([]string{"list", "list", "set", "tuple"}).Draw(t, "spec_"+typ) {
				case "set":
					return &hcldec.BlockSetSpec{TypeName: typ, Nested: nested}
				case "tuple":
					return &hcldec.BlockTupleSpec{TypeName: typ, Nested: nested}
				default:
					return &hcldec.BlockListSpec{TypeName: typ, Nested: nested}
				}
			}
			innerSpec := hcldec.ObjectSpec{"v": &hcldec.AttrSpec{Name: "v", Type: cty.String}, "w": &hcldec.AttrSpec{Name: "w", Type: cty.String}}
			if levels == 3 {
				innerSpec["deep"] = coll("deep", hcldec.ObjectSpec{"z": &hcldec.AttrSpec{Name: "z", Type: cty.String}})
			}
			var innerColl hcldec.Spec = coll("inner", innerSpec)
			outerSpec := hcldec.ObjectSpec{"x": &hcldec.AttrSpec{Name: "x", Type: cty.String}}
			if staticWrap {
				outerSpec["wrap"] = &hcldec.BlockSpec{TypeName: "wrap", Nested: hcldec.ObjectSpec{"inner": innerColl}}
			} else {
				outerSpec["inner"] = innerColl
			}
			spec := coll("outer", outerSpec)
			mkCtx := func(content cty.Value) *hcl.EvalContext {
				vars := map[string]cty.Value{}
				for _, n := range names {
					v := vals[n]
					switch {
					case n == secret:
						v = mark(content, secretMark)
					case other[n]:
						v = mark(v, otherMark)
					}
					vars[n] = v
				}
				return &hcl.EvalContext{Variables: vars, Functions: ctyFuncs}
			}
			ctx1, ctx2 := mkCtx(vals[secret]), mkCtx(alt)
			c.Set("marks", fmt.Sprintf("secret=%s per_element=%v other=%v content1=%#v content2=%#v", secret, perElem, other, vals[secret], alt))
			var r1, r2 cty.Value
			var d1, d2 hcl.Diagnostics
			c.Guard("Decode(content1)", func() { r1, d1 = hcldec.Decode(dynblock.Expand(f.Body, ctx1), spec, ctx1) })
			c.Guard("Decode(content2)", func() { r2, d2 = hcldec.Decode(dynblock.Expand(f.Body, ctx2), spec, ctx2) })
			if d1.HasErrors() || d2.HasErrors() {
				c.Class("some_run_error")
				c.Done(false, "")
				return
			}
			if unmarkedDeep(r1).RawEquals(unmarkedDeep(r2)) {
				c.Class("no_influence")
				c.Done(false, "")
				return
			}
			c.Class("influence_secret_" + secret)
			if !carriesMark(r1, secretMark) || !carriesMark(r2, secretMark) {
				// the number of generated blocks decided by a collection marked as a whole is a known finding
				if secret != "val" && wholeMarked && vals[secret].LengthInt() != alt.LengthInt() && c.Known("dynblock-marked-for-each-block-count-unmarked") {
					c.Class("excluded_known_block_count")
					c.Done(false, "")
					return
				}
				c.Failf("mark-lost", "changing the marked variable %q changes the decoded value (%#v vs %#v) but the mark is not carried by both results", secret, r1, r2)
			}
			c.Done(len(other) > 0, src+fmt.Sprintf("%s|%v|%v", secret, perElem, other))
		})
}
