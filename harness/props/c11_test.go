package props

import (
	"fmt"
	"strings"
	"testing"

	"github.com/hashicorp/hcl/v2"
	"github.com/hashicorp/hcl/v2/hclsyntax"
	"github.com/hashicorp/hcl/v2/hclwrite"
	"github.com/zclconf/go-cty/cty"
	"github.com/zclconf/go-cty/cty/convert"
	"pgregory.net/rapid"

	"verifharness/gen"
	"verifharness/hx"
)

// valueFeatures classifies a value for C11's non-triviality rule.
type valFeat struct {
	escape, keyword, nonIdentKey, bigNum, fracNum, nullv, nested, set, emptyColl bool
	forFirstKey                                                                  bool
}

func scanValue(v cty.Value, f *valFeat, depth int) {
	if v.IsNull() {
		f.nullv = true
		return
	}
	ty := v.Type()
	switch {
	case ty == cty.String:
		s := v.AsString()
		if strings.ContainsAny(s, "\"\\$%{}\n\r\t~") || hasNonPrintOrNonASCII(s) {
			f.escape = true
		}
	case ty == cty.Number:
		bf := v.AsBigFloat()
		if !bf.IsInt() {
			f.fracNum = true
		}
		if f64, acc := bf.Float64(); acc != 0 || f64 > 1e15 || f64 < -1e15 {
			f.bigNum = true
		}
	case ty.IsCollectionType() || ty.IsTupleType() || ty.IsObjectType():
		if depth > 0 {
			f.nested = true
		}
		if ty.IsSetType() {
			f.set = true
		}
		if v.LengthInt() == 0 {
			f.emptyColl = true
		}
		first := true
		for it := v.ElementIterator(); it.Next(); {
			k, ev := it.Element()
			if ty.IsMapType() || ty.IsObjectType() {
				ks := k.AsString()
				switch ks {
				case "for", "in", "if", "null", "true", "false":
					f.keyword = true
					if first && ks == "for" {
						f.forFirstKey = true
					}
				}
				if !hclsyntax.ValidIdentifier(ks) {
					f.nonIdentKey = true
				}
			}
			first = false
			scanValue(ev, f, depth+1)
		}
	}
}

func hasNonPrintOrNonASCII(s string) bool {
	for _, r := range s {
		if r < 0x20 || r >= 0x7f {
			return true
		}
	}
	return false
}

func (f valFeat) classes(c *hx.Case) {
	m := map[string]bool{"escape": f.escape, "keyword_key": f.keyword, "nonident_key": f.nonIdentKey, "big_num": f.bigNum,
		"frac_num": f.fracNum, "null": f.nullv, "nested": f.nested, "set": f.set, "empty_coll": f.emptyColl, "for_first_key": f.forFirstKey}
	for k, v := range m {
		if v {
			c.Class(k)
		}
	}
}

func diagStr(d hcl.Diagnostics) string {
	var parts []string
	for _, x := range d {
		parts = append(parts, fmt.Sprintf("%s: %s", x.Summary, x.Detail))
	}
	return strings.Join(parts, " || ")
}

func TestC11_Value(t *testing.T) {
	hx.Run(t, "C11", "Value", 40000,
		"value from G-VAL (hostile strings, arbitrary-precision numbers, nulls, nested collections, keyword/non-identifier keys); non-trivial = contains an escape-relevant string, a keyword or non-identifier key, or a number outside float64/fractional; distinct by Go-syntax of the value",
		caseC11Value)
}

func caseC11Value(c *hx.Case) {
	t := c.T
	v := gen.Value(gen.TypeOpts{Depth: 3}, gen.ValOpts{Nulls: 9, Hostile: true}).Draw(t, "v")
	c.Set("value", v.GoString())
	var f valFeat
	scanValue(v, &f, 0)
	f.classes(c)
	var src []byte
	c.Guard("TokensForValue", func() { src = hclwrite.TokensForValue(v).Bytes() })
	c.Set("src", string(src))
	if f.forFirstKey && c.Known("for-first-key") {
		c.Done(false, "")
		return
	}
	expr, diags := hclsyntax.ParseExpression(src, "gen.hcl", hcl.InitialPos)
	if diags.HasErrors() {
		c.Failf("parse-error", "generated source does not parse: %s", diagStr(diags))
	}
	got, diags := expr.Value(nil)
	if diags.HasErrors() {
		c.Failf("eval-error", "generated source does not evaluate: %s", diagStr(diags))
	}
	conv, err := convert.Convert(got, v.Type())
	if err != nil {
		c.Failf("convert-error", "evaluated %#v cannot convert to %#v: %s", got, v.Type(), err)
	}
	if !conv.RawEquals(v) {
		c.Failf("value-mismatch", "read back %#v, want %#v", conv, v)
	}
	c.Done(f.escape || f.keyword || f.nonIdentKey || f.bigNum || f.fracNum, v.GoString())
}

func FuzzC11_Value(f *testing.F) { hx.Fuzz(f, "C11", "Value", caseC11Value) }

// identifiers valid per hclsyntax/spec.md: ID_Start (ID_Continue | '-')*
var identPool = []string{"a", "b", "foo", "bar_1", "x-y", "a-", "_x", "for", "in", "if", "null", "true", "false", "\u00e9t\u00e9", "\u65e5\u672c", "A1", "endif", "x--y", "e1", "inf", "nan"}

func genTraversalSteps(t *rapid.T, n int) []hcl.Traverser {
	var steps []hcl.Traverser
	for i := 0; i < n; i++ {
		switch rapid.IntRange(0, 3).Draw(t, "stepkind") {
		case 0, 1:
			steps = append(steps, hcl.TraverseAttr{Name: rapid.SampledFrom(identPool).Draw(t, "attr")})
		case 2:
			steps = append(steps, hcl.TraverseIndex{Key: cty.StringVal(gen.HostileString().Draw(t, "strkey"))})
		default:
			var k cty.Value
			if rapid.Bool().Draw(t, "smallidx") {
				k = cty.NumberIntVal(int64(rapid.IntRange(0, 12).Draw(t, "idx")))
			} else {
				k = gen.Number().Draw(t, "numkey")
				if k.AsBigFloat().Sign() < 0 {
					k = k.Negate()
				}
			}
			steps = append(steps, hcl.TraverseIndex{Key: k})
		}
	}
	return steps
}

func travString(tr hcl.Traversal) string {
	var sb strings.Builder
	for _, s := range tr {
		switch ts := s.(type) {
		case hcl.TraverseRoot:
			fmt.Fprintf(&sb, "root(%q)", ts.Name)
		case hcl.TraverseAttr:
			fmt.Fprintf(&sb, ".attr(%q)", ts.Name)
		case hcl.TraverseIndex:
			fmt.Fprintf(&sb, ".index(%#v)", ts.Key)
		case hcl.TraverseSplat:
			sb.WriteString(".splat")
		default:
			fmt.Fprintf(&sb, ".?%T", s)
		}
	}
	return sb.String()
}

func sameTraversal(a, b hcl.Traversal) bool {
	if len(a) != len(b) {
		return false
	}
	for i := range a {
		switch x := a[i].(type) {
		case hcl.TraverseRoot:
			y, ok := b[i].(hcl.TraverseRoot)
			if !ok || x.Name != y.Name {
				return false
			}
		case hcl.TraverseAttr:
			y, ok := b[i].(hcl.TraverseAttr)
			if !ok || x.Name != y.Name {
				return false
			}
		case hcl.TraverseIndex:
			y, ok := b[i].(hcl.TraverseIndex)
			if !ok || !x.Key.RawEquals(y.Key) {
				return false
			}
		default:
			return false
		}
	}
	return true
}

func TestC11_Traversal(t *testing.T) {
	hx.Run(t, "C11", "Traversal", 20000,
		"absolute or relative traversal (root identifier incl. keywords/unicode/dashes; attr, string-index with hostile strings, non-negative number-index steps); non-trivial = >=2 steps with an index step; distinct by step dump",
		func(c *hx.Case) {
			t := c.T
			n := rapid.IntRange(0, 5).Draw(t, "nsteps")
			rel := rapid.IntRange(0, 3).Draw(t, "relative") == 0
			steps := genTraversalSteps(t, n)
			root := rapid.SampledFrom(identPool).Draw(t, "root")
			full := append(hcl.Traversal{hcl.TraverseRoot{Name: root}}, steps...)
			var src []byte
			if rel {
				if len(steps) == 0 {
					c.Done(false, "")
					return
				}
				c.Class("relative")
				c.Guard("TokensForTraversal", func() { src = hclwrite.TokensForTraversal(hcl.Traversal(steps)).Bytes() })
				src = append([]byte(root), src...)
			} else {
				c.Guard("TokensForTraversal", func() { src = hclwrite.TokensForTraversal(full).Bytes() })
			}
			c.Set("traversal", travString(full))
			c.Set("src", string(src))
			hasIdx := false
			for _, s := range steps {
				if ix, ok := s.(hcl.TraverseIndex); ok {
					hasIdx = true
					if ix.Key.Type() == cty.String {
						c.Class("string_index")
					} else {
						c.Class("number_index")
					}
				}
			}
			got, diags := hclsyntax.ParseTraversalAbs(src, "gen.hcl", hcl.InitialPos)
			if diags.HasErrors() {
				c.Failf("traversal-parse-error", "ParseTraversalAbs: %s", diagStr(diags))
			}
			if !sameTraversal(got, full) {
				c.Failf("traversal-mismatch", "ParseTraversalAbs read back %s, want %s", travString(got), travString(full))
			}
			expr, diags := hclsyntax.ParseExpression(src, "gen.hcl", hcl.InitialPos)
			if diags.HasErrors() {
				c.Failf("expr-parse-error", "ParseExpression: %s", diagStr(diags))
			}
			got2, diags := hcl.AbsTraversalForExpr(expr)
			if diags.HasErrors() {
				c.Failf("expr-not-traversal", "AbsTraversalForExpr: %s", diagStr(diags))
			}
			if !sameTraversal(got2, full) {
				c.Failf("expr-traversal-mismatch", "AbsTraversalForExpr read back %s, want %s", travString(got2), travString(full))
			}
			c.Done(len(steps) >= 2 && hasIdx, travString(full))
		})
}

// ---- writer API -------------------------------------------------------------

type wAttr struct {
	name string
	val  cty.Value
	trav hcl.Traversal
	// pre: what the attribute was set to before its final value (overwrites)
	pre []wAttr
}
type wBlock struct {
	typ    string
	labels []string
	body   *wBody
	// how the labels reach the block: 0 = a fresh slice; 1 = one scratch slice that the
	// caller refills for every block and scribbles over afterwards; 2 = the block is created
	// with other labels, then the slice obtained from Labels() is modified and given to SetLabels
	labelMode int
	oldLabels []string
}
type wBody struct {
	attrs  []wAttr // in insertion order; unique names
	blocks []wBlock
}

var attrNamePool = []string{"a", "b", "c", "name", "for", "in", "if", "null", "true", "x-y", "\u00e9", "count"}
var blockTypePool = []string{"b", "blk", "resource", "for", "null", "dynamic", "x-y", "if"}

func genWBody(t *rapid.T, depth int) *wBody {
	b := &wBody{}
	na := rapid.IntRange(0, 3).Draw(t, "nattrs")
	seen := map[string]bool{}
	for i := 0; i < na; i++ {
		name := rapid.SampledFrom(attrNamePool).Draw(t, "attrname")
		if seen[name] {
			continue
		}
		seen[name] = true
		drawOne := func() wAttr {
			if rapid.IntRange(0, 3).Draw(t, "astrav") == 0 {
				root := rapid.SampledFrom(identPool).Draw(t, "root")
				tr := append(hcl.Traversal{hcl.TraverseRoot{Name: root}}, genTraversalSteps(t, rapid.IntRange(0, 3).Draw(t, "nsteps"))...)
				return wAttr{name: name, trav: tr}
			}
			v := gen.Value(gen.TypeOpts{Depth: 2}, gen.ValOpts{Nulls: 9, Hostile: true}).Draw(t, "val")
			return wAttr{name: name, val: v}
		}
		a := drawOne()
		if rapid.IntRange(0, 2).Draw(t, "overwritten") == 0 {
			for k := rapid.IntRange(1, 3).Draw(t, "noverwrites"); k > 0; k-- {
				a.pre = append(a.pre, drawOne())
			}
		}
		b.attrs = append(b.attrs, a)
	}
	if depth > 0 {
		nb := rapid.IntRange(0, 2).Draw(t, "nblocks")
		for i := 0; i < nb; i++ {
			blk := wBlock{typ: rapid.SampledFrom(blockTypePool).Draw(t, "btype")}
			nl := rapid.IntRange(0, 3).Draw(t, "nlabels")
			for j := 0; j < nl; j++ {
				if rapid.Bool().Draw(t, "identlabel") {
					blk.labels = append(blk.labels, rapid.SampledFrom(identPool).Draw(t, "label"))
				} else {
					blk.labels = append(blk.labels, gen.HostileString().Draw(t, "label"))
				}
			}
			blk.labelMode = rapid.SampledFrom([]int{0, 0, 1, 2}).Draw(t, "labelmode")
			if blk.labelMode == 2 {
				for j := 0; j < nl; j++ {
					if rapid.Bool().Draw(t, "keeplabel") {
						blk.oldLabels = append(blk.oldLabels, blk.labels[j])
					} else {
						blk.oldLabels = append(blk.oldLabels, rapid.SampledFrom(identPool).Draw(t, "oldlabel"))
					}
				}
			}
			blk.body = genWBody(t, depth-1)
			b.blocks = append(b.blocks, blk)
		}
	}
	return b
}

func (b *wBody) dump(sb *strings.Builder, ind string) {
	for _, a := range b.attrs {
		if a.trav != nil {
			fmt.Fprintf(sb, "%s%s = trav %s\n", ind, a.name, travString(a.trav))
		} else {
			fmt.Fprintf(sb, "%s%s = %#v\n", ind, a.name, a.val)
		}
	}
	for _, bl := range b.blocks {
		fmt.Fprintf(sb, "%s%s %q {\n", ind, bl.typ, bl.labels)
		bl.body.dump(sb, ind+"  ")
		fmt.Fprintf(sb, "%s}\n", ind)
	}
}

// wScratch is the label slice a caller reuses from block to block (labelMode 1).
var wScratch = make([]string, 0, 8)

func writeWBody(b *wBody, out *hclwrite.Body, viaNewBlock bool) {
	set := func(a wAttr) {
		if a.trav != nil {
			out.SetAttributeTraversal(a.name, a.trav)
		} else {
			out.SetAttributeValue(a.name, a.val)
		}
	}
	// the earlier values of overwritten attributes first, round by round, so that the
	// overwrites interleave with the other attributes
	for round := 0; round < 3; round++ {
		for _, a := range b.attrs {
			if round < len(a.pre) {
				set(a.pre[round])
			}
		}
	}
	for _, a := range b.attrs {
		if len(a.pre) == 0 {
			set(a)
		}
	}
	for _, a := range b.attrs {
		if len(a.pre) > 0 {
			set(a)
		}
	}
	for _, bl := range b.blocks {
		labels := append([]string(nil), bl.labels...)
		switch bl.labelMode {
		case 1:
			wScratch = append(wScratch[:0], bl.labels...)
			labels = wScratch
		case 2:
			labels = append([]string(nil), bl.oldLabels...)
		}
		var nb *hclwrite.Block
		if viaNewBlock {
			nb = hclwrite.NewBlock(bl.typ, labels)
			out.AppendBlock(nb)
		} else {
			nb = out.AppendNewBlock(bl.typ, labels)
		}
		switch bl.labelMode {
		case 1:
			for i := range wScratch {
				wScratch[i] = "scribbled"
			}
		case 2:
			ls := nb.Labels()
			if len(ls) == len(bl.labels) {
				copy(ls, bl.labels)
			} else {
				ls = append([]string(nil), bl.labels...)
			}
			nb.SetLabels(ls)
			for i := range ls {
				ls[i] = "scribbled"
			}
		}
		writeWBody(bl.body, nb.Body(), viaNewBlock)
	}
}

func checkWBody(c *hx.Case, b *wBody, got *hclsyntax.Body, path string) {
	if len(got.Attributes) != len(b.attrs) {
		c.Failf("attr-count", "%s: parsed %d attributes, wrote %d", path, len(got.Attributes), len(b.attrs))
	}
	for _, a := range b.attrs {
		ga, ok := got.Attributes[a.name]
		if !ok {
			c.Failf("attr-missing", "%s: attribute %q missing after read back", path, a.name)
		}
		if a.trav != nil {
			tr, diags := hcl.AbsTraversalForExpr(ga.Expr)
			if diags.HasErrors() {
				c.Failf("attr-not-traversal", "%s.%s: %s", path, a.name, diagStr(diags))
			}
			if !sameTraversal(tr, a.trav) {
				c.Failf("attr-traversal-mismatch", "%s.%s: read back %s want %s", path, a.name, travString(tr), travString(a.trav))
			}
			continue
		}
		v, diags := ga.Expr.Value(nil)
		if diags.HasErrors() {
			c.Failf("attr-eval-error", "%s.%s: %s", path, a.name, diagStr(diags))
		}
		conv, err := convert.Convert(v, a.val.Type())
		if err != nil || !conv.RawEquals(a.val) {
			c.Failf("attr-value-mismatch", "%s.%s: read back %#v want %#v (%v)", path, a.name, v, a.val, err)
		}
	}
	if len(got.Blocks) != len(b.blocks) {
		c.Failf("block-count", "%s: parsed %d blocks, wrote %d", path, len(got.Blocks), len(b.blocks))
	}
	for i, bl := range b.blocks {
		gb := got.Blocks[i]
		if gb.Type != bl.typ {
			c.Failf("block-type", "%s: block %d type %q want %q", path, i, gb.Type, bl.typ)
		}
		if len(gb.Labels) != len(bl.labels) {
			c.Failf("label-count", "%s: block %d labels %q want %q", path, i, gb.Labels, bl.labels)
		}
		for j := range bl.labels {
			if gb.Labels[j] != cty.StringVal(bl.labels[j]).AsString() && gb.Labels[j] != bl.labels[j] {
				c.Failf("label-mismatch", "%s: block %d label %d read back %q want %q", path, i, j, gb.Labels[j], bl.labels[j])
			}
		}
		checkWBody(c, bl.body, gb.Body, fmt.Sprintf("%s/%s[%d]", path, bl.typ, i))
	}
}

func checkWBodyAPI(c *hx.Case, b *wBody, got *hclwrite.Body, path string) {
	if n := len(got.Attributes()); n != len(b.attrs) {
		c.Failf("api-attr-count", "%s: API reports %d attributes, wrote %d", path, n, len(b.attrs))
	}
	for _, a := range b.attrs {
		ga := got.GetAttribute(a.name)
		if ga == nil {
			c.Failf("api-attr-missing", "%s: GetAttribute(%q) is nil", path, a.name)
		}
		etxt := ga.Expr().BuildTokens(nil).Bytes()
		ex, diags := hclsyntax.ParseExpression(etxt, "expr.hcl", hcl.InitialPos)
		if diags.HasErrors() {
			c.Failf("api-attr-expr", "%s.%s: Expr() tokens %q do not parse: %s", path, a.name, etxt, diagStr(diags))
		}
		if a.trav != nil {
			tr, diags := hcl.AbsTraversalForExpr(ex)
			if diags.HasErrors() || !sameTraversal(tr, a.trav) {
				c.Failf("api-attr-expr", "%s.%s: Expr() is %q, want the traversal %s", path, a.name, etxt, travString(a.trav))
			}
			continue
		}
		v, diags := ex.Value(nil)
		if diags.HasErrors() {
			c.Failf("api-attr-expr", "%s.%s: Expr() %q: %s", path, a.name, etxt, diagStr(diags))
		}
		conv, err := convert.Convert(v, a.val.Type())
		if err != nil || !conv.RawEquals(a.val) {
			c.Failf("api-attr-expr", "%s.%s: Expr() is %q = %#v, want %#v", path, a.name, etxt, v, a.val)
		}
	}
	blocks := got.Blocks()
	if len(blocks) != len(b.blocks) {
		c.Failf("api-block-count", "%s: API reports %d blocks, wrote %d", path, len(blocks), len(b.blocks))
	}
	for i, bl := range b.blocks {
		gl := blocks[i].Labels()
		if len(gl) != len(bl.labels) {
			c.Failf("api-label-count", "%s: block %d Labels() = %q want %q", path, i, gl, bl.labels)
		}
		for j := range gl {
			if gl[j] != bl.labels[j] && gl[j] != cty.StringVal(bl.labels[j]).AsString() {
				if (strings.Contains(bl.labels[j], "$${") || strings.Contains(bl.labels[j], "%%{")) && c.Known("labels-accessor-dollar-escape") {
					continue
				}
				c.Failf("api-label-mismatch", "%s: block %d Labels()[%d] = %q want %q", path, i, j, gl[j], bl.labels[j])
			}
		}
		if blocks[i].Type() != bl.typ {
			c.Failf("api-block-type", "%s: block %d Type() = %q want %q", path, i, blocks[i].Type(), bl.typ)
		}
		checkWBodyAPI(c, bl.body, blocks[i].Body(), fmt.Sprintf("%s/%s[%d]", path, bl.typ, i))
	}
}

func (b *wBody) features(f *valFeat, hostileLabel *bool) {
	for _, a := range b.attrs {
		if a.trav == nil {
			scanValue(a.val, f, 0)
		}
	}
	for _, bl := range b.blocks {
		for _, l := range bl.labels {
			if !hclsyntax.ValidIdentifier(l) {
				*hostileLabel = true
			}
		}
		bl.body.features(f, hostileLabel)
	}
}

func TestC11_WriterAPI(t *testing.T) {
	hx.Run(t, "C11", "WriterAPI", 8000,
		"file built through SetAttributeValue/SetAttributeTraversal/AppendNewBlock/NewBlock+AppendBlock with arbitrary label strings, nested 2 levels; non-trivial = a non-identifier label or an escape-relevant value; distinct by model dump",
		func(c *hx.Case) {
			t := c.T
			model := genWBody(t, 2)
			viaNew := rapid.Bool().Draw(t, "viaNewBlock")
			var sb strings.Builder
			model.dump(&sb, "")
			c.Set("model", sb.String())
			var f valFeat
			hostileLabel := false
			model.features(&f, &hostileLabel)
			if hostileLabel {
				c.Class("nonident_label")
			}
			f.classes(c)
			var file *hclwrite.File
			var src []byte
			c.Guard("writer API", func() {
				file = hclwrite.NewEmptyFile()
				writeWBody(model, file.Body(), viaNew)
				src = file.Bytes()
			})
			c.Set("src", string(src))
			if f.forFirstKey && c.Known("for-first-key") {
				c.Done(false, "")
				return
			}
			parsed, diags := hclsyntax.ParseConfig(src, "gen.hcl", hcl.InitialPos)
			if diags.HasErrors() {
				c.Failf("config-parse-error", "generated file does not parse: %s", diagStr(diags))
			}
			checkWBody(c, model, parsed.Body.(*hclsyntax.Body), "")
			c.Guard("Labels()", func() { checkWBodyAPI(c, model, file.Body(), "") })
			c.Done(hostileLabel || f.escape || f.keyword || f.nonIdentKey, sb.String())
		})
}
