package props

import (
	"fmt"
	"sort"
	"strings"
	"testing"

	"github.com/hashicorp/hcl/v2"
	"github.com/hashicorp/hcl/v2/hclsyntax"
	"github.com/hashicorp/hcl/v2/hclwrite"
	"github.com/zclconf/go-cty/cty"
	"github.com/zclconf/go-cty/cty/convert"
	"pgregory.net/rapid"

	"verifharness/ast"
	"verifharness/gen"
	"verifharness/hx"
	"verifharness/render"
)

// ---- model ------------------------------------------------------------------

type mKind int

const (
	mAttrVal mKind = iota
	mAttrTrav
	mAttrRaw  // set from raw tokens: expected source text of the expression
	mAttrOrig // parsed from source and never edited: expected original tokens
	mBlock
)

type mItem struct {
	kind    mKind
	name    string // attribute name or block type
	val     cty.Value
	trav    hcl.Traversal
	raw     string
	orig    []ltok // original tokens of the whole item (mAttrOrig, untouched mBlock)
	labels  []string
	body    *mBody
	touched bool
	blk     *hclwrite.Block // the API handle (blocks only)
}

type mBody struct {
	items []*mItem
	api   *hclwrite.Body
	// inline: the body of a block that was written on one line in the source ("b { a = 1 }",
	// "b {}"): appending to it is a separately listed known finding
	inline bool
}

func (b *mBody) attr(name string) (int, *mItem) {
	for i, it := range b.items {
		if it.kind != mBlock && it.name == name {
			return i, it
		}
	}
	return -1, nil
}

func (b *mBody) blocks() []*mItem {
	var out []*mItem
	for _, it := range b.items {
		if it.kind == mBlock {
			out = append(out, it)
		}
	}
	return out
}

// allBodies lists this body and every nested block body with a path string.
func (b *mBody) allBodies(path string, out *[]struct {
	path string
	b    *mBody
	own  []*mItem
}, chain []*mItem) {
	*out = append(*out, struct {
		path string
		b    *mBody
		own  []*mItem
	}{path, b, chain})
	for i, it := range b.items {
		if it.kind == mBlock {
			it.body.allBodies(fmt.Sprintf("%s/%s[%d]", path, it.name, i), out, append(append([]*mItem{}, chain...), it))
		}
	}
}

func (b *mBody) dump(sb *strings.Builder, ind string) {
	for _, it := range b.items {
		switch it.kind {
		case mBlock:
			fmt.Fprintf(sb, "%s%s %q {\n", ind, it.name, it.labels)
			it.body.dump(sb, ind+"  ")
			fmt.Fprintf(sb, "%s}\n", ind)
		case mAttrVal:
			fmt.Fprintf(sb, "%s%s = %#v\n", ind, it.name, it.val)
		case mAttrTrav:
			fmt.Fprintf(sb, "%s%s = trav %s\n", ind, it.name, travString(it.trav))
		case mAttrRaw:
			fmt.Fprintf(sb, "%s%s = raw %q\n", ind, it.name, it.raw)
		default:
			fmt.Fprintf(sb, "%s%s = <original tokens>\n", ind, it.name)
		}
	}
}

// tokensOfRange lexes src and returns the tokens fully inside rng (comments excluded).
func tokensOfRange(all hclsyntax.Tokens, rng hcl.Range) []ltok {
	var out []ltok
	for _, tk := range all {
		if tk.Range.Start.Byte >= rng.Start.Byte && tk.Range.End.Byte <= rng.End.Byte && tk.Type != hclsyntax.TokenEOF {
			out = append(out, ltok{tk.Type, string(tk.Bytes)})
		}
	}
	return out
}

// buildModel creates the model of a parsed file from the generating tree, recording original tokens.
func buildModel(tree *ast.Body, syn *hclsyntax.Body, api *hclwrite.Body, all hclsyntax.Tokens) *mBody {
	m := &mBody{api: api}
	apiBlocks := api.Blocks()
	bi := 0
	for _, it := range tree.Items {
		switch x := it.(type) {
		case ast.Attr:
			m.items = append(m.items, &mItem{kind: mAttrOrig, name: x.Name, orig: tokensOfRange(all, syn.Attributes[x.Name].SrcRange)})
		case ast.Block:
			sb := syn.Blocks[bi]
			labels := make([]string, len(x.Labels))
			for i, l := range x.Labels {
				labels[i] = l.Text
			}
			mi := &mItem{kind: mBlock, name: x.Type, labels: labels, orig: tokensOfRange(all, sb.Range()), blk: apiBlocks[bi]}
			mi.body = buildModel(x.Body, sb.Body, apiBlocks[bi].Body(), all)
			for ti, tk := range all {
				if tk.Range.Start.Byte == sb.OpenBraceRange.Start.Byte && ti+1 < len(all) {
					nx := all[ti+1]
					nl := nx.Type == hclsyntax.TokenNewline || (nx.Type == hclsyntax.TokenComment && strings.HasSuffix(string(nx.Bytes), "\n"))
					mi.body.inline = !nl
				}
			}
			m.items = append(m.items, mi)
			bi++
		}
	}
	return m
}

// ---- checking -----------------------------------------------------------------

type synItem struct {
	start int
	attr  *hclsyntax.Attribute
	block *hclsyntax.Block
}

func orderedItems(b *hclsyntax.Body) []synItem {
	var out []synItem
	for _, a := range b.Attributes {
		out = append(out, synItem{start: a.SrcRange.Start.Byte, attr: a})
	}
	for _, bl := range b.Blocks {
		out = append(out, synItem{start: bl.Range().Start.Byte, block: bl})
	}
	sort.Slice(out, func(i, j int) bool { return out[i].start < out[j].start })
	return out
}

func checkModelAgainstSyntax(c *hx.Case, m *mBody, syn *hclsyntax.Body, all hclsyntax.Tokens, src []byte, path string) {
	got := orderedItems(syn)
	if len(got) != len(m.items) {
		c.Failf("item-count", "%s: file has %d items, model %d", path, len(got), len(m.items))
	}
	for i, it := range m.items {
		g := got[i]
		switch it.kind {
		case mBlock:
			if g.block == nil || g.block.Type != it.name {
				c.Failf("item-mismatch", "%s: item %d should be block %q", path, i, it.name)
			}
			if strings.Join(g.block.Labels, "\x00") != strings.Join(it.labels, "\x00") || len(g.block.Labels) != len(it.labels) {
				c.Failf("block-labels", "%s: block %d %q has labels %q, model %q", path, i, it.name, g.block.Labels, it.labels)
			}
			if !it.touched && it.orig != nil && !subtreeTouched(it) {
				now := tokensOfRange(all, g.block.Range())
				if d := firstTokDiff(it.orig, now); d >= 0 {
					c.Failf("untouched-block-tokens", "%s: untouched block %q changed at token %d: was %s, now %s", path, it.name, d, tokAt(it.orig, d), tokAt(now, d))
				}
			}
			checkModelAgainstSyntax(c, it.body, g.block.Body, all, src, fmt.Sprintf("%s/%s[%d]", path, it.name, i))
		default:
			if g.attr == nil || g.attr.Name != it.name {
				c.Failf("item-mismatch", "%s: item %d should be attribute %q", path, i, it.name)
			}
			switch it.kind {
			case mAttrVal:
				v, diags := g.attr.Expr.Value(nil)
				if diags.HasErrors() {
					c.Failf("attr-eval-error", "%s.%s: %s", path, it.name, diagStr(diags))
				}
				conv, err := convert.Convert(v, it.val.Type())
				if err != nil || !conv.RawEquals(it.val) {
					c.Failf("attr-value", "%s.%s = %#v, model %#v", path, it.name, v, it.val)
				}
			case mAttrTrav:
				tr, diags := hcl.AbsTraversalForExpr(g.attr.Expr)
				if diags.HasErrors() || !sameTraversal(tr, it.trav) {
					c.Failf("attr-traversal", "%s.%s = %s, model %s", path, it.name, travString(tr), travString(it.trav))
				}
			case mAttrRaw:
				now := tokensOfRange(all, g.attr.Expr.Range())
				wantToks, _ := hclsyntax.LexExpression([]byte(it.raw), "", hcl.InitialPos)
				var want []ltok
				for _, tk := range wantToks {
					if tk.Type != hclsyntax.TokenEOF {
						want = append(want, ltok{tk.Type, string(tk.Bytes)})
					}
				}
				if d := firstTokDiff(want, now); d >= 0 {
					c.Failf("attr-raw", "%s.%s: raw expression tokens differ at %d: want %s, got %s", path, it.name, d, tokAt(want, d), tokAt(now, d))
				}
			case mAttrOrig:
				now := tokensOfRange(all, g.attr.SrcRange)
				if d := firstTokDiff(it.orig, now); d >= 0 {
					c.Failf("untouched-attr-tokens", "%s: untouched attribute %q changed at token %d: was %s, now %s", path, it.name, d, tokAt(it.orig, d), tokAt(now, d))
				}
			}
		}
	}
}

func subtreeTouched(it *mItem) bool {
	if it.touched {
		return true
	}
	if it.body != nil {
		for _, ch := range it.body.items {
			if ch.kind != mAttrOrig && ch.kind != mBlock {
				return true
			}
			if subtreeTouched(ch) {
				return true
			}
			if ch.kind == mBlock && ch.orig == nil {
				return true
			}
		}
	}
	return false
}

func checkModelAgainstAPI(c *hx.Case, m *mBody, path string) {
	attrs := m.api.Attributes()
	want := 0
	for _, it := range m.items {
		if it.kind != mBlock {
			want++
			if attrs[it.name] == nil || m.api.GetAttribute(it.name) == nil {
				c.Failf("api-attr-missing", "%s: Attributes()/GetAttribute misses %q", path, it.name)
			}
		}
	}
	if len(attrs) != want {
		c.Failf("api-attr-count", "%s: Attributes() has %d entries, model %d", path, len(attrs), want)
	}
	blocks := m.api.Blocks()
	mb := m.blocks()
	if len(blocks) != len(mb) {
		c.Failf("api-block-count", "%s: Blocks() has %d entries, model %d", path, len(blocks), len(mb))
	}
	for i, it := range mb {
		if blocks[i].Type() != it.name {
			c.Failf("api-block-type", "%s: Blocks()[%d].Type() = %q, model %q", path, i, blocks[i].Type(), it.name)
		}
		gl := blocks[i].Labels()
		if len(gl) != len(it.labels) || strings.Join(gl, "\x00") != strings.Join(it.labels, "\x00") {
			c.Failf("api-block-labels", "%s: Blocks()[%d].Labels() = %q, model %q", path, i, gl, it.labels)
		}
		if blocks[i] != it.blk {
			c.Failf("api-block-identity", "%s: Blocks()[%d] is not the block the model tracks", path, i)
		}
		checkModelAgainstAPI(c, it.body, fmt.Sprintf("%s/%s[%d]", path, it.name, i))
	}
}

// labels used by the edit operations: arbitrary strings, except the two escape
// sequences whose read-back through Labels() is a separately listed finding (C11).
var c12Labels = func() []string {
	var out []string
	for _, l := range gen.LabelTexts {
		if strings.Contains(l, "$${") || strings.Contains(l, "%%{") {
			continue
		}
		out = append(out, cty.StringVal(l).AsString())
	}
	return out
}()

func drawLabels(t *rapid.T) []string {
	n := rapid.IntRange(0, 3).Draw(t, "nlabels")
	out := make([]string, n)
	for i := range out {
		out[i] = rapid.SampledFrom(c12Labels).Draw(t, "label")
	}
	return out
}

func TestC12_Edits(t *testing.T) {
	hx.Run(t, "C12", "Edits", 4000,
		"stateful (rapid t.Repeat): initial file is empty or parsed from a G-LAYOUT rendering with comments; then edit operations with arbitrary arguments on the root body or any nested block body: SetAttributeValue/Traversal/Raw, RenameAttribute (absent source, existing target), RemoveAttribute (absent), AppendNewBlock, AppendBlock(NewBlock), RemoveBlock (also foreign), SetType, SetLabels, AppendNewline, FirstMatchingBlock, Bytes; invariant after every step: serialised file parses without errors, its items equal the map/list model, read accessors agree with the model, untouched items keep their tokens; non-trivial = >=3 mutating operations of which one re-targets an item touched before; distinct by operation log",
		func(c *hx.Case) {
			t := c.T
			var file *hclwrite.File
			var model *mBody
			var log []string
			if rapid.IntRange(0, 2).Draw(t, "initial") == 0 {
				file = hclwrite.NewEmptyFile()
				model = &mBody{api: file.Body()}
				log = append(log, "init empty")
				c.Class("init_empty")
			} else {
				sc := gen.DrawScope(t, gen.ScopeOpts{Nulls: 12})
				tree := drawConfig(t, sc, 2, gen.ExprOpts{IllTyped: 12, Budget: 8, MaxDepth: 2})
				bo := drawBodyOpts(t)
				if c.Known("append-after-unterminated-last-item") {
					bo.NoFinalNewline = false
				}
				src, _ := render.File(tree, rchooser{t}, bo)
				c.Set("initial_source", src)
				var diags hcl.Diagnostics
				c.Guard("hclwrite.ParseConfig", func() { file, diags = hclwrite.ParseConfig([]byte(src), "t.hcl", hcl.InitialPos) })
				if diags.HasErrors() || file == nil {
					c.Failf("initial-parse-error", "%s", diagStr(diags))
				}
				syn, _ := hclsyntax.ParseConfig([]byte(src), "t.hcl", hcl.InitialPos)
				all, _ := hclsyntax.LexConfig([]byte(src), "t.hcl", hcl.InitialPos)
				model = buildModel(tree, syn.Body.(*hclsyntax.Body), file.Body(), all)
				log = append(log, "init parsed")
				c.Class("init_parsed")
			}
			mutating, retarget := 0, 0

			pickBody := func() (string, *mBody, []*mItem) {
				var bodies []struct {
					path string
					b    *mBody
					own  []*mItem
				}
				model.allBodies("", &bodies, nil)
				k := rapid.IntRange(0, len(bodies)-1).Draw(t, "body")
				return bodies[k].path, bodies[k].b, bodies[k].own
			}
			touchChain := func(chain []*mItem) {
				for _, it := range chain {
					it.touched = true
				}
			}
			attrName := func(b *mBody) string {
				// prefer existing names half of the time
				var existing []string
				for _, it := range b.items {
					if it.kind != mBlock {
						existing = append(existing, it.name)
					}
				}
				if len(existing) > 0 && rapid.Bool().Draw(t, "existing") {
					return rapid.SampledFrom(existing).Draw(t, "name")
				}
				return rapid.SampledFrom(gen.BodyAttrNames).Draw(t, "name")
			}
			inlineAppend := func(b *mBody, name string) bool {
				if !b.inline {
					return false
				}
				if name != "" {
					if _, old := b.attr(name); old != nil {
						return false // replacing an existing attribute's expression is fine
					}
				}
				if c.Known("append-into-one-line-block") {
					c.Class("excluded_known_one_line_block_append")
					return true
				}
				return false
			}
			setAttr := func(path string, b *mBody, chain []*mItem, name string, ni *mItem, desc string) {
				log = append(log, fmt.Sprintf("%s %s.%s %s", desc, path, name, ""))
				mutating++
				touchChain(chain)
				if i, old := b.attr(name); old != nil {
					if old.kind != mAttrOrig || old.touched {
						retarget++
					}
					ni.touched = true
					b.items[i] = ni
				} else {
					ni.touched = true
					b.items = append(b.items, ni)
				}
			}

			check := func() {
				var out []byte
				c.Guard("File.Bytes", func() { out = file.Bytes() })
				c.Set("bytes", string(out))
				c.Set("ops", log)
				syn, diags := hclsyntax.ParseConfig(out, "t.hcl", hcl.InitialPos)
				if diags.HasErrors() {
					c.Failf("invalid-after-edit", "serialised file does not parse after %q: %s", log[len(log)-1], diagStr(diags))
				}
				all, _ := hclsyntax.LexConfig(out, "t.hcl", hcl.InitialPos)
				checkModelAgainstSyntax(c, model, syn.Body.(*hclsyntax.Body), all, out, "")
				c.Guard("read accessors", func() { checkModelAgainstAPI(c, model, "") })
			}

			t.Repeat(map[string]func(*rapid.T){
				"SetAttributeValue": func(t *rapid.T) {
					path, b, chain := pickBody()
					name := attrName(b)
					v := gen.Value(gen.TypeOpts{Depth: 2}, gen.ValOpts{Nulls: 9, Hostile: true}).Draw(t, "val")
					var f valFeat
					scanValue(v, &f, 0)
					if f.forFirstKey && c.Known("for-first-key") {
						t.Skip("known")
					}
					if inlineAppend(b, name) {
						return
					}
					c.Guard("SetAttributeValue", func() { b.api.SetAttributeValue(name, v) })
					setAttr(path, b, chain, name, &mItem{kind: mAttrVal, name: name, val: v}, "SetAttributeValue")
				},
				"SetAttributeTraversal": func(t *rapid.T) {
					path, b, chain := pickBody()
					name := attrName(b)
					tr := append(hcl.Traversal{hcl.TraverseRoot{Name: rapid.SampledFrom(identPool).Draw(t, "root")}}, genTraversalSteps(t, rapid.IntRange(0, 3).Draw(t, "nsteps"))...)
					if inlineAppend(b, name) {
						return
					}
					c.Guard("SetAttributeTraversal", func() { b.api.SetAttributeTraversal(name, tr) })
					setAttr(path, b, chain, name, &mItem{kind: mAttrTrav, name: name, trav: tr}, "SetAttributeTraversal")
				},
				"SetAttributeRaw": func(t *rapid.T) {
					path, b, chain := pickBody()
					name := attrName(b)
					raw := rapid.SampledFrom([]string{"1 + 2", "a.b[0]", "[1, 2, 3]", "f(x)", "\"s\"", "!x", "a ? b : c", "{ k = v }"}).Draw(t, "raw")
					toks, _ := hclsyntax.LexExpression([]byte(raw), "", hcl.InitialPos)
					var wt hclwrite.Tokens
					for _, tk := range toks {
						if tk.Type == hclsyntax.TokenEOF {
							continue
						}
						wt = append(wt, &hclwrite.Token{Type: tk.Type, Bytes: tk.Bytes, SpacesBefore: 1})
					}
					if inlineAppend(b, name) {
						return
					}
					c.Guard("SetAttributeRaw", func() { b.api.SetAttributeRaw(name, wt) })
					setAttr(path, b, chain, name, &mItem{kind: mAttrRaw, name: name, raw: raw}, "SetAttributeRaw")
				},
				"RenameAttribute": func(t *rapid.T) {
					path, b, chain := pickBody()
					from := attrName(b)
					to := attrName(b)
					fi, fit := b.attr(from)
					_, tit := b.attr(to)
					want := fit != nil && tit == nil
					var got bool
					c.Guard("RenameAttribute", func() { got = b.api.RenameAttribute(from, to) })
					log = append(log, fmt.Sprintf("RenameAttribute %s %s->%s = %v", path, from, to, got))
					if got != want {
						c.Failf("rename-result", "RenameAttribute(%q,%q) returned %v, model says %v", from, to, got, want)
					}
					if want {
						mutating++
						touchChain(chain)
						if fit.touched || fit.kind != mAttrOrig {
							retarget++
						}
						ni := *fit
						ni.name = to
						ni.touched = true
						if ni.kind == mAttrOrig {
							// the expression keeps its tokens; only the name changes
							ni.orig = append([]ltok{{hclsyntax.TokenIdent, to}}, fit.orig[1:]...)
						}
						b.items[fi] = &ni
					}
				},
				"RemoveAttribute": func(t *rapid.T) {
					path, b, chain := pickBody()
					name := attrName(b)
					i, it := b.attr(name)
					var got *hclwrite.Attribute
					c.Guard("RemoveAttribute", func() { got = b.api.RemoveAttribute(name) })
					log = append(log, fmt.Sprintf("RemoveAttribute %s.%s", path, name))
					if (got != nil) != (it != nil) {
						c.Failf("remove-result", "RemoveAttribute(%q) returned %v, model has attribute: %v", name, got != nil, it != nil)
					}
					if it != nil {
						mutating++
						touchChain(chain)
						if it.touched || it.kind != mAttrOrig {
							retarget++
						}
						b.items = append(b.items[:i:i], b.items[i+1:]...)
					}
				},
				"AppendNewBlock": func(t *rapid.T) {
					path, b, chain := pickBody()
					typ := rapid.SampledFrom(gen.BodyBlockTypes).Draw(t, "type")
					labels := drawLabels(t)
					if inlineAppend(b, "") {
						return
					}
					var nb *hclwrite.Block
					if rapid.Bool().Draw(t, "viaNewBlock") {
						c.Guard("NewBlock+AppendBlock", func() { nb = hclwrite.NewBlock(typ, labels); b.api.AppendBlock(nb) })
					} else {
						c.Guard("AppendNewBlock", func() { nb = b.api.AppendNewBlock(typ, labels) })
					}
					log = append(log, fmt.Sprintf("AppendNewBlock %s %s %q", path, typ, labels))
					mutating++
					touchChain(chain)
					b.items = append(b.items, &mItem{kind: mBlock, name: typ, labels: labels, body: &mBody{api: nb.Body()}, touched: true, blk: nb})
				},
				"RemoveBlock": func(t *rapid.T) {
					path, b, chain := pickBody()
					blocks := b.blocks()
					if len(blocks) == 0 || rapid.IntRange(0, 5).Draw(t, "foreign") == 0 {
						foreign := hclwrite.NewBlock("foreign", nil)
						var got bool
						c.Guard("RemoveBlock", func() { got = b.api.RemoveBlock(foreign) })
						log = append(log, fmt.Sprintf("RemoveBlock %s <foreign> = %v", path, got))
						if got {
							c.Failf("remove-foreign-block", "RemoveBlock of a block that is not in the body returned true")
						}
						return
					}
					k := rapid.IntRange(0, len(blocks)-1).Draw(t, "which")
					target := blocks[k]
					var got bool
					c.Guard("RemoveBlock", func() { got = b.api.RemoveBlock(target.blk) })
					log = append(log, fmt.Sprintf("RemoveBlock %s %s#%d = %v", path, target.name, k, got))
					if !got {
						c.Failf("remove-block-result", "RemoveBlock of a present block returned false")
					}
					mutating++
					touchChain(chain)
					if target.touched {
						retarget++
					}
					for i, it := range b.items {
						if it == target {
							b.items = append(b.items[:i:i], b.items[i+1:]...)
							break
						}
					}
				},
				"SetType": func(t *rapid.T) {
					path, b, chain := pickBody()
					blocks := b.blocks()
					if len(blocks) == 0 {
						t.Skip("no block")
					}
					target := blocks[rapid.IntRange(0, len(blocks)-1).Draw(t, "which")]
					typ := rapid.SampledFrom(gen.BodyBlockTypes).Draw(t, "type")
					c.Guard("SetType", func() { target.blk.SetType(typ) })
					log = append(log, fmt.Sprintf("SetType %s %s -> %s", path, target.name, typ))
					mutating++
					touchChain(chain)
					if target.touched {
						retarget++
					}
					target.name, target.touched = typ, true
				},
				"SetLabels": func(t *rapid.T) {
					path, b, chain := pickBody()
					blocks := b.blocks()
					if len(blocks) == 0 {
						t.Skip("no block")
					}
					target := blocks[rapid.IntRange(0, len(blocks)-1).Draw(t, "which")]
					labels := drawLabels(t)
					c.Guard("SetLabels", func() { target.blk.SetLabels(labels) })
					log = append(log, fmt.Sprintf("SetLabels %s %s %q", path, target.name, labels))
					mutating++
					touchChain(chain)
					if target.touched {
						retarget++
					}
					target.labels, target.touched = labels, true
				},
				"AppendNewline": func(t *rapid.T) {
					path, b, chain := pickBody()
					if inlineAppend(b, "") {
						return
					}
					c.Guard("AppendNewline", func() { b.api.AppendNewline() })
					log = append(log, "AppendNewline "+path)
					touchChain(chain)
				},
				"FirstMatchingBlock": func(t *rapid.T) {
					path, b, _ := pickBody()
					blocks := b.blocks()
					typ := rapid.SampledFrom(gen.BodyBlockTypes).Draw(t, "type")
					labels := drawLabels(t)
					if len(blocks) > 0 && rapid.Bool().Draw(t, "existing") {
						tb := blocks[rapid.IntRange(0, len(blocks)-1).Draw(t, "which")]
						typ, labels = tb.name, tb.labels
					}
					var want *hclwrite.Block
					for _, it := range blocks {
						if it.name == typ && len(it.labels) == len(labels) && strings.Join(it.labels, "\x00") == strings.Join(labels, "\x00") {
							want = it.blk
							break
						}
					}
					var got *hclwrite.Block
					c.Guard("FirstMatchingBlock", func() { got = b.api.FirstMatchingBlock(typ, labels) })
					log = append(log, fmt.Sprintf("FirstMatchingBlock %s %s %q", path, typ, labels))
					if got != want {
						c.Failf("first-matching-block", "FirstMatchingBlock(%q, %q) returned %v, model expects %v", typ, labels, got != nil, want != nil)
					}
				},
				"": func(t *rapid.T) { check() },
			})
			var sb strings.Builder
			model.dump(&sb, "")
			c.Set("model", sb.String())
			if retarget > 0 {
				c.Class("retargeted")
			}
			c.Done(mutating >= 3 && retarget >= 1, strings.Join(log, ";"))
		})
}
