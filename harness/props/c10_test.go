package props

import (
	"bytes"
	"fmt"
	"pgregory.net/rapid"
	"sort"
	"strings"
	"testing"

	"github.com/hashicorp/hcl/v2"
	"github.com/hashicorp/hcl/v2/hclsyntax"
	"github.com/hashicorp/hcl/v2/hclwrite"

	"verifharness/ast"
	"verifharness/gen"
	"verifharness/hx"
	"verifharness/render"
)

// varsOfSyntax lists "root/steps" for every variable traversal of a syntax expression.
func travKey(tr hcl.Traversal) string {
	if len(tr) == 0 {
		return "?"
	}
	return fmt.Sprintf("%s/%d", tr.RootName(), len(tr))
}

func sortedKeys(trs []hcl.Traversal) []string {
	out := make([]string, len(trs))
	for i, tr := range trs {
		out[i] = travKey(tr)
	}
	sort.Strings(out)
	return out
}

// writerTravKey parses the tokens of a writer traversal back to get root name and step count.
func writerTravKey(tr *hclwrite.Traversal) string {
	src := tr.BuildTokens(nil).Bytes()
	expr, diags := hclsyntax.ParseExpression(src, "", hcl.InitialPos)
	if diags.HasErrors() {
		return fmt.Sprintf("unparsable(%q)", src)
	}
	parsed, diags := hcl.AbsTraversalForExpr(expr)
	if diags.HasErrors() {
		return fmt.Sprintf("not-a-traversal(%q)", src)
	}
	return travKey(parsed)
}

func labelHasEscape(l ast.Label) bool {
	return !l.Bare && (strings.Contains(l.Text, "${") || strings.Contains(l.Text, "%{"))
}

// checkWriterTree compares the writer AST with the generating tree and the hclsyntax parse.
func checkWriterTree(c *hx.Case, want *ast.Body, syn *hclsyntax.Body, got *hclwrite.Body, path string) {
	attrs := got.Attributes()
	wa := want.Attrs()
	if len(attrs) != len(wa) {
		c.Failf("writer-attr-count", "%s: writer tree exposes %d attributes, source has %d", path, len(attrs), len(wa))
	}
	for _, a := range wa {
		ga := attrs[a.Name]
		if ga == nil || got.GetAttribute(a.Name) == nil {
			c.Failf("writer-attr-missing", "%s: writer tree does not expose attribute %q", path, a.Name)
		}
		wantVars := sortedKeys(syn.Attributes[a.Name].Expr.Variables())
		var gotVars []string
		for _, tr := range ga.Expr().Variables() {
			gotVars = append(gotVars, writerTravKey(tr))
		}
		sort.Strings(gotVars)
		if strings.Join(wantVars, ",") != strings.Join(gotVars, ",") {
			c.Failf("writer-variables", "%s.%s: writer Variables() = %v, hclsyntax Variables() = %v", path, a.Name, gotVars, wantVars)
		}
		// independently of hclsyntax: the referenced roots are the free variables of the tree
		gotRoots := map[string]bool{}
		for _, tr := range ga.Expr().Variables() {
			// the first token of a reference is its root name
			for _, tk := range tr.BuildTokens(nil) {
				if tk.Type == hclsyntax.TokenIdent {
					gotRoots[string(tk.Bytes)] = true
					break
				}
			}
		}
		free := ast.FreeVars(a.Expr)
		if setString(gotRoots) != setString(free) {
			c.Failf("writer-variables-vs-tree", "%s.%s: writer Variables() has the roots {%s}, the expression refers to {%s}", path, a.Name, setString(gotRoots), setString(free))
		}
	}
	blocks := got.Blocks()
	wb := want.Blocks()
	if len(blocks) != len(wb) {
		c.Failf("writer-block-count", "%s: writer tree exposes %d blocks, source has %d", path, len(blocks), len(wb))
	}
	for i, bl := range wb {
		gb := blocks[i]
		if gb.Type() != bl.Type {
			c.Failf("writer-block-type", "%s: block %d Type() = %q, source %q", path, i, gb.Type(), bl.Type)
		}
		labels := gb.Labels()
		ok := len(labels) == len(bl.Labels)
		if ok {
			for j, l := range bl.Labels {
				if labels[j] != l.Text {
					ok = false
				}
			}
		}
		if !ok {
			known := false
			for _, l := range bl.Labels {
				if labelHasEscape(l) {
					known = true
				}
			}
			if !(known && c.Known("labels-accessor-template-escape")) {
				want := make([]string, len(bl.Labels))
				for j, l := range bl.Labels {
					want[j] = l.Text
				}
				c.Failf("writer-labels", "%s: block %d Labels() = %q, source %q", path, i, labels, want)
			}
		}
		checkWriterTree(c, bl.Body, syn.Blocks[i].Body, gb.Body(), fmt.Sprintf("%s/%s[%d]", path, bl.Type, i))
	}
}

func hasTraversalFeature(kinds map[string]bool) bool {
	return kinds["Index"] || kinds["LegacyIndex"] || kinds["Splat"]
}

func TestC10_RoundTrip(t *testing.T) {
	hx.Run(t, "C10", "RoundTrip", 12000,
		"error-free configuration (body tree with full G-EXPR values, every traversal shape, comments) loaded with hclwrite.ParseConfig; oracle: no diagnostics/panic, Bytes() has the source's (type,bytes) token sequence and equals Format(source), tree exposes attributes/blocks/labels/variables of the source; non-trivial = an index/legacy-index/splat traversal and a comment; distinct by source text",
		caseC10RoundTrip)
}

// drawTraversalShapesSource writes references by hand in spellings the tree renderer does
// not use: index keys as heredocs, keys and steps spread over lines with comments, legacy
// indexes next to brackets, splats in the middle.
func drawTraversalShapesSource(t *rapid.T) string {
	roots := []string{"b", "var", "local.x", "data.a.b"}
	steps := []string{".id", ".names", "[0]", "[ 1 ]", "[\"k\"]", "[ \"a b\" ]", "[<<EOT\nx\nEOT\n]", "[<<-KEY\n    k\n    KEY\n]", "[\n  0\n]", "[ /* c */ \"k\" ]", "[ # c\n \"k\"\n]",
		".0", ".*", "[*]", "[true]", "[null]", "[other]", "[other.key]", "[\"${other}\"]", "[1 + idx]", ".*.id", "[*].id"}
	var sb strings.Builder
	n := rapid.IntRange(1, 3).Draw(t, "nattrs")
	for i := 0; i < n; i++ {
		ref := func() string {
			r := rapid.SampledFrom(roots).Draw(t, "root")
			legacy := false
			for k := rapid.IntRange(1, 4).Draw(t, "nsteps"); k > 0; k-- {
				st := rapid.SampledFrom(steps).Draw(t, "step")
				if st == ".0" {
					if legacy {
						continue
					}
					legacy = true
				} else {
					legacy = false
				}
				r += st
			}
			return r
		}
		expr := ref()
		switch rapid.IntRange(0, 4).Draw(t, "wrap") {
		case 0:
			expr = "[" + expr + ", " + ref() + "]"
		case 1:
			expr = "f(" + expr + ")"
		case 2:
			expr = expr + " + " + ref()
		case 3:
			expr = "\"pre ${" + expr + "} post\""
		}
		fmt.Fprintf(&sb, "%s = %s%s\n", string(rune('a'+i)), expr, rapid.SampledFrom([]string{"", " # trailing", " // c"}).Draw(t, "trail"))
	}
	if rapid.Bool().Draw(t, "in_block") {
		return "blk {\n" + sb.String() + "}\n"
	}
	return sb.String()
}

func caseC10RoundTrip(c *hx.Case) {
	t := c.T
	if rapid.IntRange(0, 7).Draw(t, "traversal_shapes") == 0 {
		src := drawTraversalShapesSource(t)
		c.Set("source", src)
		if _, diags := hclsyntax.ParseConfig([]byte(src), "t.hcl", hcl.InitialPos); diags.HasErrors() {
			// (the hand-written family may compose an invalid spelling: not the subject)
			c.Class("family_traversal_shapes_invalid")
			c.Done(false, "")
			return
		}
		c.Class("family_traversal_shapes")
		checkWriterRoundTripRaw(c, []byte(src))
		c.Done(true, src)
		return
	}
	sc := gen.DrawScope(t, gen.ScopeOpts{Nulls: 12})
	tree := drawConfig(t, sc, 2, gen.ExprOpts{IllTyped: 10, HostileLits: true, Budget: 14, MaxDepth: 3})
	bo := drawBodyOpts(t)
	src, r := render.File(tree, rchooser{t}, bo)
	c.Set("source", src)
	kinds := map[string]bool{}
	exprFeatures(tree, kinds)
	featClasses(c, "node_", kinds)
	featClasses(c, "layout_", r.Feat)
	syn, diags := hclsyntax.ParseConfig([]byte(src), "t.hcl", hcl.InitialPos)
	if diags.HasErrors() {
		c.Failf("generator-parse-error", "generated configuration does not parse: %s", diagStr(diags))
	}
	var f *hclwrite.File
	c.Guard("hclwrite.ParseConfig", func() { f, diags = hclwrite.ParseConfig([]byte(src), "t.hcl", hcl.InitialPos) })
	if diags.HasErrors() || f == nil {
		c.Failf("writer-parse-error", "hclwrite.ParseConfig reports: %s", diagStr(diags))
	}
	var out []byte
	c.Guard("File.Bytes", func() { out = f.Bytes() })
	c.Set("bytes", string(out))
	inToks, _ := lexConfigToks([]byte(src))
	outToks, _ := lexConfigToks(out)
	if i := firstTokDiff(inToks, outToks); i >= 0 {
		c.Failf("token-sequence", "token %d differs: source %s, Bytes() %s", i, tokAt(inToks, i), tokAt(outToks, i))
	}
	var formatted []byte
	c.Guard("Format", func() { formatted = hclwrite.Format([]byte(src)) })
	if !bytes.Equal(formatted, out) {
		c.Set("formatted", string(formatted))
		c.Failf("bytes-vs-format", "File.Bytes() differs from Format(source)")
	}
	c.Guard("writer tree accessors", func() {
		checkWriterTree(c, tree, syn.Body.(*hclsyntax.Body), f.Body(), "")
	})
	hasComment := r.Feat["inline_comment"] || r.Feat["line_comment"] || r.Feat["comment_line"] || r.Feat["trailing_comment"] || r.Feat["block_comment_line"] || r.Feat["comment_after_brace"]
	c.Done(hasTraversalFeature(kinds) && hasComment, src)
}

func FuzzC10_RoundTrip(f *testing.F) { hx.Fuzz(f, "C10", "RoundTrip", caseC10RoundTrip) }

var _ = gen.IsIdent
