package props

import (
	"bytes"
	"testing"

	"github.com/hashicorp/hcl/v2"
	"github.com/hashicorp/hcl/v2/ext/dynblock"
	"github.com/hashicorp/hcl/v2/hcldec"
	"github.com/hashicorp/hcl/v2/hclsyntax"
	"github.com/zclconf/go-cty/cty"
	"pgregory.net/rapid"

	"verifharness/ast"
	"verifharness/gen"
	"verifharness/hx"
	"verifharness/render"
)

// forOverSecret reports whether the tree contains a for expression / for directive (or,
// with dyn, a dynamic block) iterating over something that mentions a variable holding
// marked content: the place of the known finding for-binds-unmarked-elements-of-marked-collection.
func forOverSecret(b *ast.Body, sc *gen.Scope, dyn bool, ctx *hcl.EvalContext) bool {
	// only a container marked as a whole loses the marks of its elements when iterated;
	// individually marked elements keep theirs
	secret := func(n ast.Node) bool {
		for name := range ast.FreeVars(n) {
			if v, ok := sc.Vals[name]; ok && hasMarkedContainer(v) {
				return true
			}
		}
		return false
	}
	found := false
	var exprs func(n ast.Node)
	exprs = func(n ast.Node) {
		ast.Walk(n, func(x ast.Node) {
			switch y := x.(type) {
			case ast.For:
				if secret(y.Coll) {
					found = true
				}
			case ast.Splat:
				if secret(y.Src) {
					found = true
				}
			case ast.Template:
				if tforOverSecret(y.Parts, secret) {
					found = true
				}
			}
		})
	}
	depth := 0
	var walk func(b *ast.Body)
	walk = func(b *ast.Body) {
		for _, it := range b.Items {
			switch x := it.(type) {
			case ast.Attr:
				exprs(x.Expr)
			case ast.Block:
				walk(x.Body)
			case ast.Dyn:
				exprs(x.ForEach)
				if dyn && dynForEachMarkedAsWhole(x.ForEach, sc, ctx, depth) {
					found = true
				}
				for _, l := range x.Labels {
					exprs(l)
				}
				depth++
				walk(x.Content)
				depth--
			}
		}
	}
	walk(b)
	return found
}

// dynForEachMarkedAsWhole decides whether a dynamic block's for_each value carries a mark
// itself (then its elements are bound unmarked: the known finding). Outside any other
// dynamic block the expression is evaluated; inside one its iterators are not available,
// and any mention of marked content counts.
func dynForEachMarkedAsWhole(fe ast.Node, sc *gen.Scope, ctx *hcl.EvalContext, depth int) bool {
	mentions := false
	for name := range ast.FreeVars(fe) {
		if v, ok := sc.Vals[name]; ok && v.ContainsMarked() {
			mentions = true
		}
	}
	if !mentions {
		// (an iterator of an enclosing dynamic block may still carry marked content)
		return depth > 0
	}
	if depth > 0 {
		return true
	}
	src, _ := render.Expression(fe, render.Fixed{}, render.Opts{})
	expr, diags := parseExprSrc(src)
	if diags.HasErrors() {
		return true
	}
	marked := true
	func() {
		defer func() { _ = recover() }()
		v, _ := expr.Value(ctx)
		marked = v.IsMarked()
	}()
	return marked
}

// hasMarkedContainer reports whether v is, or contains, an iterable value that carries a mark itself.
func hasMarkedContainer(v cty.Value) bool {
	found := false
	_ = cty.Walk(v, func(p cty.Path, pv cty.Value) (bool, error) {
		if pv.IsMarked() {
			u, _ := pv.Unmark()
			if u.IsKnown() && !u.IsNull() && u.CanIterateElements() {
				found = true
			}
		}
		return true, nil
	})
	return found
}

func tforOverSecret(parts []ast.TPart, secret func(ast.Node) bool) bool {
	for _, p := range parts {
		switch x := p.(type) {
		case ast.TFor:
			if secret(x.Coll) || tforOverSecret(x.Body, secret) {
				return true
			}
		case ast.TIf:
			if tforOverSecret(x.Then, secret) || tforOverSecret(x.Else, secret) {
				return true
			}
		}
	}
	return false
}

// sweepDiags looks for canary content in diagnostics and in their text renderings.
func sweepDiags(c *hx.Case, diags hcl.Diagnostics, files map[string]*hcl.File, excluded func() bool) bool {
	for _, d := range diags {
		c.Class("summary:" + d.Summary)
		if f := leaks(d.Summary); f != "" {
			if excluded() {
				return false
			}
			c.Failf("leak-in-summary", "diagnostic summary reveals marked content (%q): %s", f, d.Summary)
		}
		if f := leaks(d.Detail); f != "" {
			if excluded() {
				return false
			}
			c.Failf("leak-in-detail", "diagnostic %q detail reveals marked content (%q): %s", d.Summary, f, d.Detail)
		}
	}
	for _, w := range []uint{0, 78} {
		for _, color := range []bool{false, true} {
			var buf bytes.Buffer
			c.Guard("DiagnosticTextWriter", func() {
				wr := hcl.NewDiagnosticTextWriter(&buf, files, w, color)
				_ = wr.WriteDiagnostics(diags)
			})
			if f := leaks(buf.String()); f != "" {
				if excluded() {
					return false
				}
				c.Failf("leak-in-text-writer", "text diagnostic writer (width %d, colour %v) reveals marked content (%q):\n%s", w, color, f, buf.String())
			}
		}
	}
	return true
}

func TestC19_Bodies(t *testing.T) {
	hx.Run(t, "C19", "Bodies", 8000,
		"spec tree + body with attribute expressions (1-in-8 ill-typed, label/count/type perturbations) and `dynamic` blocks over a scope in which canary strings/numbers occur only inside values marked SECRET (whole value / every leaf / every element); for_each, labels and content read the secrets through iterators; Decode(Expand(body, ctx), spec, ctx); oracle (canary sweep): no diagnostic summary/detail and no text-writer rendering (widths 0/78, colour on/off, with source snippets and variable summaries) contains a canary form; non-trivial = an error diagnostic was produced and the body reads a secret variable; distinct by (spec dump, body dump)",
		func(c *hx.Case) {
			t := c.T
			sc := drawSecretScope(t)
			ms := gen.DrawSpec(t, gen.SpecOpts{Depth: 2, AttrNames: specAttrPool, BlockTypes: specBlockPool, BlockBias: 30})
			c.Set("spec", ms.Dump())
			g := &dynGen{t: t, sc: sc, feat: map[string]bool{}, dynRate: 2, avoid: []string{gen.CanaryCoreA, gen.CanaryCoreB, gen.CanaryNum}}
			for _, name := range sc.Names {
				// collections whose elements (not the collection) carry the mark
				v := sc.Vals[name]
				if u, _ := v.Unmark(); !v.IsMarked() && v.ContainsMarked() && u.IsKnown() && !u.IsNull() && u.CanIterateElements() && plainIdent.MatchString(name) && !reservedName[name] {
					g.preferForEach = append(g.preferForEach, name)
				}
			}
			// marked strings that can serve as computed object keys
			var secretStrings []string
			for _, name := range sc.Names {
				v := sc.Vals[name]
				if u, _ := v.Unmark(); v.IsMarked() && u.Type() == cty.String && u.IsKnown() && !u.IsNull() {
					secretStrings = append(secretStrings, name)
				}
			}
			attrExpr := func(ty cty.Type) ast.Node {
				if len(secretStrings) == 0 || rapid.IntRange(0, 4).Draw(t, "secret_keyed") != 0 {
					return g.expr(ty)
				}
				// a container in which a secret is a computed key, at some depth, next to values of
				// assorted types: conversions to the attribute's type then fail at or below that key
				c.Class("secret_keyed_container")
				lit := func() ast.Node {
					return literalOfType(t, rapid.SampledFrom([]cty.Type{cty.Number, cty.Bool, cty.String, cty.List(cty.String)}).Draw(t, "valty"))
				}
				var n ast.Node = ast.Object{Items: []ast.ObjItem{
					{Kind: ast.KeyParens, Key: ast.Var{Name: rapid.SampledFrom(secretStrings).Draw(t, "keyvar")}, Val: lit()},
					{Kind: ast.KeyIdent, Name: "other", Val: lit()},
				}}
				for d := rapid.IntRange(0, 2).Draw(t, "keyed_depth"); d > 0; d-- {
					if rapid.Bool().Draw(t, "in_tuple") {
						n = ast.Tuple{Elems: []ast.Node{n, lit()}}
					} else {
						n = ast.Object{Items: []ast.ObjItem{{Kind: ast.KeyIdent, Name: "inner", Val: n}, {Kind: ast.KeyIdent, Name: "z", Val: lit()}}}
					}
				}
				return n
			}
			tree := gen.BodyFromSpec(t, ms, gen.BodyFromSpecOpts{Perturb: 30, Labels: []string{"a", "b", "x y", "l"}, Expr: attrExpr, Dyn: g.dyn})
			dump := ast.DumpBody(tree)
			c.Set("body", dump)
			c.Set("scope", scopeDump(sc))
			featClasses(c, "dyn_", g.feat)
			src, _ := render.File(ast.DynSyntax(tree), rchooser{t}, drawBodyOpts(t))
			if f := leaks(src); f != "" {
				c.Class("skipped_source_would_contain_canary")
				c.Done(false, "")
				return
			}
			c.Set("source", src)
			f, diags := hclsyntax.ParseConfig([]byte(src), "t.hcl", hcl.InitialPos)
			if diags.HasErrors() {
				c.Failf("parse-error", "%s", diagStr(diags))
			}
			spec := toHCLDec(ms)
			ctx := evalCtx(sc)
			var ddiags hcl.Diagnostics
			c.Guard("Decode(Expand)", func() { _, ddiags = hcldec.Decode(dynblock.Expand(f.Body, ctx), spec, ctx) })
			knownFor := forOverSecret(tree, sc, false, ctx)
			knownDyn := forOverSecret(tree, sc, true, ctx)
			excluded := func() bool {
				if knownFor && c.Known("for-binds-unmarked-elements-of-marked-collection") {
					c.Class("excluded_known_for_over_marked")
					c.Done(false, "")
					return true
				}
				if knownDyn && c.Known("dynblock-binds-unmarked-elements-of-marked-for-each") {
					c.Class("excluded_known_dynamic_over_marked")
					c.Done(false, "")
					return true
				}
				return false
			}
			files := map[string]*hcl.File{"t.hcl": {Bytes: []byte(src)}}
			if !sweepDiags(c, ddiags, files, excluded) {
				return
			}
			usesSecret := false
			for name := range ast.FreeVarsBody(tree) {
				if v, ok := sc.Vals[name]; ok && v.ContainsMarked() {
					usesSecret = true
				}
			}
			if ddiags.HasErrors() {
				c.Class("error_diag")
			}
			c.Done(ddiags.HasErrors() && usesSecret, ms.Dump()+"|"+dump)
		})
}

var _ = cty.String
var _ = rapid.Bool
