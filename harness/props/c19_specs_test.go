package props

import (
	"fmt"
	"testing"

	"github.com/hashicorp/hcl/v2"
	"github.com/hashicorp/hcl/v2/hcldec"
	"github.com/hashicorp/hcl/v2/hclsyntax"
	hcljson "github.com/hashicorp/hcl/v2/json"
	"github.com/zclconf/go-cty/cty"
	"github.com/zclconf/go-cty/cty/function"
	"pgregory.net/rapid"

	"verifharness/gen"
	"verifharness/hx"
)

// TestC19_Specs: the decoder specifications that evaluate something of their own with the
// decoded (marked) value in scope - TransformExprSpec's expression, TransformFuncSpec's
// and ValidateSpec's functions, RefineValueSpec, conversion to the attribute's type - and
// whose failures are reported as diagnostics.
func TestC19_Specs(t *testing.T) {
	hx.Run(t, "C19", "Specs", 8000,
		"directed family: attribute `a` (optionally inside a block) set to the secret variable, to a constructor around it or to an expression deriving from it, where the secret is a canary string / number / list / map with canary keys / object marked as a whole or at its leaves; decoded through TransformExprSpec (the value bound to a variable of an expression that fails or echoes: missing attribute, index, wrong-type operator, duplicate key in a for object, function rejecting its argument), TransformFuncSpec and ValidateSpec (functions returning errors / diagnostics that do not quote the value), an attribute type the value cannot convert to, a DefaultSpec around these; oracle (canary sweep): no Summary / Detail and no rendering by the text diagnostic writer (widths 0/78, colour on/off, with the source files) contains a canary; non-trivial = an error diagnostic was produced while a marked value was in the transform's scope; distinct by (source, spec form, secret)",
		func(c *hx.Case) {
			t := c.T
			secret := gen.DrawSecretValue(t)
			placement := gen.MarkPlacement(rapid.IntRange(0, 2).Draw(t, "placement"))
			if secret.Type().IsMapType() || (secret.Type().IsObjectType() && len(secret.Type().AttributeTypes()) == 1) {
				placement = gen.MarkTop
			}
			marked := gen.ApplyMark(secret, secretMark, placement)
			valueSrc := rapid.SampledFrom([]string{"s", "s", "[s]", "{k = s}", "c1 ? s : s"}).Draw(t, "value")
			if secret.Type() == cty.String {
				valueSrc = rapid.SampledFrom([]string{"s", "s", "\"${s}\"", "[s, s]", "{k = s}", "upper(s)"}).Draw(t, "value_str")
			}
			inBlock := rapid.Bool().Draw(t, "in_block")
			src := "a = " + valueSrc + "\n"
			if inBlock {
				src = "blk {\n  a = " + valueSrc + "\n}\n"
			}
			c.Set("source", src)
			c.Set("secret", fmt.Sprintf("%#v", marked))
			f, diags := hclsyntax.ParseConfig([]byte(src), "t.hcl", hcl.InitialPos)
			if diags.HasErrors() {
				c.Failf("harness-generator", "%s", diagStr(diags))
			}
			files := map[string]*hcl.File{"t.hcl": f}
			attr := &hcldec.AttrSpec{Name: "a", Type: cty.DynamicPseudoType}
			form := rapid.SampledFrom([]string{"transform_expr", "transform_expr", "transform_func", "validate", "convert", "default"}).Draw(t, "form")
			c.Class("form_" + form)
			failing := function.New(&function.Spec{
				Params: []function.Parameter{{Name: "v", Type: cty.DynamicPseudoType, AllowNull: true, AllowUnknown: true, AllowDynamicType: true, AllowMarked: true}},
				Type:   function.StaticReturnType(cty.String),
				Impl: func(args []cty.Value, rt cty.Type) (cty.Value, error) {
					return cty.NilVal, fmt.Errorf("the harness function rejects every value")
				},
			})
			var spec hcldec.Spec
			switch form {
			case "transform_expr", "default":
				exprSrc := rapid.SampledFrom([]string{"v.missing", "v[0]", "v[\"nokey\"]", "v + 1", "!v", "-v", "{for x in [v, v] : x => 1}", "{for x in [v, v] : \"${x}\" => 1}",
					"reject(v)", "upper(v)", "\"${v}\"", "v ? 1 : 2", "[for x in v : x.missing]", "{(v) = 1, (v) = 2}", "v.name.missing", "v[*].missing", "nosuch(v)", "v == other"}).Draw(t, "transform")
				c.Set("transform", exprSrc)
				te, d := hclsyntax.ParseExpression([]byte(exprSrc), "transform.hcl", hcl.InitialPos)
				if d.HasErrors() {
					c.Failf("harness-generator", "%s", diagStr(d))
				}
				files["transform.hcl"] = &hcl.File{Bytes: []byte(exprSrc)}
				fns := map[string]function.Function{"reject": failing}
				for n, fn := range ctyFuncs {
					fns[n] = fn
				}
				spec = &hcldec.TransformExprSpec{Wrapped: attr, Expr: te, VarName: "v", TransformCtx: &hcl.EvalContext{Functions: fns}}
				if form == "default" {
					spec = &hcldec.DefaultSpec{Primary: spec, Default: &hcldec.LiteralSpec{Value: cty.StringVal("d")}}
				}
			case "transform_func":
				spec = &hcldec.TransformFuncSpec{Wrapped: attr, Func: failing}
			case "validate":
				spec = &hcldec.ValidateSpec{Wrapped: attr, Func: func(v cty.Value) hcl.Diagnostics {
					return hcl.Diagnostics{{Severity: hcl.DiagError, Summary: "Rejected by validation", Detail: "The harness validation function rejects every value."}}
				}}
			default:
				ty := rapid.SampledFrom([]cty.Type{cty.Number, cty.Bool, cty.List(cty.Number), cty.Map(cty.Bool), cty.Object(map[string]cty.Type{"zz": cty.Number}), cty.Set(cty.Number)}).Draw(t, "attr_type")
				spec = &hcldec.AttrSpec{Name: "a", Type: ty}
			}
			if inBlock {
				spec = &hcldec.BlockSpec{TypeName: "blk", Nested: spec}
			}
			ctx := &hcl.EvalContext{Functions: ctyFuncs, Variables: map[string]cty.Value{"s": marked, "c1": cty.True}}
			var d hcl.Diagnostics
			c.Guard("Decode", func() { _, d = hcldec.Decode(f.Body, spec, ctx) })
			ok := sweepDiags(c, d, files, func() bool { return false })
			_ = ok
			c.Done(d.HasErrors(), src+"|"+form+"|"+marked.GoString())
		})
}

// TestC19_JSONNames: in the JSON syntax property names are templates too; a name computed
// from a marked value that collides with another name, or that is not a valid name, is
// reported without quoting it.
func TestC19_JSONNames(t *testing.T) {
	hx.Run(t, "C19", "JSONNames", 6000,
		"directed family: JSON object expressions (top level, nested in arrays / objects, as attribute values of a JSON body) with 2..4 members whose names are templates over the secret string `s`, the secret number `n` (marked as a whole) and literals, duplicates forced in most cases (same template twice, two templates with the same result, a literal equal to... never the secret), values literals or references to the secrets; evaluated with the secrets in scope, with a null / unknown secret, and with a nil context; oracle (canary sweep): no Summary / Detail and no rendering by the text diagnostic writer contains a canary; non-trivial = an error diagnostic (duplicate attribute, null name) was produced; distinct by (text, scope variant)",
		func(c *hx.Case) {
			t := c.T
			names := []string{"${s}", "x${s}", "${s}${s}", "${n}", "v${n}", "k", "${upper(s)}", "%{ if true }${s}%{ endif }", "${s2}"}
			drawObj := func(depth int) string { return "" }
			var obj func(depth int) string
			obj = func(depth int) string {
				k := rapid.IntRange(2, 4).Draw(t, "nmembers")
				var members []string
				var used []string
				for i := 0; i < k; i++ {
					name := rapid.SampledFrom(names).Draw(t, "name")
					if i > 0 && rapid.IntRange(0, 2).Draw(t, "duplicate") > 0 {
						name = used[rapid.IntRange(0, len(used)-1).Draw(t, "dup_of")]
					}
					used = append(used, name)
					var val string
					switch rapid.IntRange(0, 4).Draw(t, "val") {
					case 0:
						val = `1`
					case 1:
						val = `"${s}"`
					case 2:
						val = `[true, "${n}"]`
					case 3:
						if depth > 0 {
							val = obj(depth - 1)
						} else {
							val = `null`
						}
					default:
						val = `"lit"`
					}
					members = append(members, fmt.Sprintf("%q: %s", name, val))
				}
				return "{" + joinComma(members) + "}"
			}
			_ = drawObj
			doc := obj(2)
			switch rapid.IntRange(0, 2).Draw(t, "embed") {
			case 1:
				doc = "[" + doc + ", 1]"
			case 2:
				doc = `{"outer": ` + doc + `}`
			}
			c.Set("json", doc)
			strs := gen.CanaryStrings
			s := cty.StringVal(rapid.SampledFrom(strs).Draw(t, "s")).Mark(secretMark)
			vars := map[string]cty.Value{"s": s, "s2": s, "n": cty.MustParseNumberVal(rapid.SampledFrom(gen.CanaryNumbers).Draw(t, "n")).Mark(secretMark)}
			switch rapid.IntRange(0, 4).Draw(t, "variant") {
			case 0:
				vars["s2"] = cty.NullVal(cty.String).Mark(secretMark)
			case 1:
				vars["s2"] = cty.UnknownVal(cty.String).Mark(secretMark)
			}
			ctx := &hcl.EvalContext{Functions: ctyFuncs, Variables: vars}
			files := map[string]*hcl.File{}
			sawError := false
			expr, diags := hcljson.ParseExpression([]byte(doc), "t.json")
			if diags.HasErrors() {
				c.Failf("harness-generator", "%s", diagStr(diags))
			}
			files["t.json"] = &hcl.File{Bytes: []byte(doc)}
			for _, cx := range []*hcl.EvalContext{ctx, nil} {
				var d hcl.Diagnostics
				c.Guard("json Value", func() { _, d = expr.Value(cx) })
				sawError = sawError || d.HasErrors()
				sweepDiags(c, d, files, func() bool { return false })
			}
			if doc[0] == '{' {
				f, fd := hcljson.Parse([]byte(doc), "t.json")
				if !fd.HasErrors() {
					var attrs hcl.Attributes
					var ad hcl.Diagnostics
					c.Guard("JustAttributes", func() { attrs, ad = f.Body.JustAttributes() })
					sweepDiags(c, ad, files, func() bool { return false })
					for _, a := range attrs {
						var d hcl.Diagnostics
						c.Guard("attribute Value", func() { _, d = a.Expr.Value(ctx) })
						sawError = sawError || d.HasErrors()
						sweepDiags(c, d, files, func() bool { return false })
					}
				}
			}
			c.Done(sawError, doc)
		})
}

func joinComma(xs []string) string {
	out := ""
	for i, x := range xs {
		if i > 0 {
			out += ", "
		}
		out += x
	}
	return out
}
