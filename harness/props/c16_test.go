package props

import (
	"fmt"
	"math"
	"math/big"
	"reflect"
	"sort"
	"strconv"
	"strings"
	"testing"

	"github.com/hashicorp/hcl/v2"
	"github.com/hashicorp/hcl/v2/gohcl"
	"github.com/hashicorp/hcl/v2/hclsimple"
	"github.com/hashicorp/hcl/v2/hclwrite"
	"github.com/zclconf/go-cty/cty"
	"pgregory.net/rapid"

	"verifharness/gen"
	"verifharness/hx"
	"verifharness/render"
)

// ---- the struct family ------------------------------------------------------

type gObj struct {
	X string `cty:"x"`
	N int    `cty:"n"`
}

type gLeaf struct {
	Name string  `hcl:"name,label"`
	Val  int     `hcl:"val"`
	Note *string `hcl:"note,optional"`
}

type gPlain struct {
	On   bool     `hcl:"on"`
	Tags []string `hcl:"tags,optional"`
}

type gTwo struct {
	A    string            `hcl:"a,label"`
	B    string            `hcl:"b,label"`
	On   bool              `hcl:"on,optional"`
	M    map[string]string `hcl:"m,optional"`
	Deep []gLeaf           `hcl:"deep,block"`
}

type gRoot struct {
	Str     string            `hcl:"str"`
	Num     int               `hcl:"num"`
	I64     int64             `hcl:"i64"`
	F       float64           `hcl:"f"`
	B       bool              `hcl:"b"`
	List    []string          `hcl:"list"`
	M       map[string]string `hcl:"m"`
	MI      map[string]int    `hcl:"mi"`
	Obj     gObj              `hcl:"obj"`
	OptStr  string            `hcl:"opt_str,optional"`
	OptPtr  *int              `hcl:"opt_ptr,optional"`
	Single  gPlain            `hcl:"single,block"`
	Maybe   *gPlain           `hcl:"maybe,block"`
	Many    []gLeaf           `hcl:"many,block"`
	ManyPtr []*gTwo           `hcl:"manyptr,block"`
}

func c16String(t *rapid.T) string {
	return cty.StringVal(gen.HostileString().Draw(t, "str")).AsString()
}

func c16Key(t *rapid.T) string {
	return cty.StringVal(rapid.SampledFrom(gen.KeyPool).Draw(t, "key")).AsString()
}

func drawStringMap(t *rapid.T) map[string]string {
	n := rapid.IntRange(0, 3).Draw(t, "nmap")
	m := map[string]string{}
	for i := 0; i < n; i++ {
		m[c16Key(t)] = c16String(t)
	}
	return m
}

func drawLeaf(t *rapid.T) gLeaf {
	l := gLeaf{Name: c16String(t), Val: rapid.IntRange(-1000, 1000).Draw(t, "val")}
	if rapid.Bool().Draw(t, "hasnote") {
		s := c16String(t)
		l.Note = &s
	}
	return l
}

func drawPlain(t *rapid.T) gPlain {
	p := gPlain{On: rapid.Bool().Draw(t, "on")}
	n := rapid.IntRange(0, 2).Draw(t, "ntags")
	for i := 0; i < n; i++ {
		p.Tags = append(p.Tags, c16String(t))
	}
	return p
}

func drawRoot(t *rapid.T) gRoot {
	r := gRoot{
		Str: c16String(t),
		Num: rapid.IntRange(-1<<31, 1<<31-1).Draw(t, "num"),
		I64: rapid.Int64().Draw(t, "i64"),
		B:   rapid.Bool().Draw(t, "b"),
		M:   drawStringMap(t),
		MI:  map[string]int{},
		Obj: gObj{X: c16String(t), N: rapid.IntRange(-5, 5).Draw(t, "objn")},
	}
	for {
		f := rapid.Float64().Draw(t, "f")
		if !math.IsInf(f, 0) && !math.IsNaN(f) {
			// trusted-base anomaly: for a few float64 values math/big's shortest decimal
			// (big.Float.Text('f', -1), which the generator side uses) does not identify the
			// value; those are outside what hcl can be held to and are redrawn
			if g, err := strconv.ParseFloat(big.NewFloat(f).Text('f', -1), 64); err != nil || g != f {
				continue
			}
			r.F = f
			break
		}
	}
	nl := rapid.IntRange(0, 3).Draw(t, "nlist")
	r.List = []string{}
	for i := 0; i < nl; i++ {
		r.List = append(r.List, c16String(t))
	}
	nmi := rapid.IntRange(0, 3).Draw(t, "nmi")
	for i := 0; i < nmi; i++ {
		r.MI[c16Key(t)] = rapid.IntRange(-9, 9).Draw(t, "mi")
	}
	// required collections may be nil: the encoder writes them as null and the decoder
	// reads null back as nil
	if rapid.IntRange(0, 5).Draw(t, "nil_list") == 0 {
		r.List = nil
	}
	if rapid.IntRange(0, 5).Draw(t, "nil_m") == 0 {
		r.M = nil
	}
	if rapid.IntRange(0, 5).Draw(t, "nil_mi") == 0 {
		r.MI = nil
	}
	if rapid.Bool().Draw(t, "optstr") {
		r.OptStr = c16String(t)
	}
	if rapid.Bool().Draw(t, "optptr") {
		v := rapid.IntRange(-9, 9).Draw(t, "optptrv")
		r.OptPtr = &v
	}
	r.Single = drawPlain(t)
	if rapid.Bool().Draw(t, "maybe") {
		p := drawPlain(t)
		r.Maybe = &p
	}
	nm := rapid.IntRange(0, 3).Draw(t, "nmany")
	for i := 0; i < nm; i++ {
		r.Many = append(r.Many, drawLeaf(t))
	}
	np := rapid.IntRange(0, 2).Draw(t, "nmanyptr")
	for i := 0; i < np; i++ {
		tw := &gTwo{A: c16String(t), B: c16String(t), On: rapid.Bool().Draw(t, "on")}
		if rapid.Bool().Draw(t, "twomap") {
			tw.M = drawStringMap(t)
		}
		nd := rapid.IntRange(0, 2).Draw(t, "ndeep")
		for j := 0; j < nd; j++ {
			tw.Deep = append(tw.Deep, drawLeaf(t))
		}
		r.ManyPtr = append(r.ManyPtr, tw)
	}
	return r
}

// normalise applies the one documented normalisation: nil and empty slices of
// blocks / optional lists are both "nothing written".
func normRoot(r gRoot) gRoot {
	if len(r.Many) == 0 {
		r.Many = nil
	}
	if len(r.ManyPtr) == 0 {
		r.ManyPtr = nil
	}
	for _, tw := range r.ManyPtr {
		if len(tw.Deep) == 0 {
			tw.Deep = nil
		}
		if len(tw.M) == 0 {
			tw.M = nil
		}
	}
	if len(r.Single.Tags) == 0 {
		r.Single.Tags = nil
	}
	if r.Maybe != nil && len(r.Maybe.Tags) == 0 {
		r.Maybe.Tags = nil
	}
	return r
}

func rootDump(r gRoot) string {
	var sb strings.Builder
	fmt.Fprintf(&sb, "%+v", r)
	if r.OptPtr != nil {
		fmt.Fprintf(&sb, " optptr=%d", *r.OptPtr)
	}
	if r.Maybe != nil {
		fmt.Fprintf(&sb, " maybe=%+v", *r.Maybe)
	}
	for _, l := range r.Many {
		if l.Note != nil {
			fmt.Fprintf(&sb, " note=%q", *l.Note)
		}
	}
	for _, tw := range r.ManyPtr {
		fmt.Fprintf(&sb, " two=%+v", *tw)
		for _, l := range tw.Deep {
			if l.Note != nil {
				fmt.Fprintf(&sb, " note=%q", *l.Note)
			}
		}
	}
	return sb.String()
}

// ---- JSON rendering of the same value ------------------------------------------

func jstr(t *rapid.T, s string) string {
	// decoded with a nil context = literal-only mode: strings are taken verbatim
	return gen.EncodeJSONString(s, rchooser{t}, true, map[string]bool{})
}

func jkey(t *rapid.T, s string) string {
	return gen.EncodeJSONString(s, rchooser{t}, true, map[string]bool{})
}

func sortedKeys2[V any](m map[string]V) []string {
	var ks []string
	for k := range m {
		ks = append(ks, k)
	}
	sort.Strings(ks)
	return ks
}

func jsonStringMap(t *rapid.T, m map[string]string) string {
	var parts []string
	for _, k := range sortedKeys2(m) {
		// object keys are templates in full-expression mode as well
		parts = append(parts, jstr(t, k)+":"+jstr(t, m[k]))
	}
	return "{" + strings.Join(parts, ",") + "}"
}

func jsonList(t *rapid.T, l []string) string {
	var parts []string
	for _, s := range l {
		parts = append(parts, jstr(t, s))
	}
	return "[" + strings.Join(parts, ",") + "]"
}

func jsonLeafBody(t *rapid.T, l gLeaf) string {
	parts := []string{fmt.Sprintf(`"val":%d`, l.Val)}
	if l.Note != nil {
		parts = append(parts, `"note":`+jstr(t, *l.Note))
	}
	return "{" + strings.Join(parts, ",") + "}"
}

func jsonPlainBody(t *rapid.T, p gPlain) string {
	parts := []string{fmt.Sprintf(`"on":%v`, p.On)}
	if p.Tags != nil {
		parts = append(parts, `"tags":`+jsonList(t, p.Tags))
	}
	return "{" + strings.Join(parts, ",") + "}"
}

// jsonLeaves renders labelled blocks as an array of single-property label objects (keeps order and duplicates).
func jsonLeaves(t *rapid.T, ls []gLeaf) string {
	var parts []string
	for _, l := range ls {
		parts = append(parts, "{"+jkey(t, l.Name)+":"+jsonLeafBody(t, l)+"}")
	}
	return "[" + strings.Join(parts, ",") + "]"
}

func jsonRoot(t *rapid.T, r gRoot) string {
	var parts []string
	add := func(k, v string) { parts = append(parts, fmt.Sprintf("%q:%s", k, v)) }
	add("str", jstr(t, r.Str))
	add("num", fmt.Sprintf("%d", r.Num))
	add("i64", fmt.Sprintf("%d", r.I64))
	add("f", cty.NumberFloatVal(r.F).AsBigFloat().Text('f', -1))
	add("b", fmt.Sprintf("%v", r.B))
	if r.List == nil {
		add("list", "null")
	} else {
		add("list", jsonList(t, r.List))
	}
	if r.M == nil {
		add("m", "null")
	} else {
		add("m", jsonStringMap(t, r.M))
	}
	var mi []string
	for _, k := range sortedKeys2(r.MI) {
		mi = append(mi, jstr(t, k)+fmt.Sprintf(":%d", r.MI[k]))
	}
	if r.MI == nil {
		add("mi", "null")
	} else {
		add("mi", "{"+strings.Join(mi, ",")+"}")
	}
	add("obj", fmt.Sprintf(`{"x":%s,"n":%d}`, jstr(t, r.Obj.X), r.Obj.N))
	if r.OptStr != "" {
		add("opt_str", jstr(t, r.OptStr))
	}
	if r.OptPtr != nil {
		add("opt_ptr", fmt.Sprintf("%d", *r.OptPtr))
	}
	add("single", jsonPlainBody(t, r.Single))
	if r.Maybe != nil {
		add("maybe", jsonPlainBody(t, *r.Maybe))
	}
	interleave := len(r.Many) > 0 && len(r.ManyPtr) > 0 && rapid.Bool().Draw(t, "interleave_block_types")
	if len(r.Many) > 0 && !interleave {
		add("many", jsonLeaves(t, r.Many))
	}
	if len(r.ManyPtr) > 0 {
		var tws []string
		for _, tw := range r.ManyPtr {
			body := []string{fmt.Sprintf(`"on":%v`, tw.On)}
			if tw.M != nil {
				body = append(body, `"m":`+jsonStringMap(t, tw.M))
			}
			if len(tw.Deep) > 0 {
				body = append(body, `"deep":`+jsonLeaves(t, tw.Deep))
			}
			tws = append(tws, "{"+jkey(t, tw.A)+":{"+jkey(t, tw.B)+":{"+strings.Join(body, ",")+"}}}")
		}
		if interleave {
			// the body as an array of objects, one block per object, the two block types
			// interleaved (each type keeps its own order): the same configuration
			var leaves []string
			for _, l := range r.Many {
				leaves = append(leaves, `{"many":{`+jkey(t, l.Name)+":"+jsonLeafBody(t, l)+"}}")
			}
			objs := []string{"{" + strings.Join(parts, ",") + "}"}
			i, j := 0, 0
			for i < len(leaves) || j < len(tws) {
				if j >= len(tws) || (i < len(leaves) && rapid.Bool().Draw(t, "next_is_leaf")) {
					objs = append(objs, leaves[i])
					i++
				} else {
					objs = append(objs, `{"manyptr":`+tws[j]+"}")
					j++
				}
			}
			return "[" + strings.Join(objs, ",") + "]"
		}
		add("manyptr", "["+strings.Join(tws, ",")+"]")
	}
	return "{" + strings.Join(parts, ",") + "}"
}

func rootFeatures(r gRoot) (labelled, escape, weirdKey bool) {
	isEsc := func(s string) bool { return strings.ContainsAny(s, "\"\\$%{}\n\r\t~") || hasNonPrintOrNonASCII(s) }
	labelled = len(r.Many) > 0 || len(r.ManyPtr) > 0
	for _, s := range append([]string{r.Str, r.OptStr, r.Obj.X}, r.List...) {
		if isEsc(s) {
			escape = true
		}
	}
	for _, l := range r.Many {
		if isEsc(l.Name) {
			escape = true
		}
	}
	for k := range r.M {
		if !gen.IsIdent(k) || k == "for" || k == "null" || k == "true" {
			weirdKey = true
		}
	}
	for k := range r.MI {
		if !gen.IsIdent(k) || k == "for" || k == "null" || k == "true" {
			weirdKey = true
		}
	}
	return
}

func TestC16_RoundTrip(t *testing.T) {
	hx.Run(t, "C16", "RoundTrip", 6000,
		"value of a family of tagged struct types (attr: string/int/int64/float64/bool/[]string/map[string]string/map[string]int/struct-as-object; optional incl. pointer; block: struct, *struct, []struct, []*struct nested two levels; one and two labels) with strings over the escape-relevant alphabet and map keys incl. keywords/non-identifiers/empty; oracle: EncodeIntoBody -> File.Bytes -> hclsimple.Decode(.hcl) reproduces the value (nil/empty block slices identified), EncodeAsBlock likewise, and the equivalent JSON document decodes to the same value; non-trivial = a labelled nested block and a string or key needing escaping; distinct by value dump",
		func(c *hx.Case) {
			t := c.T
			orig := drawRoot(t)
			dump := rootDump(orig)
			c.Set("value", dump)
			var src []byte
			c.Guard("EncodeIntoBody", func() {
				f := hclwrite.NewEmptyFile()
				gohcl.EncodeIntoBody(&orig, f.Body())
				src = f.Bytes()
			})
			c.Set("source", string(src))
			var back gRoot
			var err error
			c.Guard("hclsimple.Decode(hcl)", func() { err = hclsimple.Decode("x.hcl", src, nil, &back) })
			if err != nil {
				c.Failf("decode-error", "encoded source does not decode: %v", err)
			}
			want := normRoot(orig)
			if !reflect.DeepEqual(normRoot(back), want) {
				c.Failf("roundtrip-mismatch", "decoded value differs:\n got:  %s\n want: %s", rootDump(back), rootDump(want))
			}
			// EncodeAsBlock for a labelled struct
			if len(orig.ManyPtr) > 0 {
				tw := orig.ManyPtr[0]
				var bsrc []byte
				c.Guard("EncodeAsBlock", func() {
					f := hclwrite.NewEmptyFile()
					f.Body().AppendBlock(gohcl.EncodeAsBlock(tw, "manyptr"))
					bsrc = f.Bytes()
				})
				c.Set("block_source", string(bsrc))
				var holder struct {
					ManyPtr []*gTwo `hcl:"manyptr,block"`
				}
				c.Guard("hclsimple.Decode(block)", func() { err = hclsimple.Decode("x.hcl", bsrc, nil, &holder) })
				if err != nil || len(holder.ManyPtr) != 1 {
					c.Failf("block-decode-error", "EncodeAsBlock output does not decode: %v", err)
				}
				got, exp := *holder.ManyPtr[0], *tw
				if len(got.Deep) == 0 {
					got.Deep = nil
				}
				if len(exp.Deep) == 0 {
					exp.Deep = nil
				}
				if len(got.M) == 0 {
					got.M = nil
				}
				if len(exp.M) == 0 {
					exp.M = nil
				}
				if !reflect.DeepEqual(got, exp) {
					c.Failf("block-roundtrip-mismatch", "EncodeAsBlock round trip: got %+v want %+v", got, exp)
				}
			}
			// the equivalent JSON document
			js := jsonRoot(t, orig)
			c.Set("json", js)
			var jback gRoot
			c.Guard("hclsimple.Decode(json)", func() { err = hclsimple.Decode("x.json", []byte(js), nil, &jback) })
			if err != nil {
				c.Failf("json-decode-error", "equivalent JSON document does not decode: %v", err)
			}
			jw := want
			if jw.List == nil {
				jw.List = []string{}
			}
			if !reflect.DeepEqual(normJSONRoot(jback), normJSONRoot(jw)) {
				c.Failf("json-mismatch", "JSON decode differs:\n got:  %s\n want: %s", rootDump(jback), rootDump(jw))
			}
			labelled, escape, weird := rootFeatures(orig)
			if weird {
				c.Class("weird_map_key")
			}
			if escape {
				c.Class("escape_string")
			}
			c.Done(labelled && (escape || weird), dump)
		})
}

// normJSONRoot additionally identifies nil and empty maps/lists of attributes, which JSON cannot tell apart.
func normJSONRoot(r gRoot) gRoot {
	r = normRoot(r)
	if len(r.List) == 0 {
		r.List = nil
	}
	if len(r.M) == 0 {
		r.M = nil
	}
	if len(r.MI) == 0 {
		r.MI = nil
	}
	return r
}

// TestC16_DecodeTotal: decoding arbitrary configuration content into the struct types
// reports problems as diagnostics, never as a panic.
func TestC16_DecodeTotal(t *testing.T) {
	hx.Run(t, "C16", "DecodeTotal", 6000,
		"well- and ill-formed configuration text (encodings of random values mutated by G-MUT, random body trees over the struct's attribute/block names, hostile bytes) decoded with hclsimple.Decode / gohcl.DecodeBody into each struct type; oracle: returns (error or value), never panics; non-trivial = the input is a mutated valid encoding that is rejected; distinct by input",
		func(c *hx.Case) {
			t := c.T
			var text, kind string
			switch rapid.IntRange(0, 3).Draw(t, "kind") {
			case 0:
				text, kind = gen.HostileBytes().Draw(t, "bytes"), "bytes"
			case 1:
				tree := gen.DrawBody(t, gen.BodyOpts{Depth: 2, AttrNames: []string{"str", "num", "i64", "f", "b", "list", "m", "mi", "obj", "opt_str", "opt_ptr", "on", "tags", "val", "note"},
					BlockTypes: []string{"single", "maybe", "many", "manyptr", "deep"}, MaxLabels: 2,
					Expr: func(bool) astNode {
						g := gen.NewEG(t, &gen.Scope{Vals: map[string]cty.Value{}}, gen.ExprOpts{IllTyped: 6, Budget: 6, MaxDepth: 2})
						return g.Expr(cty.DynamicPseudoType)
					}})
				text, _ = render.File(tree, rchooser{t}, drawBodyOpts(t))
				kind = "tree"
			default:
				orig := drawRoot(t)
				f := hclwrite.NewEmptyFile()
				gohcl.EncodeIntoBody(&orig, f.Body())
				text, _ = gen.MutateHCL(t, string(f.Bytes()))
				kind = "mutant"
			}
			c.SetBytes("input", []byte(text))
			c.Class("input_" + kind)
			if hugeExpNative.MatchString(text) {
				c.Done(false, "")
				return
			}
			rejected := false
			var r gRoot
			var err error
			c.Guard("hclsimple.Decode(gRoot)", func() { err = hclsimple.Decode("x.hcl", []byte(text), nil, &r) })
			if err != nil {
				rejected = true
			}
			var tw struct {
				ManyPtr []*gTwo  `hcl:"manyptr,block"`
				Rest    hcl.Body `hcl:",remain"`
			}
			c.Guard("hclsimple.Decode(gTwo holder)", func() { err = hclsimple.Decode("x.hcl", []byte(text), &hcl.EvalContext{Functions: ctyFuncs}, &tw) })
			var lf struct {
				Many []gLeaf        `hcl:"many,block"`
				Rest hcl.Attributes `hcl:",remain"`
			}
			c.Guard("hclsimple.Decode(gLeaf holder)", func() { err = hclsimple.Decode("x.hcl", []byte(text), nil, &lf) })
			c.Done(rejected && kind == "mutant", text)
		})
}
