package props

import (
	"bytes"
	"fmt"
	"reflect"
	"sort"
	"strings"
	"testing"

	"github.com/hashicorp/hcl/v2"
	"github.com/hashicorp/hcl/v2/hclsyntax"
	"github.com/hashicorp/hcl/v2/hclwrite"
	"github.com/zclconf/go-cty/cty"
	"pgregory.net/rapid"

	"verifharness/ast"
	"verifharness/gen"
	"verifharness/hx"
	"verifharness/render"
)

type ltok struct {
	Type  hclsyntax.TokenType
	Bytes string
}

func lexConfigToks(src []byte) ([]ltok, hclsyntax.Tokens) {
	toks, _ := hclsyntax.LexConfig(src, "t.hcl", hcl.InitialPos)
	out := make([]ltok, len(toks))
	for i, t := range toks {
		out[i] = ltok{t.Type, string(t.Bytes)}
	}
	return out, toks
}

// firstTokDiff returns the index of the first differing token, or -1.
func firstTokDiff(a, b []ltok) int {
	n := len(a)
	if len(b) < n {
		n = len(b)
	}
	for i := 0; i < n; i++ {
		if a[i] != b[i] {
			return i
		}
	}
	if len(a) != len(b) {
		return n
	}
	return -1
}

func tokAt(a []ltok, i int) string {
	if i < 0 || i >= len(a) {
		return "<none>"
	}
	return fmt.Sprintf("%s(%q)", a[i].Type, a[i].Bytes)
}

// gapsOnlySpaces checks that the bytes between consecutive tokens of src are spaces only.
func gapsOnlySpaces(src []byte, toks hclsyntax.Tokens) (int, string) {
	pos := 0
	if bytes.HasPrefix(src, []byte("\xef\xbb\xbf")) {
		pos = 3
	}
	for i, t := range toks {
		gap := src[pos:t.Range.Start.Byte]
		for _, b := range gap {
			if b != ' ' {
				return i, string(gap)
			}
		}
		pos = t.Range.End.Byte
	}
	return -1, ""
}

var rangeType = reflect.TypeOf(hcl.Range{})
var posType = reflect.TypeOf(hcl.Pos{})
var ctyValType = reflect.TypeOf(cty.Value{})

// dumpSyntax prints a syntax tree without source ranges (AST equality modulo ranges).
func dumpSyntax(v any) string {
	var sb strings.Builder
	dumpRefl(&sb, reflect.ValueOf(v), 0)
	return sb.String()
}

func dumpRefl(sb *strings.Builder, v reflect.Value, depth int) {
	if depth > 60 {
		sb.WriteString("<deep>")
		return
	}
	if !v.IsValid() {
		sb.WriteString("nil")
		return
	}
	switch v.Type() {
	case rangeType, posType:
		return
	case ctyValType:
		cv := v.Interface().(cty.Value)
		if cv == cty.NilVal {
			sb.WriteString("NilVal")
		} else {
			sb.WriteString(cv.GoString())
		}
		return
	}
	switch v.Kind() {
	case reflect.Ptr, reflect.Interface:
		if v.IsNil() {
			sb.WriteString("nil")
			return
		}
		dumpRefl(sb, v.Elem(), depth+1)
	case reflect.Struct:
		sb.WriteString(v.Type().Name() + "{")
		for i := 0; i < v.NumField(); i++ {
			f := v.Type().Field(i)
			if f.PkgPath != "" { // unexported
				continue
			}
			if f.Type == rangeType || f.Type == posType {
				continue
			}
			if f.Type.Kind() == reflect.Func {
				continue
			}
			sb.WriteString(f.Name + ":")
			dumpRefl(sb, v.Field(i), depth+1)
			sb.WriteString(",")
		}
		sb.WriteString("}")
	case reflect.Slice, reflect.Array:
		if v.Type().Elem() == rangeType {
			return
		}
		sb.WriteString("[")
		for i := 0; i < v.Len(); i++ {
			dumpRefl(sb, v.Index(i), depth+1)
			sb.WriteString(",")
		}
		sb.WriteString("]")
	case reflect.Map:
		keys := v.MapKeys()
		sort.Slice(keys, func(i, j int) bool { return fmt.Sprint(keys[i].Interface()) < fmt.Sprint(keys[j].Interface()) })
		sb.WriteString("map{")
		for _, k := range keys {
			fmt.Fprintf(sb, "%v:", k.Interface())
			dumpRefl(sb, v.MapIndex(k), depth+1)
			sb.WriteString(",")
		}
		sb.WriteString("}")
	case reflect.String:
		fmt.Fprintf(sb, "%q", v.String())
	case reflect.Func, reflect.Chan:
		sb.WriteString("<func>")
	default:
		if v.CanInterface() {
			fmt.Fprintf(sb, "%v", v.Interface())
		} else {
			fmt.Fprintf(sb, "%v", v)
		}
	}
}

// evalAll evaluates every attribute expression of a body (recursively) into a flat list.
func evalAll(body *hclsyntax.Body, ctx *hcl.EvalContext, path string, out *[]string) {
	var names []string
	for n := range body.Attributes {
		names = append(names, n)
	}
	sort.Strings(names)
	for _, n := range names {
		func() {
			defer func() {
				if r := recover(); r != nil {
					*out = append(*out, fmt.Sprintf("%s.%s = PANIC %v", path, n, r))
				}
			}()
			v, diags := body.Attributes[n].Expr.Value(ctx)
			if diags.HasErrors() {
				*out = append(*out, fmt.Sprintf("%s.%s = ERROR", path, n))
			} else {
				*out = append(*out, fmt.Sprintf("%s.%s = %s", path, n, v.GoString()))
			}
		}()
	}
	for i, b := range body.Blocks {
		evalAll(b.Body, ctx, fmt.Sprintf("%s/%s%q[%d]", path, b.Type, b.Labels, i), out)
	}
}

// drawConfig draws a body tree whose attribute values are full expressions.
func drawConfig(t *rapid.T, sc *gen.Scope, depth int, eo gen.ExprOpts) *ast.Body {
	return gen.DrawBody(t, gen.BodyOpts{Depth: depth, MaxItems: 4, Expr: func(oneLine bool) ast.Node {
		o := eo
		if oneLine {
			o.NoHeredoc = true
		}
		g := gen.NewEG(t, sc, o)
		return g.Expr(cty.DynamicPseudoType)
	}})
}

func exprFeatures(b *ast.Body, m map[string]bool) {
	for _, it := range b.Items {
		switch x := it.(type) {
		case ast.Attr:
			for k := range nodeKinds(x.Expr) {
				if !strings.HasPrefix(k, "op") {
					m[k] = true
				}
			}
		case ast.Block:
			exprFeatures(x.Body, m)
		}
	}
}

func TestC09_Format(t *testing.T) {
	hx.Run(t, "C09", "Format", 12000,
		"error-free configuration = body tree with full G-EXPR/G-TMPL attribute values rendered by G-LAYOUT at its wildest setting; oracle: same (type,bytes) token sequence, gaps are spaces, re-parses to the same AST modulo ranges with equal attribute values, idempotent; non-trivial = >=10 tokens, >=2 lines and output differs from input; distinct by tree dump + layout hash",
		caseC09Format)
}

// drawNestedTemplateSource writes a configuration by hand whose templates nest: a quoted
// template with sequences of its own stands inside a sequence of a heredoc (or of another
// quoted template) and is followed, inside that outer sequence, by operators and keywords
// that are kept apart by spaces only.
func drawNestedTemplateSource(t *rapid.T) string {
	q := func() string {
		return rapid.SampledFrom([]string{`"${u}"`, `"x${u}y"`, `"%{ if c }t%{ endif }"`, `"${"${u}"}"`, `"${u}${v}"`, `"a"`, `"${ u }-%{ for x in l }${x}%{ endfor }"`}).Draw(t, "quoted")
	}
	id := func() string {
		return rapid.SampledFrom([]string{"u", "v", "total", "used", "k", "skip"}).Draw(t, "ident")
	}
	gap := func() string { return rapid.SampledFrom([]string{" ", " ", "  ", "\t", ""}).Draw(t, "gap") }
	_ = gap
	sp := func() string { return rapid.SampledFrom([]string{" ", "  ", "   "}).Draw(t, "sp") }
	seq := func() string {
		switch rapid.IntRange(0, 5).Draw(t, "seqkind") {
		case 0:
			return "${" + sp() + q() + sp() + "==" + sp() + id() + sp() + "?" + sp() + id() + sp() + "-" + sp() + id() + sp() + ":" + sp() + id() + sp() + "}"
		case 1:
			return "${" + sp() + "upper(" + q() + ")" + sp() + "!=" + sp() + id() + sp() + "||" + sp() + "!" + id() + sp() + "}"
		case 2:
			return "%{" + sp() + "for" + sp() + "k" + sp() + "in" + sp() + "[" + q() + "," + sp() + id() + "]" + sp() + "}${" + sp() + "k" + sp() + "}%{" + sp() + "endfor" + sp() + "}"
		case 3:
			return "%{" + sp() + "if" + sp() + q() + sp() + "!=" + sp() + id() + sp() + "&&" + sp() + id() + sp() + "}yes%{" + sp() + "else" + sp() + "}no%{" + sp() + "endif" + sp() + "}"
		case 4:
			return "${" + sp() + "[for" + sp() + "k" + sp() + "in" + sp() + "l" + sp() + ":" + sp() + q() + sp() + "if" + sp() + "k" + sp() + "!=" + sp() + id() + "]" + sp() + "}"
		default:
			return "${" + sp() + id() + sp() + "-" + sp() + id() + sp() + "}" + " ${" + q() + "}"
		}
	}
	var sb strings.Builder
	n := rapid.IntRange(1, 3).Draw(t, "nattrs")
	for i := 0; i < n; i++ {
		name := string(rune('a' + i))
		switch rapid.IntRange(0, 2).Draw(t, "form") {
		case 0:
			fmt.Fprintf(&sb, "%s = <<EOT\n  line %s tail\n%s\nEOT\n", name, seq(), seq())
		case 1:
			fmt.Fprintf(&sb, "%s   =   <<-EOT\n    %s\n      %s %s\n    EOT\n", name, seq(), seq(), seq())
		default:
			fmt.Fprintf(&sb, "%s =   \"pre %s post %s\"\n", name, seq(), seq())
		}
	}
	if rapid.Bool().Draw(t, "in_block") {
		return "blk   \"l\"   {\n" + sb.String() + "}\n"
	}
	return sb.String()
}

func caseC09Format(c *hx.Case) {
	t := c.T
	if rapid.IntRange(0, 7).Draw(t, "nested_templates") == 0 {
		src := drawNestedTemplateSource(t)
		c.Set("source", src)
		c.Class("family_nested_templates")
		checkFormat(c, []byte(src), &hcl.EvalContext{Functions: ctyFuncs, Variables: map[string]cty.Value{
			"u": cty.StringVal("U"), "v": cty.StringVal("V"), "total": cty.NumberIntVal(9), "used": cty.NumberIntVal(4), "k": cty.StringVal("K"),
			"skip": cty.StringVal("s"), "c": cty.True, "l": cty.ListVal([]cty.Value{cty.StringVal("K"), cty.StringVal("s")}),
		}})
		return
	}
	sc := gen.DrawScope(t, gen.ScopeOpts{Nulls: 12})
	tree := drawConfig(t, sc, 2, gen.ExprOpts{IllTyped: 10, HostileLits: true, Budget: 14, MaxDepth: 3})
	bo := drawBodyOpts(t)
	bo.Wild = 2
	src, r := render.File(tree, rchooser{t}, bo)
	c.Set("source", src)
	kinds := map[string]bool{}
	exprFeatures(tree, kinds)
	featClasses(c, "node_", kinds)
	featClasses(c, "layout_", r.Feat)
	checkFormat(c, []byte(src), evalCtx(sc))
}

func FuzzC09_Format(f *testing.F) { hx.Fuzz(f, "C09", "Format", caseC09Format) }

// c09Prev is the source of the previous case (a deterministic "unrelated text").
var c09Prev = []byte("a = 1\n")

// checkFormat is the C09 oracle for one error-free source text.
func checkFormat(c *hx.Case, src []byte, ctx *hcl.EvalContext) {
	f1, diags := hclsyntax.ParseConfig(src, "t.hcl", hcl.InitialPos)
	if diags.HasErrors() {
		c.Class("precondition_not_met")
		c.Failf("generator-parse-error", "generated configuration does not parse (generator defect or C02 violation): %s", diagStr(diags))
	}
	var out []byte
	c.Guard("Format", func() { out = hclwrite.Format(src) })
	c.Set("formatted", string(out))
	inToks, _ := lexConfigToks(src)
	outToks, outRaw := lexConfigToks(out)
	if i := firstTokDiff(inToks, outToks); i >= 0 {
		c.Failf("token-sequence", "token %d differs: input %s, formatted %s", i, tokAt(inToks, i), tokAt(outToks, i))
	}
	if i, gap := gapsOnlySpaces(out, outRaw); i >= 0 {
		if strings.Trim(gap, " \t") == "" && c.Known("format-keeps-tabs") {
			// known: see known_findings.json
		} else {
			c.Failf("gap-not-spaces", "gap before token %d of the formatted output is %q", i, gap)
		}
	}
	f2, diags := hclsyntax.ParseConfig(out, "t.hcl", hcl.InitialPos)
	if diags.HasErrors() {
		c.Failf("formatted-parse-error", "formatted output does not parse: %s", diagStr(diags))
	}
	d1, d2 := dumpSyntax(f1.Body), dumpSyntax(f2.Body)
	if d1 != d2 {
		c.Failf("ast-changed", "AST differs after formatting:\n before: %.600s\n after:  %.600s", d1, d2)
	}
	var v1, v2 []string
	evalAll(f1.Body.(*hclsyntax.Body), ctx, "", &v1)
	evalAll(f2.Body.(*hclsyntax.Body), ctx, "", &v2)
	if strings.Join(v1, "\n") != strings.Join(v2, "\n") {
		c.Failf("values-changed", "attribute values differ after formatting:\n before: %.600s\n after:  %.600s", strings.Join(v1, "; "), strings.Join(v2, "; "))
	}
	snapshot := string(out)
	var again []byte
	c.Guard("Format", func() { again = hclwrite.Format(out) })
	if !bytes.Equal(again, out) {
		c.Set("formatted_twice", string(again))
		c.Failf("not-idempotent", "formatting the output again changes it")
	}
	// a result stays what it was when the formatter is used again (on its own output and on
	// an unrelated text: the previous case's source)
	againSnapshot := string(again)
	c.Guard("Format", func() { _ = hclwrite.Format(c09Prev) })
	c09Prev = append([]byte{}, src...)
	if string(out) != snapshot || string(again) != againSnapshot {
		c.Set("formatted_now", string(out))
		c.Failf("result-invalidated", "the bytes returned by Format changed after later Format calls")
	}
	lines := bytes.Count(src, []byte("\n"))
	c.Done(len(inToks) >= 10 && lines >= 2 && !bytes.Equal(out, src), string(src))
}
