package props

import (
	"fmt"
	"testing"

	"github.com/hashicorp/hcl/v2"
	"github.com/zclconf/go-cty/cty"
	"pgregory.net/rapid"

	"verifharness/ast"
	"verifharness/gen"
	"verifharness/hx"
	"verifharness/render"
)

// TestC06_Decisions: the secret decides something (a condition, a filter, a key, a branch)
// rather than flowing into the result. Values, literals and the alternative contents of
// the secret come from one small pool, so that comparisons flip between the runs.
func TestC06_Decisions(t *testing.T) {
	hx.Run(t, "C06", "Decisions", 20000,
		"directed family: scope of numbers/strings/lists/bools from one small pool; expression from the typed grammar of C05/Refinements (conditional, comparison, equality, logic, arithmetic, template concatenation, for with an if clause, length) so that the secret mostly acts through a decision (condition true/false, filter keeps/drops every element) rather than as data; one used variable is the secret, marked as a whole, evaluated with three contents from the pool; oracle (non-interference): any two error-free runs whose results differ after deep unmarking must both carry the mark; non-trivial = some pair differs; distinct by (AST dump, secret variable)",
		func(c *hx.Case) {
			t := c.T
			sc := &gen.Scope{Vals: map[string]cty.Value{}}
			add := func(name string, v cty.Value) {
				sc.Names = append(sc.Names, name)
				sc.Vals[name] = v
			}
			drawList := func(label string) cty.Value {
				n := rapid.IntRange(0, 3).Draw(t, label+"_len")
				if n == 0 {
					return cty.ListValEmpty(cty.String)
				}
				var vs []cty.Value
				for i := 0; i < n; i++ {
					vs = append(vs, cty.StringVal(rapid.SampledFrom(refStrings).Draw(t, label)))
				}
				return cty.ListVal(vs)
			}
			pools := map[string]func(label string) cty.Value{
				"c1": func(l string) cty.Value { return cty.BoolVal(rapid.Bool().Draw(t, l)) },
				"c2": func(l string) cty.Value { return cty.BoolVal(rapid.Bool().Draw(t, l)) },
				"l1": drawList, "l2": drawList,
				"n1": func(l string) cty.Value { return rapid.SampledFrom(refPool).Draw(t, l) },
				"n2": func(l string) cty.Value { return rapid.SampledFrom(refPool).Draw(t, l) },
				"n3": func(l string) cty.Value { return rapid.SampledFrom(refPool).Draw(t, l) },
				"s1": func(l string) cty.Value { return cty.StringVal(rapid.SampledFrom(refStrings).Draw(t, l)) },
				"s2": func(l string) cty.Value { return cty.StringVal(rapid.SampledFrom(refStrings).Draw(t, l)) },
			}
			for _, n := range []string{"c1", "c2", "l1", "l2", "n1", "n2", "n3", "s1", "s2"} {
				add(n, pools[n](n))
			}
			g := &refGen{t: t, feat: map[string]bool{}}
			n := g.top()
			src, _ := render.Expression(n, render.Fixed{}, render.Opts{})
			dump := ast.Dump(n)
			c.Set("source", src)
			c.Set("scope", scopeDump(sc))
			featClasses(c, "gen_", g.feat)
			used := ast.FreeVars(n)
			var candidates []string
			for _, name := range sc.Names {
				if used[name] {
					candidates = append(candidates, name)
				}
			}
			if len(candidates) == 0 {
				c.Class("no_variable_used")
				c.Done(false, "")
				return
			}
			secret := rapid.SampledFrom(candidates).Draw(t, "secretvar")
			c.Class("secret_" + sc.Vals[secret].Type().FriendlyName())
			contents := []cty.Value{sc.Vals[secret], pools[secret]("content2"), pools[secret]("content3")}
			// other variables may carry an unrelated mark
			other := map[string]bool{}
			for _, name := range sc.Names {
				if name != secret && rapid.IntRange(0, 5).Draw(t, "othermark") == 0 {
					other[name] = true
				}
			}
			expr, diags := parseExprSrc(src)
			if diags.HasErrors() {
				c.Failf("parse-error", "%s", diagStr(diags))
			}
			type run struct {
				v  cty.Value
				ok bool
			}
			var runs []run
			var desc []string
			for _, content := range contents {
				ctx := evalCtx(sc)
				for name := range other {
					ctx.Variables[name] = sc.Vals[name].Mark(otherMark)
				}
				ctx.Variables[secret] = content.Mark(secretMark)
				desc = append(desc, content.GoString())
				var v cty.Value
				var d hcl.Diagnostics
				c.Guard("Value", func() { v, d = expr.Value(ctx) })
				runs = append(runs, run{v, !d.HasErrors()})
			}
			c.Set("secret", fmt.Sprintf("%s contents=%v", secret, desc))
			influence := false
			for i := 0; i < len(runs); i++ {
				for j := i + 1; j < len(runs); j++ {
					a, b := runs[i], runs[j]
					if !a.ok || !b.ok || unmarkedDeep(a.v).RawEquals(unmarkedDeep(b.v)) {
						continue
					}
					influence = true
					if !carriesMark(a.v, secretMark) || !carriesMark(b.v, secretMark) {
						c.Failf("mark-lost", "the marked variable %q with content %s gives %#v, with content %s gives %#v: the result depends on it but the mark is not carried by both results", secret, desc[i], a.v, desc[j], b.v)
					}
				}
			}
			if influence {
				c.Class("influence")
			} else {
				c.Class("no_influence")
			}
			c.Done(influence, dump+"|"+secret)
		})
}

// TestC06_Presence: what is secret about the marked variable is whether it is set at all
// (null or not), whether it is known, and - for the splat operator applied to something
// that is not a list, set or tuple - whether the implicit tuple has an element.
func TestC06_Presence(t *testing.T) {
	hx.Run(t, "C06", "Presence", 12000,
		"directed family: the secret `s` is a string / number / bool / object / map / list / tuple marked as a whole and used through a form where its presence or known-ness decides the result (`s[*]`, `s[*].id`, `s.*.name`, `s == null`, `s != null ? a : b`, len(s[*]), for over s[*], expansion of s[*] into call arguments, nullok(s), constructors around s), inside a second construct (tuple, object, len, comparison with [], for, parentheses, conditional branch, template); evaluated with two values of the type, null, a typed unknown, a not-null unknown and an unknown of unknown type; oracle (non-interference): any two error-free runs whose results differ after deep unmarking (known-ness included) must both carry the mark; non-trivial = a pair differs where one content is null or unknown; distinct by (source, type)",
		func(c *hx.Case) {
			t := c.T
			type kind struct {
				name string
				a, b cty.Value
			}
			obj := func(id int64, name string) cty.Value {
				return cty.ObjectVal(map[string]cty.Value{"id": cty.NumberIntVal(id), "name": cty.StringVal(name)})
			}
			kinds := []kind{
				{"string", cty.StringVal("x"), cty.StringVal("y")},
				{"number", cty.NumberIntVal(1), cty.NumberIntVal(2)},
				{"bool", cty.True, cty.False},
				{"object", obj(1, "x"), obj(2, "y")},
				{"map", cty.MapVal(map[string]cty.Value{"id": cty.StringVal("1"), "name": cty.StringVal("x")}), cty.MapVal(map[string]cty.Value{"id": cty.StringVal("2")})},
				{"list", cty.ListVal([]cty.Value{cty.StringVal("x")}), cty.ListVal([]cty.Value{cty.StringVal("x"), cty.StringVal("y")})},
				{"tuple", cty.TupleVal([]cty.Value{obj(1, "x")}), cty.TupleVal([]cty.Value{obj(2, "y")})},
				{"emptyobject", cty.EmptyObjectVal, cty.EmptyObjectVal},
			}
			k := rapid.SampledFrom(kinds).Draw(t, "kind")
			bases := []string{"s[*]", "s.*", "s == null", "s != null", "s", "[s]", "{a = s}", "nullok(s)", "len(s[*])",
				"s == null ? n1 : n2", "s != null ? [n1] : []", "[for x in s[*] : x]", "[for x in s[*] : n1]", "{for i, x in s[*] : \"k${i}\" => n1}",
				"len(s[*]) > 0 ? \"set\" : \"unset\"", "nullok(s[*]...)", "[for x in [s] : x if x != null]", "s[*] == []", "len([for x in s[*] : x])"}
			switch k.name {
			case "object", "map", "tuple":
				bases = append(bases, "s[*].id", "s.*.name", "s[*].id == [1]", "len(s[*].name)", "[for x in s[*].id : x]")
			case "string":
				bases = append(bases, "joinl(\",\", s[*])", "cat(s[*]...)", "\"${joinl(\"-\", s[*])}\"")
			case "list":
				bases = append(bases, "s[*][0]", "joinl(\",\", s)")
			}
			base := rapid.SampledFrom(bases).Draw(t, "base")
			wraps := []string{"%s", "[%s]", "{k = %s}", "len(%s)", "(%s) == []", "[for v in %s : v]", "((%s))", "c1 ? %s : %s", "nullok(%s)", "[%s][0]", "{k = %s}.k", "[n1, %s]"}
			wrap := rapid.SampledFrom(wraps).Draw(t, "wrap")
			src := fmt.Sprintf(wrap, base)
			if wrap == "c1 ? %s : %s" {
				src = fmt.Sprintf(wrap, base, base)
			}
			c.Set("source", src)
			c.Set("kind", k.name)
			c.Class("kind_" + k.name)
			expr, diags := parseExprSrc(src)
			if diags.HasErrors() {
				c.Failf("harness-generator", "directed source does not parse: %s", diagStr(diags))
			}
			ty := k.a.Type()
			contents := []cty.Value{k.a, k.b, cty.NullVal(ty), cty.UnknownVal(ty), cty.UnknownVal(ty).RefineNotNull(), cty.DynamicVal}
			names := []string{"a", "b", "null", "unknown", "unknown-notnull", "dynamic"}
			type run struct {
				v  cty.Value
				ok bool
			}
			var runs []run
			for _, content := range contents {
				ctx := &hcl.EvalContext{Functions: ctyFuncs, Variables: map[string]cty.Value{
					"s": content.Mark(secretMark), "n1": cty.NumberIntVal(7), "n2": cty.NumberIntVal(8), "c1": cty.True,
				}}
				var v cty.Value
				var d hcl.Diagnostics
				c.Guard("Value", func() { v, d = expr.Value(ctx) })
				runs = append(runs, run{v, !d.HasErrors()})
			}
			influence := false
			for i := 0; i < len(runs); i++ {
				for j := i + 1; j < len(runs); j++ {
					a, b := runs[i], runs[j]
					if !a.ok || !b.ok || unmarkedDeep(a.v).RawEquals(unmarkedDeep(b.v)) {
						continue
					}
					if i >= 2 || j >= 2 {
						influence = true
					}
					if !carriesMark(a.v, secretMark) || !carriesMark(b.v, secretMark) {
						c.Failf("mark-lost", "%s with the marked %s `s` = %s gives %#v, with `s` = %s gives %#v: the result depends on it but the mark is not carried by both results", src, k.name, names[i], a.v, names[j], b.v)
					}
				}
			}
			if influence {
				c.Class("influence_of_presence")
			}
			c.Done(influence, src+"|"+k.name)
		})
}

// TestC06_Keys: the secret selects - it is the key of an index operation, in its own type
// or in a type that is converted to the collection's key type first (a digit string
// indexing a list or tuple, a number indexing a map).
func TestC06_Keys(t *testing.T) {
	hx.Run(t, "C06", "Keys", 8000,
		"directed family: unmarked list / tuple / map / set-derived collections with pairwise different elements; the marked secret `s` is used as the key of an index operation, directly (`lst[s]`), computed (`lst[\"${s}\"]`, `lst[s + 0]`, `m[upper(s)]`), nested (`[lst[s]]`, `{k = m[s]}`, `lst[s] == \"x\"`, a conditional on the element, a for expression over the selected element's collection) and with every key representation: number / digit string for lists and tuples, string / number for maps whose keys are digit strings; evaluated with three contents selecting different elements; oracle (non-interference): any two error-free runs whose results differ after deep unmarking must both carry the mark; non-trivial = some pair differs with a key that needs conversion; distinct by (source, key kind)",
		func(c *hx.Case) {
			t := c.T
			colls := map[string]cty.Value{
				"lst": cty.ListVal([]cty.Value{cty.StringVal("x"), cty.StringVal("y"), cty.StringVal("z")}),
				"tup": cty.TupleVal([]cty.Value{cty.StringVal("x"), cty.NumberIntVal(5), cty.True}),
				"m":   cty.MapVal(map[string]cty.Value{"0": cty.StringVal("m0"), "1": cty.StringVal("m1"), "2": cty.StringVal("m2")}),
				"ll":  cty.ListVal([]cty.Value{cty.ListVal([]cty.Value{cty.StringVal("p")}), cty.ListVal([]cty.Value{cty.StringVal("q"), cty.StringVal("r")}), cty.ListValEmpty(cty.String)}),
			}
			coll := rapid.SampledFrom([]string{"lst", "tup", "m", "ll"}).Draw(t, "coll")
			keyKind := rapid.SampledFrom([]string{"number", "string"}).Draw(t, "keykind")
			keyForms := []string{"s", "(s)"}
			if keyKind == "string" {
				keyForms = append(keyForms, `"${s}"`, `upper(s)`, `c1 ? s : "0"`)
			} else {
				keyForms = append(keyForms, `s + 0`, `add(s, 0)`, `c1 ? s : 0`, `"${s}"`)
			}
			key := rapid.SampledFrom(keyForms).Draw(t, "keyform")
			sel := fmt.Sprintf("%s[%s]", coll, key)
			wraps := []string{"%s", "[%s]", "{k = %s}", "nullok(%s)", "(%s)", "[for v in [%s] : v]"}
			switch coll {
			case "lst", "m":
				wraps = append(wraps, `%s == "x"`, `"<${%s}>"`, `%s == "y" ? n1 : n2`, `upper(%s)`)
			case "ll":
				wraps = append(wraps, `len(%s)`, `[for v in %s : v]`, `%s[*]`, `cat(%s...)`)
			}
			src := fmt.Sprintf(rapid.SampledFrom(wraps).Draw(t, "wrap"), sel)
			c.Set("source", src)
			c.Class("key_" + keyKind + "_on_" + coll)
			expr, diags := parseExprSrc(src)
			if diags.HasErrors() {
				c.Failf("harness-generator", "directed source does not parse: %s", diagStr(diags))
			}
			needsConversion := (keyKind == "string") != (coll == "m")
			if needsConversion {
				c.Class("key_needs_conversion")
			}
			type run struct {
				v  cty.Value
				ok bool
			}
			var runs []run
			var desc []string
			for i := 0; i < 3; i++ {
				var content cty.Value
				if keyKind == "number" {
					content = cty.NumberIntVal(int64(i))
				} else {
					content = cty.StringVal(fmt.Sprint(i))
				}
				desc = append(desc, content.GoString())
				vars := map[string]cty.Value{"s": content.Mark(secretMark), "n1": cty.NumberIntVal(7), "n2": cty.NumberIntVal(8), "c1": cty.True}
				for n, v := range colls {
					vars[n] = v
				}
				ctx := &hcl.EvalContext{Functions: ctyFuncs, Variables: vars}
				var v cty.Value
				var d hcl.Diagnostics
				c.Guard("Value", func() { v, d = expr.Value(ctx) })
				runs = append(runs, run{v, !d.HasErrors()})
			}
			influence := false
			for i := 0; i < len(runs); i++ {
				for j := i + 1; j < len(runs); j++ {
					a, b := runs[i], runs[j]
					if !a.ok || !b.ok || unmarkedDeep(a.v).RawEquals(unmarkedDeep(b.v)) {
						continue
					}
					influence = true
					if !carriesMark(a.v, secretMark) || !carriesMark(b.v, secretMark) {
						c.Failf("mark-lost", "%s with the marked key `s` = %s gives %#v, with `s` = %s gives %#v: the result depends on it but the mark is not carried by both results", src, desc[i], a.v, desc[j], b.v)
					}
				}
			}
			if influence {
				c.Class("influence")
			}
			c.Done(influence && needsConversion, src+"|"+keyKind)
		})
}
