package props

import (
	"fmt"
	"strings"
	"testing"

	"github.com/hashicorp/hcl/v2"
	"github.com/hashicorp/hcl/v2/ext/dynblock"
	"github.com/hashicorp/hcl/v2/hcldec"
	"github.com/hashicorp/hcl/v2/hclsyntax"
	"github.com/zclconf/go-cty/cty"
	"pgregory.net/rapid"

	"verifharness/hx"
	"verifharness/ref"
)

// ufeCase is one case of the directed "unknown for_each" family.
type ufeCase struct {
	src                            string
	kind                           string
	spec                           hcldec.Spec
	abstract, concrete             map[string]cty.Value
	unknownPresent, knownNeighbour bool
}

// drawUFECase draws a body (static and dynamic blocks of one type, some over unknown
// collections, static blocks reading variables of their own) and a block-collection spec.
func drawUFECase(t *rapid.T) ufeCase {
	kind := rapid.SampledFrom([]string{"list", "list", "set", "tuple", "map", "map2", "object", "single"}).Draw(t, "speckind")
	nlabels := 0
	switch kind {
	case "map", "object":
		nlabels = 1
	case "map2":
		nlabels = 2
	}
	nested := rapid.IntRange(0, 2).Draw(t, "nested") == 0
	noAttrs := false
	if kind == "single" {
		// a single block read as such: the placeholder body of an unknown for_each is descended into
		nested = true
		noAttrs = rapid.Bool().Draw(t, "content_without_attributes")
	}
	kty := cty.String
	if kind == "tuple" || kind == "object" {
		kty = cty.DynamicPseudoType // not allowed inside the homogeneous collections
	}
	innerAttrs := hcldec.ObjectSpec{
		"v": &hcldec.AttrSpec{Name: "v", Type: cty.String},
		"k": &hcldec.AttrSpec{Name: "k", Type: kty},
	}
	if nested {
		innerAttrs["inner"] = &hcldec.BlockListSpec{TypeName: "inner", Nested: hcldec.ObjectSpec{"w": &hcldec.AttrSpec{Name: "w", Type: cty.String}}}
	}
	var spec hcldec.Spec
	labelNames := []string{"l1", "l2"}[:nlabels]
	switch kind {
	case "list":
		spec = &hcldec.BlockListSpec{TypeName: "b", Nested: innerAttrs}
	case "set":
		spec = &hcldec.BlockSetSpec{TypeName: "b", Nested: innerAttrs}
	case "tuple":
		spec = &hcldec.BlockTupleSpec{TypeName: "b", Nested: innerAttrs}
	case "map", "map2":
		spec = &hcldec.BlockMapSpec{TypeName: "b", LabelNames: labelNames, Nested: innerAttrs}
	default:
		spec = &hcldec.BlockObjectSpec{TypeName: "b", LabelNames: labelNames, Nested: innerAttrs}
	}
	if kind == "single" {
		spec = &hcldec.BlockSpec{TypeName: "b", Nested: innerAttrs}
	}
	if rapid.Bool().Draw(t, "wrapped") {
		spec = hcldec.ObjectSpec{"bs": spec, "top": &hcldec.AttrSpec{Name: "top", Type: cty.String}}
	}
	// scope
	drawColl := func(label string) cty.Value {
		n := rapid.IntRange(0, 3).Draw(t, label+"_n")
		shape := rapid.SampledFrom([]string{"list", "map", "set"}).Draw(t, label+"_shape")
		var elems []cty.Value
		m := map[string]cty.Value{}
		for i := 0; i < n; i++ {
			s := fmt.Sprintf("%s%d", label, i)
			elems = append(elems, cty.StringVal(s))
			m["k"+s] = cty.StringVal(s)
		}
		switch {
		case shape == "list" && n > 0:
			return cty.ListVal(elems)
		case shape == "list":
			return cty.ListValEmpty(cty.String)
		case shape == "map" && n > 0:
			return cty.MapVal(m)
		case shape == "map":
			return cty.MapValEmpty(cty.String)
		case n > 0:
			return cty.SetVal(elems)
		default:
			return cty.SetValEmpty(cty.String)
		}
	}
	concrete := map[string]cty.Value{"k1": drawColl("k1"), "k2": drawColl("k2"), "u1": drawColl("u1"), "u2": drawColl("u2"),
		"sv0": cty.StringVal("s0"), "sv1": cty.StringVal("s1"), "sv2": cty.StringVal("s2"), "sv3": cty.StringVal("s3"), "sv4": cty.StringVal("s4")}
	abstract := map[string]cty.Value{}
	for n, v := range concrete {
		abstract[n] = v
		if strings.HasPrefix(n, "u") {
			if rapid.IntRange(0, 3).Draw(t, "dynamic_typed") == 0 {
				abstract[n] = cty.DynamicVal
			} else {
				abstract[n] = cty.UnknownVal(v.Type())
			}
		}
	}
	// body
	var sb strings.Builder
	nItems := rapid.IntRange(1, 5).Draw(t, "nitems")
	if kind == "single" {
		nItems = 1
	}
	unknownPresent, knownNeighbour, labelSeq := false, false, 0
	labelsFor := func(dynamic bool, it string) string {
		var ls []string
		for i := 0; i < nlabels; i++ {
			labelSeq++
			if dynamic && rapid.Bool().Draw(t, "label_from_iterator") {
				ls = append(ls, fmt.Sprintf("\"${%s.key}-%d\"", it, labelSeq))
			} else {
				ls = append(ls, fmt.Sprintf("\"s%d\"", labelSeq))
			}
		}
		return strings.Join(ls, ", ")
	}
	innerText := func(it string, indent string) string {
		if !nested {
			return ""
		}
		var ib strings.Builder
		for j := rapid.IntRange(0, 2).Draw(t, "ninner"); j > 0; j-- {
			switch rapid.IntRange(0, 3).Draw(t, "innerkind") {
			case 0:
				fmt.Fprintf(&ib, "%sinner {\n%s  w = \"static\"\n%s}\n", indent, indent, indent)
			case 1:
				fe := rapid.SampledFrom([]string{"k1", "k2", "u1", "u2"}).Draw(t, "inner_for_each")
				fmt.Fprintf(&ib, "%sdynamic \"inner\" {\n%s  for_each = %s\n%s  content {\n%s    w = inner.value\n%s  }\n%s}\n", indent, indent, fe, indent, indent, indent, indent)
			default:
				if it == "" {
					fmt.Fprintf(&ib, "%sinner {\n%s  w = \"static2\"\n%s}\n", indent, indent, indent)
				} else {
					fmt.Fprintf(&ib, "%sdynamic \"inner\" {\n%s  for_each = [%s.value, \"x\"]\n%s  content {\n%s    w = inner.value\n%s  }\n%s}\n", indent, indent, it, indent, indent, indent, indent)
				}
			}
		}
		return ib.String()
	}
	for i := 0; i < nItems; i++ {
		if kind != "single" && rapid.IntRange(0, 2).Draw(t, "static") == 0 {
			ls := labelsFor(false, "")
			ls = strings.ReplaceAll(ls, ", ", " ")
			if rapid.Bool().Draw(t, "static_reads_variable") {
				fmt.Fprintf(&sb, "b %s {\n  v = sv%d\n  k = %d\n%s}\n", ls, i, i, innerText("", "  "))
			} else {
				fmt.Fprintf(&sb, "b %s {\n  v = \"static%d\"\n  k = %d\n%s}\n", ls, i, i, innerText("", "  "))
			}
			knownNeighbour = true
			continue
		}
		fe := rapid.SampledFrom([]string{"k1", "k2", "u1", "u2", "u1"}).Draw(t, "for_each")
		it := "b"
		iterLine := ""
		if rapid.IntRange(0, 2).Draw(t, "custom_iterator") == 0 {
			it = "it"
			iterLine = "  iterator = it\n"
		}
		labelLine := ""
		if nlabels > 0 {
			labelLine = "  labels = [" + labelsFor(true, it) + "]\n"
		}
		if strings.HasPrefix(fe, "u") {
			unknownPresent = true
		} else {
			knownNeighbour = true
		}
		attrText := fmt.Sprintf("    v = %s.value\n    k = %s.key\n", it, it)
		if noAttrs {
			attrText = ""
		}
		fmt.Fprintf(&sb, "dynamic \"b\" {\n  for_each = %s\n%s%s  content {\n%s%s  }\n}\n", fe, iterLine, labelLine, attrText, innerText(it, "    "))
	}
	if rapid.Bool().Draw(t, "top_attr") {
		sb.WriteString("top = \"t\"\n")
	}
	src := sb.String()
	return ufeCase{src: src, kind: kind, spec: spec, abstract: abstract, concrete: concrete, unknownPresent: unknownPresent, knownNeighbour: knownNeighbour}
}

// TestC18_UnknownForEach: directed family for the clause "when a for_each collection is
// unknown the result is still of the specification's implied type with the affected part
// unknown". A sequence of static and dynamic blocks of one type is decoded by each
// block-collection specification; some dynamic blocks iterate over an unknown collection.
func TestC18_UnknownForEach(t *testing.T) {
	hx.Run(t, "C18", "UnknownForEach", 6000,
		"directed family: 1..5 blocks of one type in sequence, each static or `dynamic` over a known list/map/set variable (0..3 elements) or over a variable that is unknown (typed list/map/set or dynamic) in the abstract run and a drawn collection of 0..3 elements in the concrete run; optionally nested one level (inner dynamic inside the content, inner for_each known/unknown/derived from the outer iterator); decoded by BlockList / BlockSet / BlockTuple / BlockMap (1-2 labels) / BlockObject specs with an attribute reading the iterator; oracle: the abstract result conforms to the implied type and is consistent with the concrete one (nothing it states as known - a length, a key, an attribute value - is contradicted), no error in the abstract run that the concrete run does not have; non-trivial = an unknown dynamic block next to a block with a known body, concrete size != 1; distinct by (source, spec kind)",
		func(c *hx.Case) {
			t := c.T
			uc := drawUFECase(t)
			src, kind, spec, abstract, concrete, unknownPresent, knownNeighbour := uc.src, uc.kind, uc.spec, uc.abstract, uc.concrete, uc.unknownPresent, uc.knownNeighbour
			c.Set("source", src)
			c.Set("spec", kind)
			c.Class("spec_" + kind)
			f, diags := hclsyntax.ParseConfig([]byte(src), "t.hcl", hcl.InitialPos)
			if diags.HasErrors() {
				c.Failf("harness-generator", "directed source does not parse: %s", diagStr(diags))
			}
			actx := &hcl.EvalContext{Variables: abstract}
			cctx := &hcl.EvalContext{Variables: concrete}
			var av, cv cty.Value
			var ad, cd hcl.Diagnostics
			c.Guard("Decode(Expand) abstract", func() { av, ad = hcldec.Decode(dynblock.Expand(f.Body, actx), spec, actx) })
			c.Guard("Decode(Expand) concrete", func() { cv, cd = hcldec.Decode(dynblock.Expand(f.Body, cctx), spec, cctx) })
			implied := hcldec.ImpliedType(spec)
			if !ref.Conforms(av.Type(), implied.WithoutOptionalAttributesDeep()) {
				if !(kind == "map2" && hasEmptyMapVal(av) && c.Known("blockmap-multilabel-empty-type")) {
					c.Failf("type-nonconforming", "abstract result of type %#v does not conform to the implied type %#v (%s)", av.Type(), implied, diagStr(ad))
				}
			}
			sizeNotOne := false
			for n, v := range concrete {
				if strings.HasPrefix(n, "u") && v.LengthInt() != 1 {
					sizeNotOne = true
				}
			}
			if kind == "single" {
				// ext/dynblock's placeholder for an unknown for_each "reports everything inside it as
				// unknown": below the single block no attribute value is known and no nested block
				// collection that has blocks is known (whether there is a block at all is the
				// documented compromise and not judged)
				if !ad.HasErrors() && unknownPresent {
					u, _ := av.UnmarkDeep()
					bv := u
					if u.Type().IsObjectType() && u.Type().HasAttribute("bs") {
						bv = u.GetAttr("bs")
					}
					if bv.IsKnown() && !bv.IsNull() {
						_ = cty.Walk(bv, func(p cty.Path, x cty.Value) (bool, error) {
							if !x.IsKnown() || x.IsNull() {
								return false, nil
							}
							ty := x.Type()
							if ty.IsPrimitiveType() {
								c.Failf("unknown-for-each-known-leaf", "below the block generated from an unknown for_each the value at %v is known: %#v (whole result %#v)", p, x, av)
							}
							if (ty.IsListType() || ty.IsSetType() || ty.IsTupleType() || ty.IsMapType()) && x.LengthInt() > 0 && len(p) > 0 {
								c.Failf("unknown-for-each-known-leaf", "below the block generated from an unknown for_each the block collection at %v is known: %#v (whole result %#v)", p, x, av)
							}
							return true, nil
						})
					}
					c.Class("single_block_placeholder_judged")
				}
				c.Done(unknownPresent && !ad.HasErrors(), src+"|"+kind)
				return
			}
			if ad.HasErrors() || cd.HasErrors() {
				c.Class("some_run_error")
				c.Done(false, "")
				return
			}
			if kind == "map2" && (hasEmptyMapVal(av) || hasEmptyMapVal(cv)) && c.Known("blockmap-multilabel-empty-type") {
				c.Class("excluded_known_multilabel_empty_map")
				c.Done(false, "")
				return
			}
			if msg := consistent(av, cv, "result"); msg != "" {
				c.Failf("unknown-for-each-inconsistent", "abstract result %#v is not consistent with the concrete result %#v: %s", av, cv, msg)
			}
			if unknownPresent {
				c.Class("unknown_dynamic_present")
			}
			c.Done(unknownPresent && knownNeighbour && sizeNotOne, src+"|"+kind)
		})
}
