package props

import (
	"fmt"
	"runtime"
	"sort"
	"strings"
	"sync"
	"sync/atomic"
	"testing"

	"github.com/hashicorp/hcl/v2"
	"github.com/hashicorp/hcl/v2/ext/dynblock"
	"github.com/hashicorp/hcl/v2/hcldec"
	"github.com/hashicorp/hcl/v2/hclsyntax"
	hcljson "github.com/hashicorp/hcl/v2/json"
	"github.com/zclconf/go-cty/cty"
	"pgregory.net/rapid"

	"verifharness/ast"
	"verifharness/gen"
	"verifharness/hx"
	"verifharness/render"
)

// specForTree derives a decoding specification that fits a body tree.
func specForTree(b *ast.Body, depth int) hcldec.Spec {
	obj := hcldec.ObjectSpec{}
	for _, a := range b.Attrs() {
		obj[a.Name] = &hcldec.AttrSpec{Name: a.Name, Type: cty.DynamicPseudoType}
	}
	byType := map[string][]ast.Block{}
	var order []string
	for _, bl := range b.Blocks() {
		if _, ok := byType[bl.Type]; !ok {
			order = append(order, bl.Type)
		}
		byType[bl.Type] = append(byType[bl.Type], bl)
	}
	for _, typ := range order {
		if _, clash := obj[typ]; clash {
			continue
		}
		bls := byType[typ]
		// nested spec from the union of the first block's content (others may not fit: errors are fine)
		nested := hcldec.Spec(hcldec.ObjectSpec{})
		if depth < 2 {
			nested = specForTree(bls[0].Body, depth+1)
		}
		nl := len(bls[0].Labels)
		if nl == 0 {
			obj[typ] = &hcldec.BlockTupleSpec{TypeName: typ, Nested: nested}
		} else {
			// spare capacity: an append into the shared backing array would be a data race
			names := make([]string, nl, nl+4)
			for i := range names {
				names[i] = fmt.Sprintf("l%d", i)
			}
			obj[typ] = &hcldec.BlockObjectSpec{TypeName: typ, LabelNames: names, Nested: nested}
		}
	}
	return obj
}

type c17op struct {
	kind   int // 0 Value 1 Variables 2 Content 3 PartialContent 4 Decode 5 PartialContent(one type) then PartialContent(shared schema) on the remainder
	target int // index of the expression
	yield  int // number of Gosched calls before the op
}

type c17result struct {
	val   string
	diags string
	extra string
}

func (r c17result) String() string { return r.val + " | " + r.diags + " | " + r.extra }

func contentDump(c *hcl.BodyContent) string {
	if c == nil {
		return "nil"
	}
	var names []string
	for n := range c.Attributes {
		names = append(names, n)
	}
	sort.Strings(names)
	var sb strings.Builder
	sb.WriteString(strings.Join(names, ","))
	for _, b := range c.Blocks {
		fmt.Fprintf(&sb, ";%s%q", b.Type, b.Labels)
	}
	return sb.String()
}

func traversalsDump(trs []hcl.Traversal) string {
	var parts []string
	for _, tr := range trs {
		parts = append(parts, travKey(tr))
	}
	return strings.Join(parts, ",")
}

func TestC17_Concurrent(t *testing.T) {
	hx.Run(t, "C17", "Concurrent", 1500,
		"a parsed artefact (native expression rich in splats, native body, JSON body, dynblock-expanded body) shared by 2..16 goroutines, each with its own EvalContext (optionally children of one shared parent) holding different values of the same types, each running a random sequence of Value / Variables / Content / PartialContent / hcldec.Decode / (dynblock bodies) PartialContent of one block type followed by PartialContent of the remainder with a schema object shared by all goroutines with random yields, under GOMAXPROCS 1/2/16, built with -race; oracle: no race report, and every concurrent result equals the result of the same call executed alone beforehand; non-trivial = >=2 goroutines evaluate the same splat-bearing expression at overlapping times (atomic in-flight counter); distinct by (artefact, plan)",
		func(c *hx.Case) {
			t := c.T
			base := gen.DrawScope(t, gen.ScopeOpts{Nulls: 14})
			kind := rapid.SampledFrom([]int{0, 0, 0, 1, 1, 2, 3, 3, 4}).Draw(t, "artefact")
			var exprs []hcl.Expression
			var body hcl.Body
			// the sources, so that a second, untouched copy of the artefact can be parsed: the
			// "alone" baseline must not warm up anything inside the copy the goroutines share
			var exprSrcs []string
			var jsonSrc, nativeSrc string
			var spec hcldec.Spec
			var schema *hcl.BodySchema
			hasSplat := false
			switch kind {
			case 4:
				// a splat whose per-element part depends on the context (a computed index after
				// the splat marker): what one goroutine's context makes of it must not reach another
				c.Class("artefact_context_dependent_splat")
				hasSplat = true
				pool := []string{"objs[*][k]", "objs[*].vals[i]", "[for o in objs[*][k] : o]", "len(objs[*][k])", "objs[*][k] == []", "{r = objs[*].vals[i]}",
					"objs[*].vals[i][*]", "[objs[*][k], objs[*].vals[i]]", "one[*][k]", "one[*].vals[i]", "objs[*][\"${k}\"]", "c1 ? objs[*][k] : null"}
				n := rapid.IntRange(1, 2).Draw(t, "nexprs")
				for i := 0; i < n; i++ {
					src := rapid.SampledFrom(pool).Draw(t, "ctxsplat")
					e, diags := parseExprSrc(src)
					if diags.HasErrors() {
						c.Failf("parse-error", "%s", diagStr(diags))
					}
					exprs = append(exprs, e)
					exprSrcs = append(exprSrcs, src)
					c.Set(fmt.Sprintf("expr%d", i), src)
				}
			case 0:
				c.Class("artefact_expression")
				g := gen.NewEG(t, base, gen.ExprOpts{IllTyped: 14})
				n := rapid.IntRange(1, 3).Draw(t, "nexprs")
				for i := 0; i < n; i++ {
					// make splats likely: wrap a generated splat inside something else half of the time
					var node ast.Node
					if rapid.IntRange(0, 3).Draw(t, "splatheavy") > 0 {
						node = g.SplatHeavy()
					} else {
						node = g.Expr(rapid.SampledFrom([]cty.Type{cty.EmptyTuple, cty.List(cty.String), cty.DynamicPseudoType}).Draw(t, "want"))
					}
					src, _ := render.Expression(node, render.Fixed{}, render.Opts{})
					e, diags := parseExprSrc(src)
					if diags.HasErrors() {
						c.Failf("parse-error", "%s", diagStr(diags))
					}
					if nodeKinds(node)["Splat"] {
						hasSplat = true
					}
					exprs = append(exprs, e)
					exprSrcs = append(exprSrcs, src)
					c.Set(fmt.Sprintf("expr%d", i), src)
				}
			default:
				tree := drawConfig(t, base, 2, gen.ExprOpts{IllTyped: 14, Budget: 10, MaxDepth: 3})
				spec = specForTree(tree, 0)
				schema = schemaFor(tree)
				if kind == 3 {
					// a body with real `dynamic` blocks, decoded under a spec built for it
					ms := gen.DrawSpec(t, gen.SpecOpts{Depth: 2, AttrNames: specAttrPool, BlockTypes: specBlockPool, BlockBias: 40})
					relaxCounts(ms)
					dg := &dynGen{t: t, sc: base, feat: map[string]bool{}, dynRate: 1, clean: true}
					for _, name := range base.Names {
						v := base.Vals[name]
						if v.IsKnown() && !v.IsNull() && v.CanIterateElements() && plainIdent.MatchString(name) && !reservedName[name] {
							dg.preferForEach = append(dg.preferForEach, name)
						}
					}
					tree = ast.DynSyntax(gen.BodyFromSpec(t, ms, gen.BodyFromSpecOpts{Labels: []string{"a", "b", "l"}, Expr: dg.expr, Dyn: dg.dyn}))
					spec = toHCLDec(ms)
					schema = hcldec.ImpliedSchema(spec)
					if dg.nDyn > 0 {
						c.Class("dynamic_blocks_present")
					}
				}
				if kind == 2 {
					c.Class("artefact_json_body")
					// JSON body: attributes as template strings referring to scope variables
					var parts []string
					for i, name := range base.Names {
						if i > 3 {
							break
						}
						parts = append(parts, fmt.Sprintf("%q: %q", "a"+fmt.Sprint(i), "${"+name+"}"))
					}
					nAttrs := len(parts)
					blkPart := `"blk": [{"x": "${` + firstName(base) + `}"}, {"x": 1}]`
					if rapid.Bool().Draw(t, "blk_as_object") {
						blkPart = `"blk": {"x": "${` + firstName(base) + `}"}`
					}
					at := rapid.IntRange(0, len(parts)).Draw(t, "blk_at")
					ordered := append(append(append([]string{}, parts[:at]...), blkPart), parts[at:]...)
					src := "{" + strings.Join(ordered, ",") + "}"
					c.Set("json", src)
					jsonSrc = src
					f, diags := hcljson.Parse([]byte(src), "t.json")
					if diags.HasErrors() {
						c.Failf("parse-error", "%s", diagStr(diags))
					}
					body = f.Body
					o := hcldec.ObjectSpec{"blk": &hcldec.BlockTupleSpec{TypeName: "blk", Nested: hcldec.ObjectSpec{"x": &hcldec.AttrSpec{Name: "x", Type: cty.DynamicPseudoType}}}}
					sch := &hcl.BodySchema{Blocks: []hcl.BlockHeaderSchema{{Type: "blk"}}}
					for i := 0; i < nAttrs; i++ {
						n := "a" + fmt.Sprint(i)
						o[n] = &hcldec.AttrSpec{Name: n, Type: cty.DynamicPseudoType}
						sch.Attributes = append(sch.Attributes, hcl.AttributeSchema{Name: n})
					}
					spec, schema = o, sch
				} else {
					src, _ := render.File(tree, rchooser{t}, drawBodyOpts(t))
					c.Set("source", src)
					nativeSrc = src
					f, diags := hclsyntax.ParseConfig([]byte(src), "t.hcl", hcl.InitialPos)
					if diags.HasErrors() {
						c.Failf("parse-error", "%s", diagStr(diags))
					}
					body = f.Body
					if kind == 3 {
						c.Class("artefact_dynblock_body")
						body = dynblock.Expand(body, evalCtx(base))
						// the shared schema has spare capacity, as a schema built with append has
						blocks := make([]hcl.BlockHeaderSchema, len(schema.Blocks), len(schema.Blocks)+4)
						copy(blocks, schema.Blocks)
						schema.Blocks = blocks
					} else {
						c.Class("artefact_native_body")
					}
					for _, a := range f.Body.(*hclsyntax.Body).Attributes {
						exprs = append(exprs, a.Expr)
						if strings.Contains(string(a.Expr.Range().SliceBytes([]byte(src))), "*") {
							hasSplat = true
						}
					}
					sort.Slice(exprs, func(i, j int) bool { return exprs[i].Range().Start.Byte < exprs[j].Range().Start.Byte })
				}
			}
			type genBlock struct {
				body hcl.Body
				spec hcldec.Spec
			}
			var freshBlocks func(b hcl.Body) []genBlock
			freshBlocks = func(b hcl.Body) []genBlock {
				// the blocks a dynblock body generates, extracted once and then shared
				var out []genBlock
				if kind != 3 || b == nil {
					return nil
				}
				cnt, _, _ := b.PartialContent(hcldec.ImpliedSchema(spec))
				childSpecs := hcldec.ChildBlockTypes(spec)
				for _, bl := range cnt.Blocks {
					if cs, ok := childSpecs[bl.Type]; ok {
						out = append(out, genBlock{bl.Body, cs})
					}
				}
				return out
			}
			fresh := func() ([]hcl.Expression, hcl.Body) {
				var es []hcl.Expression
				var b hcl.Body
				switch {
				case len(exprSrcs) > 0:
					for _, src := range exprSrcs {
						e, _ := parseExprSrc(src)
						es = append(es, e)
					}
				case jsonSrc != "":
					f, _ := hcljson.Parse([]byte(jsonSrc), "t.json")
					b = f.Body
				default:
					f, _ := hclsyntax.ParseConfig([]byte(nativeSrc), "t.hcl", hcl.InitialPos)
					b = f.Body
					if kind == 3 {
						b = dynblock.Expand(b, evalCtx(base))
					}
					for _, a := range f.Body.(*hclsyntax.Body).Attributes {
						es = append(es, a.Expr)
					}
					sort.Slice(es, func(i, j int) bool { return es[i].Range().Start.Byte < es[j].Range().Start.Byte })
				}
				return es, b
			}
			baseBlocks := freshBlocks(body)
			// a remaining body (what PartialContent returns for further processing), derived once
			// and then shared by all goroutines: the first step consumes one name of the schema
			var firstSchema *hcl.BodySchema
			if schema != nil {
				switch {
				case len(schema.Attributes) > 0 && (len(schema.Blocks) == 0 || rapid.Bool().Draw(t, "first_step_attr")):
					firstSchema = &hcl.BodySchema{Attributes: []hcl.AttributeSchema{{Name: schema.Attributes[rapid.IntRange(0, len(schema.Attributes)-1).Draw(t, "first_attr")].Name}}}
				case len(schema.Blocks) > 0:
					firstSchema = &hcl.BodySchema{Blocks: []hcl.BlockHeaderSchema{schema.Blocks[rapid.IntRange(0, len(schema.Blocks)-1).Draw(t, "first_block")]}}
				}
			}
			restOf := func(b hcl.Body) hcl.Body {
				if b == nil || firstSchema == nil {
					return nil
				}
				_, rest, _ := b.PartialContent(firstSchema)
				return rest
			}
			// goroutines and their contexts
			G := rapid.SampledFrom([]int{2, 2, 4, 8, 16}).Draw(t, "goroutines")
			sharedParent := rapid.Bool().Draw(t, "shared_parent")
			var parent *hcl.EvalContext
			if sharedParent {
				parent = &hcl.EvalContext{Functions: ctyFuncs, Variables: map[string]cty.Value{}}
			}
			ctxs := make([]*hcl.EvalContext, G)
			for gi := 0; gi < G; gi++ {
				vars := map[string]cty.Value{}
				for _, name := range base.Names {
					if gi == 0 {
						vars[name] = base.Vals[name]
					} else {
						vars[name] = gen.ValueOf(base.Vals[name].Type(), gen.ValOpts{Nulls: 14}).Draw(t, "ctxval")
					}
				}
				if kind == 4 {
					oty := cty.Object(map[string]cty.Type{"id": cty.Number, "name": cty.String, "vals": cty.Tuple([]cty.Type{cty.Number, cty.String})})
					mk := func(j int) cty.Value {
						return cty.ObjectVal(map[string]cty.Value{"id": cty.NumberIntVal(int64(j)), "name": cty.StringVal(fmt.Sprint("n", j)), "vals": cty.TupleVal([]cty.Value{cty.NumberIntVal(int64(j)), cty.StringVal("v")})})
					}
					vars["objs"] = rapid.SampledFrom([]cty.Value{cty.ListValEmpty(oty), cty.ListValEmpty(oty), cty.UnknownVal(cty.List(oty)), cty.SetValEmpty(oty), cty.ListVal([]cty.Value{mk(1), mk(2)}), cty.EmptyTupleVal, cty.UnknownVal(cty.Set(oty))}).Draw(t, "objs")
					vars["one"] = rapid.SampledFrom([]cty.Value{mk(3), cty.NullVal(oty), cty.UnknownVal(oty)}).Draw(t, "one")
					vars["k"] = cty.StringVal(rapid.SampledFrom([]string{"id", "name", "vals"}).Draw(t, "k"))
					vars["i"] = cty.NumberIntVal(int64(rapid.IntRange(0, 1).Draw(t, "i")))
					vars["c1"] = cty.True
				}
				if sharedParent {
					ctxs[gi] = parent.NewChild()
					ctxs[gi].Variables = vars
				} else {
					ctxs[gi] = &hcl.EvalContext{Functions: ctyFuncs, Variables: vars}
				}
			}
			// plans
			plans := make([][]c17op, G)
			for gi := range plans {
				n := rapid.IntRange(1, 6).Draw(t, "nops")
				for i := 0; i < n; i++ {
					op := c17op{yield: rapid.IntRange(0, 3).Draw(t, "yield")}
					if len(exprs) > 0 && (body == nil || rapid.IntRange(0, 2).Draw(t, "onexpr") > 0) {
						op.kind = rapid.IntRange(0, 1).Draw(t, "exprop")
						if rapid.IntRange(0, 3).Draw(t, "mostlyvalue") > 0 {
							op.kind = 0
						}
						op.target = rapid.IntRange(0, len(exprs)-1).Draw(t, "target")
					} else if body != nil {
						op.kind = rapid.IntRange(2, 4).Draw(t, "bodyop")
						if kind == 3 && len(schema.Blocks) > 0 && rapid.Bool().Draw(t, "remain_op") {
							// chained processing of a dynblock body with a schema object shared by all goroutines
							op.kind = 5
							op.target = rapid.IntRange(0, len(schema.Blocks)-1).Draw(t, "first_type")
						}
						if firstSchema != nil && rapid.IntRange(0, 2).Draw(t, "shared_rest_op") == 0 {
							// a request on the remaining body that all goroutines share
							op.kind = rapid.IntRange(7, 9).Draw(t, "restop")
						}
						if kind == 3 && len(baseBlocks) > 0 && rapid.Bool().Draw(t, "shared_block_op") {
							// decode one of the generated blocks, which all goroutines share
							op.kind = 6
							op.target = rapid.IntRange(0, len(baseBlocks)-1).Draw(t, "block")
						}
					}
					plans[gi] = append(plans[gi], op)
				}
			}
			run := func(exprs []hcl.Expression, body hcl.Body, blocks []genBlock, rest hcl.Body, gi int, op c17op) (res c17result) {
				defer func() {
					if r := recover(); r != nil {
						res = c17result{val: fmt.Sprintf("PANIC %v", r)}
					}
				}()
				switch op.kind {
				case 0:
					v, d := exprs[op.target].Value(ctxs[gi])
					return c17result{val: v.GoString(), diags: normDiags(d)}
				case 1:
					return c17result{val: traversalsDump(exprs[op.target].Variables())}
				case 2:
					cnt, d := body.Content(schema)
					return c17result{val: contentDump(cnt), diags: normDiags(d)}
				case 3:
					cnt, rest, d := body.PartialContent(schema)
					extra := ""
					if rest != nil {
						attrs, _ := rest.JustAttributes()
						var ns []string
						for n := range attrs {
							ns = append(ns, n)
						}
						sort.Strings(ns)
						extra = strings.Join(ns, ",")
					}
					return c17result{val: contentDump(cnt), diags: normDiags(d), extra: extra}
				case 6:
					if op.target >= len(blocks) {
						return c17result{val: "no such block"}
					}
					// evaluate the attributes of the generated block (its expressions are wrapped so
					// that the iterator is visible) in this goroutine's context
					cnt, _, _ := blocks[op.target].body.PartialContent(hcldec.ImpliedSchema(blocks[op.target].spec))
					var names []string
					for n := range cnt.Attributes {
						names = append(names, n)
					}
					sort.Strings(names)
					var vals, dgs []string
					for _, n := range names {
						v, d := cnt.Attributes[n].Expr.Value(ctxs[gi])
						vals = append(vals, n+"="+v.GoString())
						dgs = append(dgs, normDiags(d))
					}
					return c17result{val: strings.Join(vals, ";"), diags: strings.Join(dgs, "\n")}
				case 7, 8, 9:
					if rest == nil {
						return c17result{val: "no remainder"}
					}
					switch op.kind {
					case 7:
						cnt, rest2, d := rest.PartialContent(schema)
						extra := ""
						if rest2 != nil {
							attrs, _ := rest2.JustAttributes()
							var ns []string
							for n := range attrs {
								ns = append(ns, n)
							}
							sort.Strings(ns)
							extra = strings.Join(ns, ",")
						}
						return c17result{val: contentDump(cnt), diags: normDiags(d), extra: extra}
					case 8:
						cnt, d := rest.Content(schema)
						return c17result{val: contentDump(cnt), diags: normDiags(d)}
					default:
						v, d := hcldec.Decode(rest, spec, ctxs[gi])
						lines := strings.Split(normDiags(d), "\n")
						sort.Strings(lines)
						return c17result{val: v.GoString(), diags: strings.Join(lines, "\n")}
					}
				case 5:
					first := &hcl.BodySchema{Blocks: []hcl.BlockHeaderSchema{schema.Blocks[op.target]}}
					c1, rest, d1 := body.PartialContent(first)
					if rest == nil {
						return c17result{val: contentDump(c1), diags: normDiags(d1), extra: "no remainder"}
					}
					c2, _, d2 := rest.PartialContent(schema)
					return c17result{val: contentDump(c1) + " THEN " + contentDump(c2), diags: normDiags(d1) + "\n" + normDiags(d2)}
				default:
					v, d := hcldec.Decode(body, spec, ctxs[gi])
					// ObjectSpec is a Go map: the order of diagnostics is not deterministic even
					// sequentially, so they are compared as a multiset
					lines := strings.Split(normDiags(d), "\n")
					sort.Strings(lines)
					return c17result{val: v.GoString(), diags: strings.Join(lines, "\n")}
				}
			}
			// expected results: each call alone, beforehand
			expected := make([][]c17result, G)
			for gi := range plans {
				for _, op := range plans[gi] {
					// the baseline of every call: the same call on an artefact nothing else has
					// been asked of (a fresh parse), so that no earlier call can have left anything
					// behind in it
					fe, fb := fresh()
					var rest hcl.Body
					if op.kind >= 7 {
						rest = restOf(fb)
					}
					var fblocks []genBlock
					if op.kind == 6 {
						fblocks = freshBlocks(fb)
					}
					expected[gi] = append(expected[gi], run(fe, fb, fblocks, rest, gi, op))
					if strings.HasPrefix(expected[gi][len(expected[gi])-1].val, "PANIC") {
						c.Failf("panic-sequential", "sequential call panicked: %s", expected[gi][len(expected[gi])-1].val)
					}
				}
			}
			procs := rapid.SampledFrom([]int{1, 2, 16}).Draw(t, "gomaxprocs")
			old := runtime.GOMAXPROCS(procs)
			defer runtime.GOMAXPROCS(old)
			c.Class(fmt.Sprintf("gomaxprocs_%d", procs))
			got := make([][]c17result, G)
			sharedExprs, sharedBody := fresh()
			sharedBlocks := freshBlocks(sharedBody)
			sharedRest := restOf(sharedBody)
			if sharedRest != nil {
				c.Class("shared_remaining_body")
			}
			var inflight, maxInflight int32
			var wg sync.WaitGroup
			start := make(chan struct{})
			for gi := 0; gi < G; gi++ {
				wg.Add(1)
				go func(gi int) {
					defer wg.Done()
					<-start
					for _, op := range plans[gi] {
						for y := 0; y < op.yield; y++ {
							runtime.Gosched()
						}
						n := atomic.AddInt32(&inflight, 1)
						for {
							m := atomic.LoadInt32(&maxInflight)
							if n <= m || atomic.CompareAndSwapInt32(&maxInflight, m, n) {
								break
							}
						}
						got[gi] = append(got[gi], run(sharedExprs, sharedBody, sharedBlocks, sharedRest, gi, op))
						atomic.AddInt32(&inflight, -1)
					}
				}(gi)
			}
			close(start)
			wg.Wait()
			var planDesc []string
			for gi := range plans {
				for i, op := range plans[gi] {
					planDesc = append(planDesc, fmt.Sprintf("g%d:%d/%d", gi, op.kind, op.target))
					if got[gi][i] != expected[gi][i] {
						c.Set("plan", planDesc)
						c.Failf("concurrent-result-differs", "goroutine %d op %d (kind %d target %d): concurrent result %s, alone %s", gi, i, op.kind, op.target, got[gi][i], expected[gi][i])
					}
				}
			}
			if maxInflight >= 2 {
				c.Class("overlap_observed")
			}
			c.Done(hasSplat && maxInflight >= 2, fmt.Sprintf("%d|%v|%s", kind, c17fingerprint(exprs, body), strings.Join(planDesc, ",")))
		})
}

func firstName(sc *gen.Scope) string {
	if len(sc.Names) == 0 {
		return "undefined_var"
	}
	return sc.Names[0]
}

func c17fingerprint(exprs []hcl.Expression, body hcl.Body) string {
	var sb strings.Builder
	for _, e := range exprs {
		sb.WriteString(dumpSyntax(e))
	}
	return sb.String()
}
