package props

import (
	"testing"

	"github.com/hashicorp/hcl/v2"
	"github.com/hashicorp/hcl/v2/hclsyntax"
	"github.com/hashicorp/hcl/v2/hclwrite"
	"pgregory.net/rapid"

	"verifharness/gen"
	"verifharness/hx"
	"verifharness/render"
)

// invalidExprs are texts that are not expressions and stay invalid wherever an
// expression is expected: every one is a balanced bracket construct with a defect inside,
// so it cannot combine with its neighbours into something valid.
var invalidExprs = []string{"[1 2]", "(1 2)", "f(1 2)", "{a = 1 b = 2}", "[for x in y x]", "(1 +)", "[,]", "x[1 2]", "(true ? 1)", "{for k, v in y : k v}", "f(,)", "[1, 2 3]", "(*)", "x.0.(1)"}

// TestC15_Injection: an invalid sub-expression anywhere makes the whole input invalid.
func TestC15_Injection(t *testing.T) {
	hx.Run(t, "C15", "Injection", 8000,
		"negative grammar oracle: a valid configuration (G-EXPR expressions incl. for / object-for keys, calls, indexes, conditionals, templates with interpolations and directives, heredocs) in which the source text of one randomly chosen node in expression position (any depth) is replaced by a text that is not an expression in any context (balanced bracket constructs with a defect inside: `[1 2]`, `f(1 2)`, `{a = 1 b = 2}`, ...); oracle: ParseConfig must report at least one error diagnostic (an error inside a nested construct must not get lost in recovery), deterministic, in-bounds diagnostics, and hclwrite.ParseConfig must not panic on the same input; non-trivial = the replaced node is nested >= 2 levels below an attribute; distinct by input",
		caseC15Injection)
}

func caseC15Injection(c *hx.Case) {
	t := c.T
	sc := gen.DrawScope(t, gen.ScopeOpts{Nulls: 10})
	tree := drawConfig(t, sc, 2, gen.ExprOpts{HostileLits: true, Budget: 14, MaxDepth: 4})
	src, _ := render.File(tree, rchooser{t}, drawBodyOpts(t))
	f, diags := hclsyntax.ParseConfig([]byte(src), "t.hcl", hcl.InitialPos)
	if diags.HasErrors() {
		c.Failf("parse-error", "%s", diagStr(diags))
	}
	ranges := expressionRanges(c, []byte(src), f.Body.(*hclsyntax.Body))
	if len(ranges) == 0 {
		c.Class("no_expression")
		c.Done(false, "")
		return
	}
	r := ranges[rapid.IntRange(0, len(ranges)-1).Draw(t, "which")]
	bad := rapid.SampledFrom(invalidExprs).Draw(t, "bad")
	depth := 0
	for _, o := range ranges {
		if o != r && o.Start.Byte <= r.Start.Byte && o.End.Byte >= r.End.Byte {
			depth++
		}
	}
	mut := src[:r.Start.Byte] + bad + src[r.End.Byte:]
	c.Set("valid_source", src)
	c.Set("replaced", src[r.Start.Byte:r.End.Byte])
	c.SetBytes("input", []byte(mut))
	c.Class("injected_" + bad)
	var mf *hcl.File
	var mdiags hcl.Diagnostics
	c.Guard("ParseConfig", func() { mf, mdiags = hclsyntax.ParseConfig([]byte(mut), "t.hcl", hcl.InitialPos) })
	if mf == nil || mf.Body == nil {
		c.Failf("nil-result", "ParseConfig returned a nil file or body")
	}
	checkDiags(c, "ParseConfig", mdiags, len(mut), hcl.InitialPos)
	if !mdiags.HasErrors() {
		c.Failf("error-not-reported", "the sub-expression %q at %s was replaced by %q, which is not an expression, and ParseConfig reports no error", src[r.Start.Byte:r.End.Byte], r, bad)
	}
	_, d2 := hclsyntax.ParseConfig([]byte(mut), "t.hcl", hcl.InitialPos)
	if diagsDump(d2) != diagsDump(mdiags) {
		c.Failf("nondeterministic", "ParseConfig reported different diagnostics for the same input")
	}
	var wd hcl.Diagnostics
	c.Guard("hclwrite.ParseConfig", func() {
		var wf *hclwrite.File
		wf, wd = hclwrite.ParseConfig([]byte(mut), "t.hcl", hcl.InitialPos)
		if !wd.HasErrors() {
			_ = wf.Bytes()
		}
	})
	if !wd.HasErrors() {
		c.Failf("error-not-reported", "hclwrite.ParseConfig accepts the input with the invalid sub-expression %q", bad)
	}
	exerciseBody(c, "native", mf.Body, len(mut), false, 0)
	if depth >= 2 {
		c.Class("nested_deeply")
	}
	c.Done(depth >= 2, mut)
}

func FuzzC15_Injection(f *testing.F) { hx.Fuzz(f, "C15", "Injection", caseC15Injection) }
