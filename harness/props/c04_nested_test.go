package props

import (
	"fmt"
	"testing"

	"github.com/hashicorp/hcl/v2"
	"github.com/hashicorp/hcl/v2/ext/dynblock"
	"github.com/hashicorp/hcl/v2/hclsyntax"
	"github.com/zclconf/go-cty/cty"
	"pgregory.net/rapid"

	"verifharness/ast"
	"verifharness/hx"
	"verifharness/ref"
	"verifharness/render"
)

// C04 below the top level: the bodies handed out inside hcl.Block values are Body
// implementations of their own (a native child body, a JSON sub-object, a merged body's
// child, the per-iteration body of a generated block, the "everything is unknown" body of
// a block generated from an unknown for_each), and the accounting laws hold for each.

// dynify rewrites some blocks of b into `dynamic` blocks with a literal (or unknown)
// for_each and literal labels, and returns the tree to render together with the tree the
// expansion denotes.
func dynify(t *rapid.T, b *ast.Body, feats map[string]bool, srcOf map[*ast.Body]*ast.Body) (src, model *ast.Body) {
	src, model = &ast.Body{}, &ast.Body{}
	srcOf[model] = src
	for _, it := range b.Items {
		bl, isBlock := it.(ast.Block)
		if !isBlock {
			src.Items = append(src.Items, it)
			model.Items = append(model.Items, it)
			continue
		}
		sb, mb := dynify(t, bl.Body, feats, srcOf)
		mode := rapid.IntRange(0, 6).Draw(t, "dynmode")
		if mode <= 1 {
			s, m := bl, bl
			s.Body, m.Body = sb, mb
			src.Items = append(src.Items, s)
			model.Items = append(model.Items, m)
			continue
		}
		d := ast.Dyn{Type: bl.Type, Content: sb}
		if len(bl.Labels) > 0 {
			d.Labels = []ast.Node{}
			for _, l := range bl.Labels {
				if l.Text == "" {
					d.Labels = append(d.Labels, ast.Template{})
				} else {
					d.Labels = append(d.Labels, ast.Template{Parts: []ast.TPart{ast.TLit{Text: l.Text}}})
				}
			}
		}
		if rapid.IntRange(0, 3).Draw(t, "iterator") == 0 {
			d.Iterator = "it"
		}
		k := 0
		switch mode {
		case 2:
			feats["dynamic_empty"] = true
		case 3:
			k = 1
		case 4:
			k = 2
		default:
			feats["dynamic_unknown"] = true
			d.ForEach = ast.Var{Name: "unk"}
			m := bl
			m.Body = mb
			m.Unknown = true
			src.Items = append(src.Items, d)
			model.Items = append(model.Items, m)
			continue
		}
		feats["dynamic_known"] = true
		var elems []ast.Node
		for i := 0; i < k; i++ {
			elems = append(elems, ast.Template{Parts: []ast.TPart{ast.TLit{Text: fmt.Sprintf("e%d", i)}}})
		}
		d.ForEach = ast.Tuple{Elems: elems}
		src.Items = append(src.Items, d)
		for i := 0; i < k; i++ {
			m := bl
			m.Body = mb
			model.Items = append(model.Items, m)
		}
		if k == 0 {
			m := bl
			m.Body = mb
			m.Phantom = true
			model.Items = append(model.Items, m)
		}
	}
	return src, model
}

func TestC04_Nested(t *testing.T) {
	hx.Run(t, "C04", "Nested", 5000,
		"logical body as in Laws, with about two thirds of its blocks (at every depth) written as `dynamic` blocks with a literal for_each of 0..2 elements or an unknown for_each, literal labels and optionally an iterator name; realised as native, JSON, merged, and dynblock.Expand of the native text with the dynamic blocks; oracle = reference body model applied (L1-L4) to the expanded top-level body AND to the body of every block it hands out, two levels deep (child bodies, per-iteration bodies, the all-unknown body of a block generated from an unknown for_each, whose attribute values must all be unknown); non-trivial = laws judged on a nested body that has matching and non-matching items, and a dynamic block present; distinct by (tree dump, schema)",
		caseC04Nested)
}

func caseC04Nested(c *hx.Case) {
	t := c.T
	tree := drawStructBody(t, 2, false)
	if len(tree.Blocks()) == 0 {
		tree.Items = append(tree.Items, ast.Block{Type: sBlockTypes[0], Body: drawStructBody(t, 1, false)})
	}
	feats := map[string]bool{}
	srcOf := map[*ast.Body]*ast.Body{}
	srcTree, model := dynify(t, tree, feats, srcOf)
	featClasses(c, "", feats)
	c.Set("tree", ast.DumpBody(srcTree))

	var impls []implBody
	// the static tree in every implementation (nested bodies of native / JSON / merged / identity expansion)
	for _, im := range realise(c, tree) {
		im.name = "static-" + im.name
		impls = append(impls, im)
	}
	staticImpls := len(impls)
	// the expansion of the text with dynamic blocks
	src, _ := render.File(ast.DynSyntax(srcTree), rchooser{t}, drawBodyOpts(t))
	c.Set("dynamic_source", src)
	df, diags := hclsyntax.ParseConfig([]byte(src), "d.hcl", hcl.InitialPos)
	if diags.HasErrors() {
		c.Failf("parse-error", "rendering with dynamic blocks does not parse: %s", diagStr(diags))
	}
	ctx := &hcl.EvalContext{Variables: map[string]cty.Value{
		"unk": rapid.SampledFrom([]cty.Value{cty.DynamicVal, cty.UnknownVal(cty.List(cty.String)), cty.UnknownVal(cty.Map(cty.Number)), cty.UnknownVal(cty.Set(cty.String))}).Draw(t, "unk"),
	}}
	impls = append(impls, implBody{name: "expanded", body: dynblock.Expand(df.Body, ctx), dyn: true, rawHasBlocks: func(tr *ast.Body) bool {
		sb := srcOf[tr]
		if sb == nil {
			return false
		}
		for _, it := range sb.Items {
			if _, isAttr := it.(ast.Attr); !isAttr {
				return true
			}
		}
		return false
	}})

	judged := 0
	interesting := false
	var walk func(im implBody, tr *ast.Body, depth int, path string)
	walk = func(im implBody, tr *ast.Body, depth int, path string) {
		S := drawRefSchema(t, tr, !im.json)
		k := rapid.IntRange(2, 3).Draw(t, "k")
		parts := splitSchema(t, S, k)
		im2 := im
		im2.name = im.name + path
		lawsOn(c, im2, tr, S, parts)
		judged++
		if depth > 0 {
			mExh := ref.NewView(tr, false).Exhaustive(S)
			_, rest := ref.NewView(tr, false).Partial(S)
			la, lb := rest.Leftovers()
			if len(mExh.Attrs)+len(mExh.Blocks) > 0 && len(la)+len(lb) > 0 {
				interesting = true
			}
		}
		if depth >= 2 {
			return
		}
		// descend: obtain the block bodies through an exhaustive request that fits the level
		full := exhaustiveSchemaOf(tr)
		var content *hcl.BodyContent
		var d hcl.Diagnostics
		c.Guard(im2.name+" Content(exhaustive)", func() { content, d = im.body.Content(toHCLSchema(full)) })
		want := ref.NewView(tr, false).Exhaustive(full)
		if d.HasErrors() != want.Err || len(content.Blocks) != len(want.Blocks) {
			c.Failf("nested-exhaustive", "%s: exhaustive request: error=%v (%s) %d blocks, model error=%v %d blocks", im2.name, d.HasErrors(), diagStr(d), len(content.Blocks), want.Err, len(want.Blocks))
		}
		// per type, in order
		byType := map[string][]*hcl.Block{}
		for _, b := range content.Blocks {
			byType[b.Type] = append(byType[b.Type], b)
		}
		seen := map[string]int{}
		for _, wb := range want.Blocks {
			i := seen[wb.Type]
			seen[wb.Type]++
			if i >= len(byType[wb.Type]) {
				c.Failf("nested-exhaustive", "%s: block %s#%d missing", im2.name, wb.Type, i)
			}
			// not every nested body is walked: keep the case small
			if rapid.IntRange(0, 2).Draw(t, "descend") == 0 {
				continue
			}
			child := im
			child.body = byType[wb.Type][i].Body
			if wb.Unknown {
				child.vm = "unknown"
				c.Class("laws_on_unknown_body")
			} else if im.dyn && i >= 0 {
				c.Class("laws_on_generated_or_child_body")
			}
			walk(child, wb.Body, depth+1, fmt.Sprintf("%s/%s#%d", path, wb.Type, i))
		}
	}
	for i, im := range impls {
		tr := tree
		if i >= staticImpls {
			tr = model
		}
		walk(im, tr, 0, "")
	}
	c.Class(fmt.Sprintf("bodies_judged_%d", min(judged/5*5, 30)))
	hasDyn := feats["dynamic_known"] || feats["dynamic_unknown"] || feats["dynamic_empty"]
	c.Done(interesting && hasDyn, ast.DumpBody(srcTree))
}

func FuzzC04_Nested(f *testing.F) { hx.Fuzz(f, "C04", "Nested", caseC04Nested) }
