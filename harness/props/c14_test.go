package props

import (
	"bufio"
	"bytes"
	"fmt"
	"testing"
	"unicode/utf8"

	"github.com/apparentlymart/go-textseg/v15/textseg"
	"github.com/hashicorp/hcl/v2"
	"github.com/hashicorp/hcl/v2/hclsyntax"
	"github.com/zclconf/go-cty/cty"
	"pgregory.net/rapid"

	"verifharness/gen"
	"verifharness/hx"
	"verifharness/ref"
	"verifharness/render"
)

// drawProgram draws a valid configuration text.
func drawProgram(t *rapid.T) (string, *gen.Scope) {
	sc := gen.DrawScope(t, gen.ScopeOpts{Nulls: 12})
	tree := drawConfig(t, sc, 2, gen.ExprOpts{IllTyped: 10, HostileLits: true, Budget: 12, MaxDepth: 3})
	src, _ := render.File(tree, rchooser{t}, drawBodyOpts(t))
	return src, sc
}

// drawHostileInput draws an input for the totality / tiling checks.
func drawHostileInput(t *rapid.T) (string, string) {
	switch rapid.IntRange(0, 9).Draw(t, "inputkind") {
	case 0, 1:
		return gen.HostileBytes().Draw(t, "bytes"), "bytes"
	case 2:
		src, _ := drawProgram(t)
		return src, "valid"
	case 3:
		a, _ := drawProgram(t)
		b, _ := drawProgram(t)
		return a + b, "concat"
	default:
		src, _ := drawProgram(t)
		m, _ := gen.MutateHCL(t, src)
		return m, "mutant"
	}
}

func checkTiling(c *hx.Case, mode string, src []byte, toks hclsyntax.Tokens, start hcl.Pos) (clusterSplit bool) {
	skip := 0
	// a byte order mark is skipped only at the very beginning of a file (start byte 0)
	if start.Byte == 0 && bytes.HasPrefix(src, []byte("\xef\xbb\xbf")) {
		skip = 3
	}
	pt := ref.NewPosTable(src, skip)
	if len(toks) == 0 {
		c.Failf("no-tokens", "%s: no tokens at all (expected at least EOF)", mode)
	}
	pos := skip
	rel := func(p hcl.Pos) int { return p.Byte - start.Byte }
	lineTainted := -1  // line number (reference) on which a token boundary split a grapheme cluster
	swallowed := false // an identifier token contains ill-formed UTF-8 (known finding)
	glued := truncatedLead(src)
	posOff := false
	for i, tk := range toks {
		if tk.Type == hclsyntax.TokenIdent && !utf8.Valid(tk.Bytes) {
			swallowed = true
		}
		s, e := rel(tk.Range.Start), rel(tk.Range.End)
		if s < pos || e < s || e > len(src) {
			c.Failf("token-order", "%s: token %d %s has range [%d,%d) after position %d (len %d)", mode, i, tk.Type, s, e, pos, len(src))
		}
		if !bytes.Equal(src[s:e], tk.Bytes) {
			c.Failf("token-bytes", "%s: token %d %s bytes %q but source range holds %q", mode, i, tk.Type, tk.Bytes, src[s:e])
		}
		for _, b := range src[pos:s] {
			if b != ' ' && b != '\t' {
				c.Failf("gap-content", "%s: gap before token %d %s contains %q", mode, i, tk.Type, src[pos:s])
			}
		}
		if tk.Type == hclsyntax.TokenEOF {
			if i != len(toks)-1 {
				c.Failf("eof-not-last", "%s: EOF token at index %d of %d", mode, i, len(toks))
			}
			if s != e || e != len(src) {
				c.Failf("eof-position", "%s: EOF token has range [%d,%d), input length %d", mode, s, e, len(src))
			}
		}
		// positions
		for _, bp := range []struct {
			p   hcl.Pos
			off int
		}{{tk.Range.Start, s}, {tk.Range.End, e}} {
			wantLine := start.Line + pt.Line[bp.off]
			if !pt.Boundary[bp.off] {
				// a boundary inside "\r\n" still has an exact line
				lineTainted = pt.Line[bp.off]
				clusterSplit = true
			}
			if posOff {
				continue
			}
			if pt.Boundary[bp.off] && bp.p.Line != wantLine {
				if swallowed && c.Known("ident-swallows-illformed-utf8") {
					posOff = true
					continue
				}
				if glued && c.Known("illformed-lead-byte-glues-following-bytes") {
					posOff = true
					continue
				}
				c.Failf("line", "%s: token %d %s boundary at byte %d has line %d, reference %d", mode, i, tk.Type, bp.off, bp.p.Line, wantLine)
			}
			if pt.Boundary[bp.off] && pt.ColOK[bp.off] && lineTainted != pt.Line[bp.off] {
				wantCol := pt.Col[bp.off] + 1
				if pt.Line[bp.off] == 0 {
					wantCol = start.Column + pt.Col[bp.off]
				}
				if bp.p.Column != wantCol {
					if swallowed && c.Known("ident-swallows-illformed-utf8") {
						posOff = true
						continue
					}
					if glued && c.Known("illformed-lead-byte-glues-following-bytes") {
						posOff = true
						continue
					}
					c.Failf("column", "%s: token %d %s boundary at byte %d has column %d, reference %d", mode, i, tk.Type, bp.off, bp.p.Column, wantCol)
				}
			}
		}
		pos = e
	}
	if toks[len(toks)-1].Type != hclsyntax.TokenEOF {
		c.Failf("no-eof", "%s: stream does not end with EOF", mode)
	}
	if pos != len(src) {
		c.Failf("not-covered", "%s: tokens end at %d, input length %d", mode, pos, len(src))
	}
	return clusterSplit
}

// truncatedLead reports whether src contains a multi-byte lead byte that does not start a
// well-formed sequence (go-textseg then glues the bytes that follow into one "cluster").
func truncatedLead(src []byte) bool {
	for i := 0; i < len(src); {
		r, w := utf8.DecodeRune(src[i:])
		if r == utf8.RuneError && w <= 1 && src[i] >= 0xC0 {
			return true
		}
		i += w
	}
	return false
}

func drawStartPos(t *rapid.T) hcl.Pos {
	if rapid.Bool().Draw(t, "initialpos") {
		return hcl.InitialPos
	}
	return hcl.Pos{Line: rapid.IntRange(1, 50).Draw(t, "line"), Column: rapid.IntRange(1, 40).Draw(t, "col"), Byte: rapid.IntRange(0, 5000).Draw(t, "byte")}
}

func TestC14_Tiling(t *testing.T) {
	hx.Run(t, "C14", "Tiling", 20000,
		"byte string (G-MUT mutants of valid programs, concatenations, arbitrary bytes biased to multi-byte/combining characters, CR/LF mixtures, templates, heredocs) lexed in all three modes from a random start position; oracle = byte arithmetic + reference line/column counter (newlines and grapheme clusters via go-textseg); non-trivial = input has a multi-byte character and a newline; distinct by input",
		caseC14Tiling)
}

func caseC14Tiling(c *hx.Case) {
	t := c.T
	text, kind := drawHostileInput(t)
	src := []byte(text)
	c.SetBytes("input", []byte(text))
	c.Class("input_" + kind)
	start := drawStartPos(t)
	c.Set("start", fmt.Sprintf("%+v", start))
	split := false
	for _, m := range []struct {
		name string
		lex  func([]byte, string, hcl.Pos) (hclsyntax.Tokens, hcl.Diagnostics)
	}{{"LexConfig", hclsyntax.LexConfig}, {"LexExpression", hclsyntax.LexExpression}, {"LexTemplate", hclsyntax.LexTemplate}} {
		var toks hclsyntax.Tokens
		c.Guard(m.name, func() { toks, _ = m.lex(src, "t.hcl", start) })
		if checkTiling(c, m.name, src, toks, start) {
			split = true
		}
	}
	if split {
		c.Class("cluster_split_lines")
	}
	multi := false
	for _, b := range src {
		if b >= 0x80 {
			multi = true
		}
	}
	c.Done(multi && bytes.ContainsAny(src, "\n"), text)
}

func FuzzC14_Tiling(f *testing.F) { hx.Fuzz(f, "C14", "Tiling", caseC14Tiling) }

// TestC14_RangeScanner: hcl.RangeScanner ranges tile the input and carry faithful positions.
func TestC14_RangeScanner(t *testing.T) {
	hx.Run(t, "C14", "RangeScanner", 10000,
		"hostile byte string scanned by hcl.RangeScanner with bufio.ScanLines / ScanWords / textseg.ScanGraphemeClusters; oracle: Range().SliceBytes(src)==Bytes(), ranges in order without overlap, start/end positions equal the reference counter; non-trivial = multi-byte character and newline; distinct by input",
		func(c *hx.Case) {
			t := c.T
			text := gen.HostileBytes().Draw(t, "bytes")
			src := []byte(text)
			c.SetBytes("input", []byte(text))
			which := rapid.IntRange(0, 2).Draw(t, "split")
			var split bufio.SplitFunc
			switch which {
			case 0:
				split = bufio.ScanLines
				c.Class("ScanLines")
			case 1:
				split = bufio.ScanWords
				c.Class("ScanWords")
			default:
				split = textseg.ScanGraphemeClusters
				c.Class("ScanGraphemeClusters")
			}
			pt := ref.NewPosTable(src, 0)
			loneCR := false
			for i, b := range src {
				if b == '\r' && (i+1 >= len(src) || src[i+1] != '\n') {
					loneCR = true
				}
			}
			var sc *hcl.RangeScanner
			c.Guard("NewRangeScanner", func() { sc = hcl.NewRangeScanner(src, "t", split) })
			pos := 0
			n := 0
			taintedLine := -1
			for {
				more := false
				c.Guard("Scan", func() { more = sc.Scan() })
				if !more {
					break
				}
				n++
				rng := sc.Range()
				if rng.Start.Byte < pos || rng.End.Byte < rng.Start.Byte || rng.End.Byte > len(src) {
					if truncatedLead(src) && c.Known("illformed-lead-byte-glues-following-bytes") {
						c.Done(false, "")
						return
					}
					c.Failf("scanner-order", "token %d range [%d,%d) after %d", n, rng.Start.Byte, rng.End.Byte, pos)
				}
				if !bytes.Equal(rng.SliceBytes(src), sc.Bytes()) {
					if truncatedLead(src) && c.Known("illformed-lead-byte-glues-following-bytes") {
						c.Done(false, "")
						return
					}
					c.Failf("scanner-bytes", "token %d: Range().SliceBytes = %q, Bytes() = %q", n, rng.SliceBytes(src), sc.Bytes())
				}
				for _, p := range []hcl.Pos{rng.Start, rng.End} {
					if !pt.Boundary[p.Byte] {
						// the split function cut a grapheme cluster: columns on the rest of this
						// line legitimately differ (the property's own caveat)
						taintedLine = pt.Line[p.Byte]
						c.Class("cluster_split_lines")
						continue
					}
					if pt.Line[p.Byte] == taintedLine {
						if p.Line != pt.Line[p.Byte]+1 {
							c.Failf("scanner-line", "token %d boundary at byte %d has line %d, reference %d", n, p.Byte, p.Line, pt.Line[p.Byte]+1)
						}
						continue
					}
					wantLine, wantCol := pt.Line[p.Byte]+1, pt.Col[p.Byte]+1
					if !pt.ColOK[p.Byte] {
						wantCol = p.Column
					}
					if p.Line != wantLine || p.Column != wantCol {
						if loneCR && c.Known("rangescanner-lone-cr") {
							c.Done(false, "")
							return
						}
						if truncatedLead(src) && c.Known("illformed-lead-byte-glues-following-bytes") {
							c.Done(false, "")
							return
						}
						c.Failf("scanner-position", "token %d boundary at byte %d is %d:%d, reference %d:%d", n, p.Byte, p.Line, p.Column, wantLine, wantCol)
					}
				}
				pos = rng.End.Byte
				if n > len(src)+2 {
					c.Failf("scanner-loop", "scanner produced more tokens than bytes")
				}
			}
			multi := false
			for _, b := range src {
				if b >= 0x80 {
					multi = true
				}
			}
			c.Done(multi && bytes.ContainsAny(src, "\n"), text)
		})
}

var _ = cty.String
