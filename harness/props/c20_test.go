package props

import (
	"fmt"
	"testing"

	"github.com/hashicorp/hcl/v2"
	"github.com/hashicorp/hcl/v2/ext/typeexpr"
	"github.com/hashicorp/hcl/v2/hclsyntax"
	hcljson "github.com/hashicorp/hcl/v2/json"
	"github.com/zclconf/go-cty/cty"
	"pgregory.net/rapid"

	"verifharness/ast"
	"verifharness/gen"
	"verifharness/hx"
	"verifharness/render"
)

func isKeywordRoot(tr hcl.Traversal) bool {
	if len(tr) == 0 {
		return false
	}
	switch tr.RootName() {
	case "true", "false", "null":
		return true
	}
	return false
}

func stepKinds(n ast.Node) map[string]bool {
	m := map[string]bool{}
	for cur := n; ; {
		switch x := cur.(type) {
		case ast.GetAttr:
			m["attr"] = true
			cur = x.Obj
		case ast.Index:
			if _, ok := x.Key.(ast.Num); ok {
				m["num_index"] = true
			} else {
				m["str_index"] = true
			}
			cur = x.Coll
		case ast.LegacyIndex:
			m["legacy_index"] = true
			cur = x.Coll
		default:
			return m
		}
	}
}

func TestC20_Traversal(t *testing.T) {
	hx.Run(t, "C20", "Traversal", 20000,
		"traversal-shaped expression (root + attribute / string-index / number-index / legacy-index steps, newlines inside brackets, scopes where each step succeeds or fails), native and as a JSON string; oracle: AbsTraversalForExpr(e) succeeds => TraverseAbs(ctx) and e.Value(ctx) agree in value and error flag (keyword roots excluded as the spec says); ParseTraversalAbs(text) succeeds => the expression parser gives the same steps; non-trivial = >=2 steps of different kinds; distinct by (AST dump, scope types)",
		func(c *hx.Case) {
			t := c.T
			sc := gen.DrawScope(t, gen.ScopeOpts{Nulls: 12})
			g := gen.NewEG(t, sc, gen.ExprOpts{})
			n := g.TraversalExpr()
			dump := ast.Dump(n)
			src, _ := render.Expression(n, rchooser{t}, render.Opts{Wild: rapid.SampledFrom([]int{0, 1}).Draw(t, "wild")})
			c.Set("source", src)
			c.Set("scope", scopeDump(sc))
			ctx := evalCtx(sc)
			kinds := stepKinds(n)
			featClasses(c, "step_", kinds)
			for _, form := range []string{"native", "json"} {
				var expr hcl.Expression
				var diags hcl.Diagnostics
				if form == "native" {
					expr, diags = parseExprSrc(src)
				} else {
					canon, _ := render.Expression(n, render.Fixed{}, render.Opts{})
					js := gen.EncodeJSONString(canon, rchooser{t}, false, map[string]bool{})
					c.Set("json", js)
					expr, diags = hcljson.ParseExpression([]byte(js), "t.json")
				}
				if diags.HasErrors() {
					c.Failf("parse-error", "%s: %s", form, diagStr(diags))
				}
				var trav hcl.Traversal
				var tdiags hcl.Diagnostics
				c.Guard("AbsTraversalForExpr", func() { trav, tdiags = hcl.AbsTraversalForExpr(expr) })
				if tdiags.HasErrors() {
					c.Class(form + "_not_static")
					continue
				}
				c.Class(form + "_static")
				if isKeywordRoot(trav) {
					c.Class("keyword_root_excluded")
					continue
				}
				var tv, ev cty.Value
				var td, ed hcl.Diagnostics
				c.Guard("TraverseAbs", func() { tv, td = trav.TraverseAbs(ctx) })
				if form == "native" {
					c.Guard("Value", func() { ev, ed = expr.Value(ctx) })
				} else {
					// a JSON string is a template: the traversal is what "${...}" evaluates to
					wrapped, d := hcljson.ParseExpression([]byte(gen.EncodeJSONString("${"+string(mustCanon(n))+"}", rchooser{t}, false, map[string]bool{})), "t.json")
					if d.HasErrors() {
						c.Failf("parse-error", "json wrapped: %s", diagStr(d))
					}
					c.Guard("Value", func() { ev, ed = wrapped.Value(ctx) })
				}
				if td.HasErrors() != ed.HasErrors() {
					c.Failf("traversal-vs-eval-error", "%s: static traversal error=%v (%s) but evaluation error=%v (%s)", form, td.HasErrors(), diagStr(td), ed.HasErrors(), diagStr(ed))
				}
				if !td.HasErrors() && !tv.RawEquals(ev) {
					c.Failf("traversal-vs-eval-value", "%s: static traversal gives %#v, evaluation gives %#v", form, tv, ev)
				}
				if td.HasErrors() {
					c.Class("traversal_error")
				} else {
					c.Class("traversal_value")
				}
			}
			// the stand-alone traversal parser agrees with the expression parser
			var ptrav hcl.Traversal
			var pdiags hcl.Diagnostics
			c.Guard("ParseTraversalAbs", func() { ptrav, pdiags = hclsyntax.ParseTraversalAbs([]byte(src), "t.hcl", hcl.InitialPos) })
			if !pdiags.HasErrors() {
				c.Class("traversal_parser_accepts")
				expr, diags := parseExprSrc(src)
				if diags.HasErrors() {
					c.Failf("traversal-parser-only", "ParseTraversalAbs accepts text that ParseExpression rejects: %s", diagStr(diags))
				}
				et, ed := hcl.AbsTraversalForExpr(expr)
				if ed.HasErrors() {
					c.Failf("traversal-parser-only", "ParseTraversalAbs accepts text whose expression is not a static traversal: %s", diagStr(ed))
				}
				if !sameTraversal(ptrav, et) {
					c.Failf("traversal-parser-steps", "ParseTraversalAbs gives %s, the expression parser %s", travString(ptrav), travString(et))
				}
			}
			c.Done(len(kinds) >= 2, dump+"|"+scopeTypes(sc))
		})
}

func mustCanon(n ast.Node) []byte {
	s, _ := render.Expression(n, render.Fixed{}, render.Opts{})
	return []byte(s)
}

func TestC20_ListMapCall(t *testing.T) {
	hx.Run(t, "C20", "ListMapCall", 12000,
		"tuple / object / call expression from G-EXPR; oracle: ExprList elements evaluate to the elements of the whole, ExprMap pairs evaluate (key after string conversion) to the attributes of the whole, ExprCall arguments passed to the named function give the whole's value; non-trivial = the construct has >=2 parts and evaluates without error; distinct by (AST dump, scope types)",
		func(c *hx.Case) {
			t := c.T
			sc := gen.DrawScope(t, gen.ScopeOpts{Nulls: 12})
			g := gen.NewEG(t, sc, gen.ExprOpts{IllTyped: 10})
			var n ast.Node
			kind := rapid.IntRange(0, 2).Draw(t, "kind")
			switch kind {
			case 0:
				n = g.Expr(cty.EmptyTuple)
			case 1:
				n = g.Expr(cty.EmptyObject)
			default:
				n = g.Expr(rapid.SampledFrom([]cty.Type{cty.String, cty.Number, cty.Bool}).Draw(t, "callty"))
			}
			dump := ast.Dump(n)
			// (Exact: the subject of static analysis is written without redundant parentheses
			// around it, which static analysis does not look through)
			src, _ := render.Expression(ast.Exact{X: n}, rchooser{t}, render.Opts{Wild: 1})
			c.Set("source", src)
			c.Set("scope", scopeDump(sc))
			expr, diags := parseExprSrc(src)
			if diags.HasErrors() {
				c.Failf("parse-error", "%s", diagStr(diags))
			}
			ctx := evalCtx(sc)
			nontrivial, unspec := checkStaticParts(c, "native", n, expr, ctx)
			if unspec {
				c.Done(false, "")
				return
			}
			// the same construct in JSON syntax: arrays and objects stay JSON arrays and objects,
			// everything else is a "${...}" string
			// (a call has no JSON form whose value is the call's value: a JSON string is a template)
			js, static := render.ExprJSON(n)
			if static {
				c.Set("json", js)
				c.Class("json_form")
				jexpr, jd := hcljson.ParseExpression([]byte(js), "t.json")
				if jd.HasErrors() {
					c.Failf("parse-error", "json: %s", diagStr(jd))
				}
				nt2, unspec2 := checkStaticParts(c, "json", n, jexpr, ctx)
				if unspec2 {
					c.Done(false, "")
					return
				}
				nontrivial = nontrivial || nt2
			}
			c.Done(nontrivial, dump+"|"+scopeTypes(sc))
		})
}

func typeDepth(ty cty.Type) int {
	switch {
	case ty.IsCollectionType():
		return 1 + typeDepth(ty.ElementType())
	case ty.IsTupleType():
		d := 0
		for _, e := range ty.TupleElementTypes() {
			if x := typeDepth(e); x > d {
				d = x
			}
		}
		return 1 + d
	case ty.IsObjectType():
		d := 0
		for _, e := range ty.AttributeTypes() {
			if x := typeDepth(e); x > d {
				d = x
			}
		}
		return 1 + d
	}
	return 0
}

func hasLoneForAttr(ty cty.Type) bool {
	switch {
	case ty.IsCollectionType():
		return hasLoneForAttr(ty.ElementType())
	case ty.IsTupleType():
		for _, e := range ty.TupleElementTypes() {
			if hasLoneForAttr(e) {
				return true
			}
		}
	case ty.IsObjectType():
		first := ""
		for name, aty := range ty.AttributeTypes() {
			if first == "" || name < first {
				first = name
			}
			if hasLoneForAttr(aty) {
				return true
			}
		}
		return first == "for" && len(ty.AttributeTypes()) == 1
	}
	return false
}

func TestC20_TypeExpr(t *testing.T) {
	hx.Run(t, "C20", "TypeExpr", 15000,
		"cty type from G-TYPE (primitives, any, list/set/map, tuple, object with identifier attribute names incl. keywords, nesting<=4); oracle: TypeConstraint(parse(TypeString(ty))) == ty for the native parser and for the JSON string form; non-trivial = >=2 nesting levels; distinct by type",
		func(c *hx.Case) {
			t := c.T
			ty := gen.Type(gen.TypeOpts{Depth: 4, AllowAny: true, IdentOnly: true}).Draw(t, "type")
			c.Set("type", ty.GoString())
			var s string
			c.Guard("TypeString", func() { s = typeexpr.TypeString(ty) })
			c.Set("typestring", s)
			forFirst := hasLoneForAttr(ty)
			if forFirst {
				// object({for=T}) cannot be written in the type-constraint language at all
				// (a leading `for` key always reads as a for expression): outside the domain
				c.Class("excluded_inexpressible_lone_for_attr")
				c.Done(false, "")
				return
			}
			for _, form := range []string{"native", "json"} {
				var expr hcl.Expression
				var diags hcl.Diagnostics
				if form == "native" {
					expr, diags = hclsyntax.ParseExpression([]byte(s), "t.hcl", hcl.InitialPos)
				} else {
					expr, diags = hcljson.ParseExpression([]byte(gen.EncodeJSONString(s, rchooser{t}, false, map[string]bool{})), "t.json")
				}
				if diags.HasErrors() {
					c.Failf("typestring-parse-error", "%s: TypeString output does not parse: %s", form, diagStr(diags))
				}
				var got cty.Type
				var tdiags hcl.Diagnostics
				c.Guard("TypeConstraint", func() { got, tdiags = typeexpr.TypeConstraint(expr) })
				if tdiags.HasErrors() {
					c.Failf("typeconstraint-error", "%s: TypeConstraint rejects TypeString output %q: %s", form, s, diagStr(tdiags))
				}
				if !got.Equals(ty) {
					c.Failf("type-roundtrip", "%s: %q parses back to %#v, want %#v", form, s, got, ty)
				}
			}
			c.Done(typeDepth(ty) >= 2, fmt.Sprintf("%#v", ty))
		})
}

// checkStaticParts compares the static list / map / call views of expr with its value.
// It returns whether the case is non-trivial and whether it fell into an unspecified region.
func checkStaticParts(c *hx.Case, form string, n ast.Node, expr hcl.Expression, ctx *hcl.EvalContext) (bool, bool) {
	// a constructor / call must be statically analysable as such (static analysis does not
	// look through parentheses; JSON has none, so there the parentheses are dropped)
	base := n
	for form == "json" {
		if p, ok := base.(ast.Paren); ok {
			base = p.X
			continue
		}
		break
	}
	switch base.(type) {
	case ast.Tuple:
		if _, d := hcl.ExprList(expr); d.HasErrors() {
			c.Failf("static-view-refused", "%s: the expression is a tuple constructor but hcl.ExprList refuses it: %s", form, diagStr(d))
		}
	case ast.Object:
		if _, d := hcl.ExprMap(expr); d.HasErrors() {
			c.Failf("static-view-refused", "%s: the expression is an object constructor but hcl.ExprMap refuses it: %s", form, diagStr(d))
		}
	case ast.Call:
		if _, d := hcl.ExprCall(expr); d.HasErrors() {
			c.Failf("static-view-refused", "%s: the expression is a function call but hcl.ExprCall refuses it: %s", form, diagStr(d))
		}
	}
	var whole cty.Value
	var wdiags hcl.Diagnostics
	c.Guard("Value", func() { whole, wdiags = expr.Value(ctx) })
	nontrivial := false
	if list, d := hcl.ExprList(expr); !d.HasErrors() {
		c.Class("static_list")
		if !wdiags.HasErrors() {
			whole, _ := whole.Unmark()
			if !whole.Type().IsTupleType() || whole.LengthInt() != len(list) {
				c.Failf("list-length", "ExprList has %d elements, the value is %#v", len(list), whole)
			}
			i := 0
			for it := whole.ElementIterator(); it.Next(); i++ {
				_, ev := it.Element()
				pv, pd := list[i].Value(ctx)
				if pd.HasErrors() || !pv.RawEquals(ev) {
					c.Failf("list-element", "ExprList element %d evaluates to %#v (%s), the whole has %#v", i, pv, diagStr(pd), ev)
				}
			}
			nontrivial = len(list) >= 2
		}
	}
	if pairs, d := hcl.ExprMap(expr); !d.HasErrors() {
		c.Class("static_map")
		if !wdiags.HasErrors() && whole.IsKnown() {
			whole, _ := whole.Unmark()
			seenKeys := map[string]bool{}
			dupKeys := false
			for _, p := range pairs {
				if kv, kd := p.Key.Value(ctx); !kd.HasErrors() {
					kv, _ = kv.Unmark()
					if ks, err := convertTo(kv, cty.String); err == nil && !ks.IsNull() && ks.IsKnown() {
						if seenKeys[ks.AsString()] {
							dupKeys = true
						}
						seenKeys[ks.AsString()] = true
					}
				}
			}
			if dupKeys {
				// U1: duplicate keys in an object constructor are not specified
				c.Unspecified("U1-duplicate-object-constructor-key")
				return false, true
			}
			if !whole.Type().IsObjectType() || whole.LengthInt() != len(pairs) {
				c.Failf("map-length", "ExprMap has %d pairs, the value is %#v", len(pairs), whole)
			}
			for i, p := range pairs {
				kv, kd := p.Key.Value(ctx)
				vv, vd := p.Value.Value(ctx)
				if kd.HasErrors() || vd.HasErrors() {
					c.Failf("map-part-error", "ExprMap pair %d does not evaluate although the whole does: %s %s", i, diagStr(kd), diagStr(vd))
				}
				kv, _ = kv.Unmark()
				ks, err := convertTo(kv, cty.String)
				if err != nil || ks.IsNull() || !whole.Type().HasAttribute(ks.AsString()) {
					c.Failf("map-key", "ExprMap pair %d key evaluates to %#v which is not an attribute of %#v", i, kv, whole)
				}
				if !whole.GetAttr(ks.AsString()).RawEquals(vv) {
					c.Failf("map-value", "ExprMap pair %d (%q) evaluates to %#v, the whole has %#v", i, ks.AsString(), vv, whole.GetAttr(ks.AsString()))
				}
			}
			nontrivial = len(pairs) >= 2
		}
	}
	if call, d := hcl.ExprCall(expr); !d.HasErrors() {
		c.Class("static_call")
		ce, isCall := n.(ast.Call)
		if isCall && call.Name != ce.Name {
			c.Failf("call-name", "ExprCall name %q, written %q", call.Name, ce.Name)
		}
		if isCall && len(call.Arguments) != len(ce.Args) {
			c.Failf("call-args", "ExprCall has %d arguments, written %d", len(call.Arguments), len(ce.Args))
		}
		if isCall && !ce.Expand && !wdiags.HasErrors() {
			// re-assemble the call from the static parts and compare
			fn, ok := ctyFuncs[call.Name]
			if !ok {
				c.Failf("call-unknown-function", "whole evaluates but function %q does not exist", call.Name)
			}
			args := make([]cty.Value, len(call.Arguments))
			okArgs := true
			for i, a := range call.Arguments {
				av, ad := a.Value(ctx)
				if ad.HasErrors() {
					okArgs = false
				}
				var pty cty.Type
				params := fn.Params()
				if i < len(params) {
					pty = params[i].Type
				} else if vp := fn.VarParam(); vp != nil {
					pty = vp.Type
				} else {
					okArgs = false
					break
				}
				cv, err := convertTo(av, pty)
				if err != nil {
					okArgs = false
				}
				args[i] = cv
			}
			if !okArgs {
				c.Failf("call-part-error", "an argument of the static call does not evaluate although the whole does")
			}
			rv, err := fn.Call(args)
			if err != nil || !rv.RawEquals(whole) {
				c.Failf("call-value", "calling %s with the static arguments gives %#v (%v), the whole evaluates to %#v", call.Name, rv, err, whole)
			}
			nontrivial = len(args) >= 2
		}
	}
	return nontrivial, false
}
