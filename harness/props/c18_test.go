package props

import (
	"fmt"
	"os"
	"regexp"
	"testing"

	"github.com/hashicorp/hcl/v2"
	"github.com/hashicorp/hcl/v2/ext/dynblock"
	"github.com/hashicorp/hcl/v2/hcldec"
	"github.com/hashicorp/hcl/v2/hclsyntax"
	"github.com/zclconf/go-cty/cty"
	"pgregory.net/rapid"

	"verifharness/ast"
	"verifharness/gen"
	"verifharness/hx"
	"verifharness/ref"
	"verifharness/render"
)

type iterInfo struct {
	name   string
	sample cty.Value // a representative iterator object, for generating expressions that use it
}

// dynGen builds bodies with dynamic blocks from a spec.
type dynGen struct {
	t      *rapid.T
	sc     *gen.Scope
	iters  []iterInfo
	nDyn   int
	nested bool
	outer  bool
	feat   map[string]bool
	// dynRate: 1-in-N block instances become dynamic
	dynRate  int
	usedIter bool     // some content expression refers to an iterator
	avoid    []string // key texts that must not appear in generated source (canaries)
	// preferForEach: scope variables that a dynamic block's for_each reads directly 1 time in 3
	preferForEach []string
	// clean: no deliberate ill-typing or spec violations, so that most cases decode without error
	clean bool
}

func (g *dynGen) scopeWithIters() *gen.Scope {
	sc := &gen.Scope{Vals: map[string]cty.Value{}}
	for _, n := range g.sc.Names {
		v, _ := g.sc.Vals[n].UnmarkDeep()
		if !v.IsWhollyKnown() {
			continue
		}
		sc.Vals[n] = v
		sc.Names = append(sc.Names, n)
	}
	for _, it := range g.iters {
		if _, dup := sc.Vals[it.name]; !dup {
			sc.Names = append(sc.Names, it.name)
		}
		sc.Vals[it.name] = it.sample
	}
	for i := 1; i < len(sc.Names); i++ {
		for j := i; j > 0 && sc.Names[j] < sc.Names[j-1]; j-- {
			sc.Names[j], sc.Names[j-1] = sc.Names[j-1], sc.Names[j]
		}
	}
	return sc
}

func (g *dynGen) expr(ty cty.Type) ast.Node {
	t := g.t
	if rapid.IntRange(0, 2).Draw(t, "literal_attr") == 0 {
		return literalOfType(t, ty)
	}
	if g.clean {
		if len(g.iters) > 0 && (ty == cty.String || ty == cty.DynamicPseudoType) && rapid.IntRange(0, 2).Draw(t, "use_iterator") != 0 {
			it := g.iters[rapid.IntRange(0, len(g.iters)-1).Draw(t, "which_iter")]
			if it.name != g.iters[len(g.iters)-1].name {
				g.outer = true
			}
			// keys are strings or numbers: the template always converts
			g.usedIter = true
			return ast.Template{Parts: []ast.TPart{ast.TLit{Text: "i:"}, ast.TInterp{X: ast.GetAttr{Obj: ast.Var{Name: it.name}, Name: "key"}}}}
		}
		if rapid.Bool().Draw(t, "clean_literal") {
			return literalOfType(t, ty)
		}
		return gen.NewEG(t, g.scopeWithIters(), gen.ExprOpts{Budget: 5, MaxDepth: 2, NoHeredoc: true, AvoidKeys: g.avoid}).Expr(ty)
	}
	eg := gen.NewEG(t, g.scopeWithIters(), gen.ExprOpts{IllTyped: 8, Budget: 6, MaxDepth: 2, NoHeredoc: true, AvoidKeys: g.avoid})
	if len(g.iters) > 0 && rapid.IntRange(0, 1).Draw(t, "use_iterator") == 0 {
		// refer to an iterator directly so that substitution is exercised
		it := g.iters[rapid.IntRange(0, len(g.iters)-1).Draw(t, "which_iter")]
		if len(g.iters) >= 2 && rapid.Bool().Draw(t, "prefer_outer") {
			it = g.iters[rapid.IntRange(0, len(g.iters)-2).Draw(t, "which_outer")]
		}
		if it.name != g.iters[len(g.iters)-1].name {
			g.outer = true
		}
		g.usedIter = true
		return ast.GetAttr{Obj: ast.Var{Name: it.name}, Name: rapid.SampledFrom([]string{"value", "key"}).Draw(t, "field")}
	}
	return eg.Expr(ty)
}

// bodyExpr generates attribute values for bodies without dynamic blocks: expressions over
// the scope with binders (for expressions, template for directives).
func (g *dynGen) bodyExpr(ty cty.Type) ast.Node {
	t := g.t
	if rapid.IntRange(0, 3).Draw(t, "literal_attr") == 0 {
		return literalOfType(t, ty)
	}
	ill := 10
	if g.clean {
		ill = 0
	}
	return gen.NewEG(t, g.scopeWithIters(), gen.ExprOpts{IllTyped: ill, Budget: 8, MaxDepth: 3, NoHeredoc: true, AvoidKeys: g.avoid}).Expr(ty)
}

func (g *dynGen) dyn(x *gen.SpecM, content func() *ast.Body) (ast.Item, bool) {
	t := g.t
	if rapid.IntRange(0, g.dynRate-1).Draw(t, "make_dynamic") != 0 {
		return nil, false
	}
	g.nDyn++
	if len(g.iters) > 0 {
		g.nested = true
	}
	d := ast.Dyn{Type: x.Name}
	// for_each: a scope collection, or a constructor of literals
	eg := gen.NewEG(t, g.scopeWithIters(), gen.ExprOpts{IllTyped: 10, Budget: 6, MaxDepth: 2, NoHeredoc: true, AvoidKeys: g.avoid})
	fk := rapid.IntRange(0, 5).Draw(t, "for_each_kind")
	if g.clean {
		fk = fk % 2
	}
	single := g.clean && x.Kind == gen.SBlock
	if len(g.iters) > 0 && rapid.IntRange(0, 2).Draw(t, "for_each_from_outer") == 0 {
		fk = 6
	}
	switch fk {
	case 6:
		// the nested dynamic iterates over something derived from an enclosing iterator
		outer := g.iters[rapid.IntRange(0, len(g.iters)-1).Draw(t, "outer")]
		g.outer = true
		if single {
			d.ForEach = ast.Tuple{Elems: []ast.Node{ast.GetAttr{Obj: ast.Var{Name: outer.name}, Name: "key"}}}
		} else if rapid.Bool().Draw(t, "outer_pair") || g.clean {
			d.ForEach = ast.Tuple{Elems: []ast.Node{ast.GetAttr{Obj: ast.Var{Name: outer.name}, Name: "key"}, ast.GetAttr{Obj: ast.Var{Name: outer.name}, Name: "value"}}}
		} else {
			d.ForEach = ast.GetAttr{Obj: ast.Var{Name: outer.name}, Name: "value"}
		}
	case 0:
		n := rapid.IntRange(0, 3).Draw(t, "n")
		if single {
			n = 1
		}
		var elems []ast.Node
		for i := 0; i < n; i++ {
			elems = append(elems, literalOfType(t, rapid.SampledFrom([]cty.Type{cty.String, cty.Number}).Draw(t, "ety")))
		}
		d.ForEach = ast.Tuple{Elems: elems}
	case 1:
		n := rapid.IntRange(0, 3).Draw(t, "n")
		if single {
			n = 1
		}
		var items []ast.ObjItem
		seen := map[string]bool{}
		for i := 0; i < n; i++ {
			k := rapid.SampledFrom([]string{"k", "a", "b", "z"}).Draw(t, "k")
			if seen[k] {
				continue
			}
			seen[k] = true
			items = append(items, ast.ObjItem{Kind: ast.KeyIdent, Name: k, Val: literalOfType(t, cty.String)})
		}
		d.ForEach = ast.Object{Items: items}
	default:
		d.ForEach = eg.Expr(rapid.SampledFrom([]cty.Type{cty.List(cty.String), cty.EmptyTuple, cty.Map(cty.String), cty.EmptyObject, cty.List(cty.Number)}).Draw(t, "fe_type"))
	}
	switch ci := rapid.IntRange(0, 5).Draw(t, "custom_iterator"); {
	case ci <= 1:
		d.Iterator = rapid.SampledFrom([]string{"it", "each", "item", "e2"}).Draw(t, "iterator")
		g.feat["custom_iterator"] = true
	case ci == 2 && len(g.iters) > 0:
		// the inner iterator takes the name of an enclosing one and must shadow it
		d.Iterator = g.iters[rapid.IntRange(0, len(g.iters)-1).Draw(t, "shadowed")].name
		g.feat["custom_iterator"] = true
	}
	if len(g.preferForEach) > 0 && !single && rapid.IntRange(0, 2).Draw(t, "preferred_for_each") == 0 {
		d.ForEach = ast.Var{Name: rapid.SampledFrom(g.preferForEach).Draw(t, "for_each_var")}
		g.feat["for_each_preferred_variable"] = true
	}
	if rapid.IntRange(0, 7).Draw(t, "iterator_named_like_variable") == 0 {
		// the iterator takes the name of a root variable and for_each refers to that variable:
		// for_each is evaluated outside the iterator's scope, so it means the root variable
		var cands []string
		for _, n := range g.sc.Names {
			v, _ := g.sc.Vals[n].Unmark()
			if plainIdent.MatchString(n) && !reservedName[n] && v.IsKnown() && !v.IsNull() && v.CanIterateElements() && (!single || v.LengthInt() == 1) {
				cands = append(cands, n)
			}
		}
		if len(cands) > 0 {
			d.Iterator = rapid.SampledFrom(cands).Draw(t, "iterator_var")
			d.ForEach = ast.Var{Name: d.Iterator}
			g.feat["iterator_named_like_for_each_variable"] = true
		}
	}
	name := d.Iterator
	if name == "" {
		name = d.Type
	}
	for _, it := range g.iters {
		if it.name == name {
			g.feat["shadows_outer_iterator"] = true
		}
	}
	// a representative iterator object: the first element, if the reference can evaluate for_each
	sample := cty.ObjectVal(map[string]cty.Value{"key": cty.StringVal("k"), "value": cty.StringVal("v")})
	env := ref.NewEnv(g.scopeWithIters().Vals)
	if r := ref.Eval(d.ForEach, env); !r.Err && r.Unspec == "" && !r.V.IsNull() && r.V.CanIterateElements() && r.V.LengthInt() > 0 {
		it := r.V.ElementIterator()
		it.Next()
		k, v := it.Element()
		sample = cty.ObjectVal(map[string]cty.Value{"key": k, "value": v})
		if r.V.LengthInt() >= 2 {
			g.feat["two_or_more_iterations"] = true
		}
	}
	g.iters = append(g.iters, iterInfo{name, sample})
	nl := x.BlockLabelCount()
	if nl > 0 {
		d.Labels = []ast.Node{}
		for i := 0; i < nl; i++ {
			lk := rapid.IntRange(0, 2).Draw(t, "labelkind")
			if g.clean && i == nl-1 && lk == 0 && (x.Kind == gen.SBlockMap || x.Kind == gen.SBlockObject) {
				lk = 2 // keyed blocks need distinct labels per iteration
			}
			switch lk {
			case 0:
				d.Labels = append(d.Labels, ast.Template{Parts: []ast.TPart{ast.TLit{Text: rapid.SampledFrom([]string{"a", "b", "x y", "l"}).Draw(t, "lbl")}}})
			case 1:
				d.Labels = append(d.Labels, ast.GetAttr{Obj: ast.Var{Name: name}, Name: "key"})
				g.feat["label_from_iterator"] = true
			default:
				d.Labels = append(d.Labels, ast.Template{Parts: []ast.TPart{ast.TLit{Text: "p-"}, ast.TInterp{X: ast.GetAttr{Obj: ast.Var{Name: name}, Name: "key"}}}})
				g.feat["label_from_iterator"] = true
			}
		}
	}
	d.Content = content()
	g.iters = g.iters[:len(g.iters)-1]
	return d, true
}

// relaxCounts removes the block-count constraints of a spec tree, which the number of
// iterations of a dynamic block would otherwise violate most of the time.
func relaxCounts(s *gen.SpecM) {
	if s == nil {
		return
	}
	switch s.Kind {
	case gen.SBlock, gen.SBlockList, gen.SBlockTuple, gen.SBlockSet, gen.SBlockMap, gen.SBlockObject, gen.SBlockAttrs:
		s.MinItems, s.MaxItems, s.Required = 0, 0, false
	}
	relaxCounts(s.Nested)
	relaxCounts(s.Primary)
	relaxCounts(s.Default)
	for _, f := range s.Fields {
		relaxCounts(f)
	}
	for _, e := range s.Elems {
		relaxCounts(e)
	}
}

var plainIdent = regexp.MustCompile(`^[a-z][a-z0-9]*$`)
var reservedName = map[string]bool{"for": true, "if": true, "in": true, "null": true, "true": true, "false": true}

// plainForEachOnly reports whether every dynamic block iterates over a variable or a
// constructor: then unknown element values cannot make the number of iterations unknown
// (a for_each computed from element values, or an inner iterator's value, legitimately
// becomes unknown, and dynblock then stands in one placeholder block).
func plainForEachOnly(b *ast.Body) bool {
	ok := true
	var walk func(b *ast.Body)
	walk = func(b *ast.Body) {
		for _, it := range b.Items {
			switch x := it.(type) {
			case ast.Block:
				walk(x.Body)
			case ast.Dyn:
				switch fe := x.ForEach.(type) {
				case ast.Var, ast.Tuple:
				case ast.Object:
					for _, item := range fe.Items {
						if item.Kind != ast.KeyIdent {
							ok = false
						}
					}
				default:
					ok = false
				}
				walk(x.Content)
			}
		}
	}
	walk(b)
	return ok
}

// sameTopStructure compares, for the block-collection specs at the top level of the spec
// tree, the value decoded with partially unknown inputs against the concrete one: the
// collection built from the blocks must be known and have the same number of members.
func sameTopStructure(ms *gen.SpecM, abs, conc cty.Value) string {
	abs, _ = abs.Unmark()
	conc, _ = conc.Unmark()
	type part struct {
		name string
		s    *gen.SpecM
		a, c cty.Value
	}
	var parts []part
	if !abs.IsKnown() {
		return "the whole result is unknown"
	}
	switch ms.Kind {
	case gen.SObject:
		for _, n := range ms.FieldNames() {
			parts = append(parts, part{n, ms.Fields[n], abs.GetAttr(n), conc.GetAttr(n)})
		}
	case gen.STuple:
		for i, e := range ms.Elems {
			parts = append(parts, part{fmt.Sprint(i), e, abs.Index(cty.NumberIntVal(int64(i))), conc.Index(cty.NumberIntVal(int64(i)))})
		}
	default:
		parts = append(parts, part{"result", ms, abs, conc})
	}
	for _, p := range parts {
		switch p.s.Kind {
		case gen.SBlockList, gen.SBlockTuple, gen.SBlockMap, gen.SBlockObject:
			a, _ := p.a.Unmark()
			cc, _ := p.c.Unmark()
			if !a.IsKnown() {
				return fmt.Sprintf("the %s of %q blocks at %s is unknown although the number of blocks is known", p.s.Kind, p.s.Name, p.name)
			}
			if !a.IsNull() && !cc.IsNull() && a.LengthInt() != cc.LengthInt() {
				return fmt.Sprintf("the %s of %q blocks at %s has %d members, concretely %d", p.s.Kind, p.s.Name, p.name, a.LengthInt(), cc.LengthInt())
			}
		}
	}
	return ""
}

// containsSingleBlock reports whether the spec subtree has a specification that reads
// one block as such (BlockSpec, BlockAttrsSpec): for those ext/dynblock/README.md states
// that an unknown for_each is represented by exactly one block ("no explicit representation
// of the fact that the length of the collection may eventually be different than one").
func containsSingleBlock(s *gen.SpecM) bool {
	if s == nil {
		return false
	}
	if s.Kind == gen.SBlock || s.Kind == gen.SBlockAttrs {
		return true
	}
	for _, f := range s.Fields {
		if containsSingleBlock(f) {
			return true
		}
	}
	for _, e := range s.Elems {
		if containsSingleBlock(e) {
			return true
		}
	}
	return containsSingleBlock(s.Nested) || containsSingleBlock(s.Primary) || containsSingleBlock(s.Default)
}

// specConsistent judges the value decoded with wholly unknown for_each collections against
// the value decoded with the collections known: everything the abstract value states as
// known must hold concretely (consistent), except the presence of a block read by a
// single-block specification (documented compromise, see containsSingleBlock).
func specConsistent(s *gen.SpecM, abs, conc cty.Value, path string) string {
	abs, _ = abs.Unmark()
	conc, _ = conc.Unmark()
	generic := func() string {
		if containsSingleBlock(s) {
			return ""
		}
		return consistent(abs, conc, path)
	}
	structural := abs.IsKnown() && conc.IsKnown() && !abs.IsNull() && !conc.IsNull()
	switch s.Kind {
	case gen.SObject:
		if !structural || !abs.Type().IsObjectType() || !conc.Type().IsObjectType() {
			return generic()
		}
		for _, n := range s.FieldNames() {
			if !abs.Type().HasAttribute(n) || !conc.Type().HasAttribute(n) {
				return fmt.Sprintf("%s: attribute %q missing", path, n)
			}
			if msg := specConsistent(s.Fields[n], abs.GetAttr(n), conc.GetAttr(n), path+"."+n); msg != "" {
				return msg
			}
		}
		return ""
	case gen.STuple:
		if !structural || !abs.Type().IsTupleType() || !conc.Type().IsTupleType() || abs.LengthInt() != len(s.Elems) || conc.LengthInt() != len(s.Elems) {
			return generic()
		}
		for i, e := range s.Elems {
			idx := cty.NumberIntVal(int64(i))
			if msg := specConsistent(e, abs.Index(idx), conc.Index(idx), fmt.Sprintf("%s[%d]", path, i)); msg != "" {
				return msg
			}
		}
		return ""
	case gen.SBlock:
		if !abs.IsKnown() {
			return ""
		}
		if abs.IsNull() {
			if !conc.IsNull() {
				return fmt.Sprintf("%s: no %q block abstractly, one concretely", path, s.Name)
			}
			return ""
		}
		if conc.IsNull() {
			return "" // the placeholder block of an unknown for_each that is concretely empty
		}
		return specConsistent(s.Nested, abs, conc, path)
	case gen.SBlockAttrs:
		if !structural {
			return ""
		}
		return ""
	case gen.SBlockList, gen.SBlockTuple:
		if !structural || !containsSingleBlock(s.Nested) {
			return consistent(abs, conc, path)
		}
		if abs.LengthInt() != conc.LengthInt() {
			return fmt.Sprintf("%s: %d %q blocks abstractly (known), %d concretely", path, abs.LengthInt(), s.Name, conc.LengthInt())
		}
		ai, ci := abs.ElementIterator(), conc.ElementIterator()
		for i := 0; ai.Next() && ci.Next(); i++ {
			_, av := ai.Element()
			_, cv := ci.Element()
			if msg := specConsistent(s.Nested, av, cv, fmt.Sprintf("%s[%d]", path, i)); msg != "" {
				return msg
			}
		}
		return ""
	case gen.SBlockSet, gen.SBlockMap, gen.SBlockObject:
		if !structural || !containsSingleBlock(s.Nested) {
			return consistent(abs, conc, path)
		}
		if s.Kind == gen.SBlockSet && !abs.IsWhollyKnown() {
			return "" // elements with unknown parts may coincide concretely
		}
		if len(s.LabelNames) <= 1 && abs.LengthInt() != conc.LengthInt() {
			return fmt.Sprintf("%s: %d %q blocks abstractly (known), %d concretely", path, abs.LengthInt(), s.Name, conc.LengthInt())
		}
		return ""
	default:
		return generic()
	}
}

// hasEmptyMapVal reports whether v contains a known empty map (the signature of the known
// finding about multi-label block maps without blocks).
func hasEmptyMapVal(v cty.Value) bool {
	found := false
	_ = cty.Walk(v, func(_ cty.Path, x cty.Value) (bool, error) {
		u, _ := x.Unmark()
		if u.IsKnown() && !u.IsNull() && u.Type().IsMapType() && u.LengthInt() == 0 {
			found = true
		}
		return !found, nil
	})
	return found
}

func staticSiblingOfDyn(b *ast.Body) bool {
	types := map[string]int{}
	for _, it := range b.Items {
		switch x := it.(type) {
		case ast.Dyn:
			types[x.Type] |= 1
		case ast.Block:
			types[x.Type] |= 2
			if staticSiblingOfDyn(x.Body) {
				return true
			}
		}
	}
	for _, it := range b.Items {
		if d, ok := it.(ast.Dyn); ok && staticSiblingOfDyn(d.Content) {
			return true
		}
	}
	for _, v := range types {
		if v == 3 {
			return true
		}
	}
	return false
}

func ctxFromScope(sc *gen.Scope) *hcl.EvalContext { return evalCtx(sc) }

func TestC18_Expand(t *testing.T) {
	hx.Run(t, "C18", "Expand", 8000,
		"spec tree + body built from it in which 1-in-2 block instances are `dynamic` blocks (nested dynamics, custom iterator names incl. an inner iterator shadowing an outer one; 2-in-3 cases in clean mode = no deliberate ill-typing, spec violations or count constraints, so that about half of all cases decode without error; labels computed from the iterator, inner content referring to inner and outer iterators, dynamics interleaved with static blocks of the same type); for_each from scope collections of every iterable kind and from constructors, incl. empty, marked and (separate class) unknown; oracle = reference expander (ref.ExpandDyn: one block per element in iteration order with the iterator object bound) followed by the reference decoder, compared with hcldec.Decode(dynblock.Expand(body, ctx), spec, ctx) (RawEquals after deep unmarking, equal error flags); unknown for_each: result conforms to the implied type; and expansion under a context restricted to ExpandVariablesHCLDec gives the same result; non-trivial = a dynamic block with >=2 iterations next to a static block of its type, or a nested dynamic using an outer iterator; distinct by (spec dump, body dump)",
		func(c *hx.Case) {
			t := c.T
			sc := gen.DrawScope(t, gen.ScopeOpts{Nulls: 14})
			ms := gen.DrawSpec(t, gen.SpecOpts{Depth: 3, AttrNames: specAttrPool, BlockTypes: specBlockPool, BlockBias: 30})
			kinds := map[string]bool{}
			specKinds(ms, kinds)
			featClasses(c, "spec_", kinds)
			g := &dynGen{t: t, sc: sc, feat: map[string]bool{}, dynRate: 2, clean: rapid.IntRange(0, 2).Draw(t, "clean") != 0}
			perturb := 40
			if g.clean {
				c.Class("clean_mode")
				perturb = 0
				relaxCounts(ms)
			}
			c.Set("spec", ms.Dump())
			tree := gen.BodyFromSpec(t, ms, gen.BodyFromSpecOpts{Perturb: perturb, Labels: []string{"a", "b", "x y", "l", "for"}, Expr: g.expr, Dyn: g.dyn})
			dump := ast.DumpBody(tree)
			c.Set("body", dump)
			c.Set("scope", scopeDump(sc))
			if g.nDyn == 0 {
				c.Class("no_dynamic_block")
			}
			featClasses(c, "dyn_", g.feat)
			// marked / unknown variants of the scope for the implementation run
			ctx := evalCtx(sc)
			unknownMode := rapid.IntRange(0, 3).Draw(t, "unknown_for_each") == 0
			for _, name := range sc.Names {
				v := sc.Vals[name]
				if v.CanIterateElements() && rapid.IntRange(0, 3).Draw(t, "mark_collection") == 0 {
					ctx.Variables[name] = v.Mark("m")
					c.Class("marked_collection_in_scope")
				}
				if unknownMode && (v.Type().IsCollectionType()) && rapid.Bool().Draw(t, "make_unknown") {
					ctx.Variables[name] = cty.UnknownVal(v.Type())
				}
			}
			spec := toHCLDec(ms)
			src, _ := render.File(ast.DynSyntax(tree), rchooser{t}, drawBodyOpts(t))
			c.Set("source", src)
			f, diags := hclsyntax.ParseConfig([]byte(src), "t.hcl", hcl.InitialPos)
			if diags.HasErrors() {
				c.Failf("parse-error", "%s", diagStr(diags))
			}
			var got cty.Value
			var gdiags hcl.Diagnostics
			c.Guard("Decode(Expand)", func() { got, gdiags = hcldec.Decode(dynblock.Expand(f.Body, ctx), spec, ctx) })
			implied := hcldec.ImpliedType(spec)
			if !ref.Conforms(got.Type(), implied.WithoutOptionalAttributesDeep()) {
				if !(hasMultiLabelBlockMap(ms) && hasEmptyMapVal(got) && c.Known("blockmap-multilabel-empty-type")) && !(gdiags.HasErrors() && tupleBecameList(got.Type(), implied.WithoutOptionalAttributesDeep()) && c.Known("blocklist-unifies-nested-tuples-to-list")) && !(hasInconsistentTypesDiag(gdiags) && c.Known("blocklist-inconsistent-types-returns-dynamicval")) {
					c.Failf("type-nonconforming", "decoded value of type %#v does not conform to the implied type %#v (%s)", got.Type(), implied, diagStr(gdiags))
				}
			}
			if unknownMode {
				c.Class("unknown_mode")
				// the abstract result (some for_each collections wholly unknown) must be consistent
				// with the concrete one: whatever it states as known - a list length, the presence
				// of a block, an attribute value - holds when the collections are known
				cctx := evalCtx(sc)
				madeUnknown := false
				for name, v := range ctx.Variables {
					if v.IsMarked() {
						cctx.Variables[name] = v
					}
					if !v.IsWhollyKnown() && sc.Vals[name].IsWhollyKnown() {
						madeUnknown = true
					}
				}
				if madeUnknown {
					var conc cty.Value
					var cdiags hcl.Diagnostics
					c.Guard("Decode(Expand) concrete", func() { conc, cdiags = hcldec.Decode(dynblock.Expand(f.Body, cctx), spec, cctx) })
					if hasMultiLabelBlockMap(ms) && (hasEmptyMapVal(got) || hasEmptyMapVal(conc)) && c.Known("blockmap-multilabel-empty-type") {
						// known: an empty multi-label block map has a type one level short of the implied one
						c.Class("excluded_known_multilabel_empty_map")
					} else if !gdiags.HasErrors() && !cdiags.HasErrors() {
						c.Class("unknown_mode_compared")
						if msg := specConsistent(ms, unmarkedDeep(got), unmarkedDeep(conc), "result"); msg != "" {
							c.Failf("unknown-for-each-inconsistent", "with some for_each collections unknown the result %#v is not consistent with the result for known collections %#v: %s", got, conc, msg)
						}
					}
				}
				c.Done(false, "")
				return
			}
			// a collection of known length with unknown element values still yields one block
			// per element: the structure built from the blocks stays known, only the values
			// that read the unknown elements become unknown
			if !gdiags.HasErrors() && plainForEachOnly(tree) && rapid.IntRange(0, 3).Draw(t, "partially_unknown_elements") == 0 {
				pctx := evalCtx(sc)
				for name, v := range ctx.Variables {
					pctx.Variables[name] = v
				}
				changed := false
				for _, name := range sc.Names {
					v := sc.Vals[name]
					ty := v.Type()
					if v.IsNull() || !v.IsKnown() || !(ty.IsListType() || ty.IsMapType()) || v.LengthInt() == 0 || ty.ElementType().IsCollectionType() {
						continue
					}
					// (elements that are themselves collections are left alone: an inner dynamic block
					// iterating over an unknown element legitimately has an unknown number of blocks)
					var keys, vals []cty.Value
					for it := v.ElementIterator(); it.Next(); {
						k, ev := it.Element()
						keys = append(keys, k)
						if rapid.Bool().Draw(t, "unknown_element") {
							ev = cty.UnknownVal(ev.Type())
							changed = true
						}
						vals = append(vals, ev)
					}
					var nv cty.Value
					if ty.IsListType() {
						nv = cty.ListVal(vals)
					} else {
						m := map[string]cty.Value{}
						for i, k := range keys {
							m[k.AsString()] = vals[i]
						}
						nv = cty.MapVal(m)
					}
					if ctx.Variables[name].IsMarked() {
						nv = nv.Mark("m")
					}
					pctx.Variables[name] = nv
				}
				if changed {
					c.Class("partially_unknown_elements")
					var pgot cty.Value
					var pdiags hcl.Diagnostics
					c.Guard("Decode(Expand) with unknown elements", func() { pgot, pdiags = hcldec.Decode(dynblock.Expand(f.Body, pctx), spec, pctx) })
					if !pdiags.HasErrors() {
						if msg := consistent(pgot, got, "result"); msg != "" {
							c.Failf("unknown-elements-inconsistent", "with some element values unknown the result %#v is not consistent with the concrete result %#v: %s", pgot, got, msg)
						}
						if msg := sameTopStructure(ms, pgot, got); msg != "" {
							c.Failf("unknown-elements-structure", "with some element values of known-length collections unknown, %s (abstract %#v, concrete %#v)", msg, pgot, got)
						}
					}
				}
			}
			// decoding in two steps - PartialDecode with one half of the spec, then (after asking
			// for its variables, which also reads the remaining body) Decode of the remaining body
			// with the other half - gives the fields of the one-step result
			if !gdiags.HasErrors() && ms.Kind == gen.SObject && len(ms.Fields) >= 2 && rapid.IntRange(0, 2).Draw(t, "two_step_decode") == 0 {
				specA, specB := hcldec.ObjectSpec{}, hcldec.ObjectSpec{}
				for _, n := range ms.FieldNames() {
					if rapid.Bool().Draw(t, "half") {
						specA[n] = toHCLDec(ms.Fields[n])
					} else {
						specB[n] = toHCLDec(ms.Fields[n])
					}
				}
				if len(specA) > 0 && len(specB) > 0 {
					c.Class("two_step_decode")
					var vA, vB cty.Value
					var dA, dB hcl.Diagnostics
					c.Guard("PartialDecode + Decode(remain)", func() {
						var remain hcl.Body
						vA, remain, dA = hcldec.PartialDecode(dynblock.Expand(f.Body, ctx), specA, ctx)
						_ = hcldec.Variables(remain, specB)
						_, _, _ = hcldec.PartialDecode(remain, specB, ctx)
						vB, dB = hcldec.Decode(remain, specB, ctx)
					})
					if dA.HasErrors() || dB.HasErrors() {
						c.Failf("two-step-error", "one-step decoding is error-free but PartialDecode reports %s and Decode of the remaining body %s", diagStr(dA), diagStr(dB))
					}
					for n := range specA {
						if !vA.GetAttr(n).RawEquals(got.GetAttr(n)) {
							c.Failf("two-step-value", "field %s: PartialDecode gives %#v, one-step decoding %#v", n, vA.GetAttr(n), got.GetAttr(n))
						}
					}
					for n := range specB {
						if !vB.GetAttr(n).RawEquals(got.GetAttr(n)) {
							c.Failf("two-step-value", "field %s: Decode of the remaining body (read twice before) gives %#v, one-step decoding %#v", n, vB.GetAttr(n), got.GetAttr(n))
						}
					}
				}
			}
			// reference: expand, then decode
			env := refEnv(sc)
			ex := ref.ExpandDyn(tree, env)
			want := ref.DecResult{Err: ex.Err, Unspec: ex.Unspec}
			if !ex.Err && ex.Unspec == "" {
				want = ref.DecodeWith(ms, ex.Body, nil, env, ref.DecodeOpts{EmptyMultiLabelMapQuirk: hx.IsKnown("C18", "blockmap-multilabel-empty-type")})
				c.Set("expanded", ast.DumpBody(ex.Body))
			}
			known := func() bool {
				for _, n := range env.Notes() {
					if c.Known(n) {
						return true
					}
				}
				return false
			}
			switch {
			case want.Unspec != "":
				c.Unspecified(want.Unspec)
			case gdiags.HasErrors() != want.Err:
				if !known() {
					c.Failf("error-flag", "Decode(Expand(body)) error=%v (%s), reference %v", gdiags.HasErrors(), diagStr(gdiags), want.Err)
				}
			case !want.Err:
				gu, _ := got.UnmarkDeep()
				if !gu.RawEquals(want.V) && !known() {
					c.Failf("value-mismatch", "Decode(Expand(body)) = %#v, reference (write out one block per element, then decode) = %#v", gu, want.V)
				}
			}
			// the variables reported for expansion are sufficient to perform it
			var needed []hcl.Traversal
			c.Guard("ExpandVariablesHCLDec", func() { needed = dynblock.ExpandVariablesHCLDec(f.Body, spec) })
			R := rootNames(needed)
			restricted := &hcl.EvalContext{Variables: map[string]cty.Value{}, Functions: ctyFuncs}
			for n, v := range ctx.Variables {
				if R[n] {
					restricted.Variables[n] = v
				}
			}
			var got2 cty.Value
			var gdiags2 hcl.Diagnostics
			c.Guard("Decode(Expand restricted)", func() { got2, gdiags2 = hcldec.Decode(dynblock.Expand(f.Body, restricted), spec, ctx) })
			if gdiags2.HasErrors() != gdiags.HasErrors() || (!gdiags.HasErrors() && !got2.RawEquals(got)) {
				c.Failf("expand-variables-insufficient", "expanding with only the variables reported by ExpandVariablesHCLDec {%s} gives %#v (err=%v: %s), with the full context %#v (err=%v)", setString(R), got2, gdiags2.HasErrors(), diagStr(gdiags2), got, gdiags.HasErrors())
			}
			if gdiags.HasErrors() && os.Getenv("VERIF_DEBUG_ERRS") != "" {
				for _, d := range gdiags {
					if d.Severity == hcl.DiagError {
						c.Class("err_" + d.Summary)
						break
					}
				}
			}
			if want.Err {
				c.Class("reference_error")
			} else if want.Unspec == "" {
				c.Class("reference_value")
			}
			nontrivial := (g.feat["two_or_more_iterations"] && staticSiblingOfDyn(tree)) || (g.nested && g.outer)
			c.Done(nontrivial && want.Unspec == "", fmt.Sprintf("%s|%s", ms.Dump(), dump))
		})
}
