package props

import (
	"strings"
	"testing"

	"github.com/hashicorp/hcl/v2"
	"github.com/hashicorp/hcl/v2/hclsyntax"
	"pgregory.net/rapid"

	"verifharness/gen"
	"verifharness/hx"
	"verifharness/render"
)

// respace re-emits the tokens of src with a freshly drawn gap ("" / one / several spaces)
// between every pair of adjacent code tokens. Gaps inside template literals, around
// newlines and comments are kept as they are (they are content or line structure).
func respace(t *rapid.T, src []byte) string {
	toks, _ := hclsyntax.LexConfig(src, "t.hcl", hcl.InitialPos)
	var sb strings.Builder
	// mode stack: true = code (spaces between tokens are insignificant), false = template text
	stack := []bool{true}
	code := func() bool { return stack[len(stack)-1] }
	prevEnd := 0
	for i, tok := range toks {
		gap := string(src[prevEnd:tok.Range.Start.Byte])
		if i > 0 && code() {
			prev := toks[i-1]
			switch {
			case prev.Type == hclsyntax.TokenNewline || tok.Type == hclsyntax.TokenNewline || prev.Type == hclsyntax.TokenComment || tok.Type == hclsyntax.TokenComment || tok.Type == hclsyntax.TokenEOF:
			case prev.Type == hclsyntax.TokenCHeredoc || tok.Type == hclsyntax.TokenOHeredoc && false:
			default:
				gap = rapid.SampledFrom([]string{"", "", " ", " ", "  ", "    "}).Draw(t, "gap")
			}
		}
		sb.WriteString(gap)
		sb.Write(tok.Bytes)
		prevEnd = tok.Range.End.Byte
		switch tok.Type {
		case hclsyntax.TokenOQuote, hclsyntax.TokenOHeredoc:
			stack = append(stack, false)
		case hclsyntax.TokenTemplateInterp, hclsyntax.TokenTemplateControl:
			stack = append(stack, true)
		case hclsyntax.TokenCQuote, hclsyntax.TokenCHeredoc, hclsyntax.TokenTemplateSeqEnd:
			if len(stack) > 1 {
				stack = stack[:len(stack)-1]
			}
		}
	}
	return sb.String()
}

// TestC09_Respace: the formatter on every spacing of a token sequence - the gap between
// every two adjacent code tokens is redrawn (none, one, several spaces), traversal steps,
// unary operators and brackets included.
func TestC09_Respace(t *testing.T) {
	hx.Run(t, "C09", "Respace", 8000,
		"error-free configuration (tree of C09/Format, or an expression-heavy attribute list) whose tokens are re-emitted with a redrawn gap - none, one or several spaces - between every pair of adjacent code tokens (gaps inside template text, around newlines and comments are kept); a respacing that no longer lexes to the same token sequence or no longer parses is skipped and counted; oracle: the C09 oracle (same token sequence, gaps are spaces, same AST and values, idempotent, earlier results unchanged); non-trivial = >=10 tokens and at least one gap removed and one widened; distinct by text",
		func(c *hx.Case) {
			t := c.T
			sc := gen.DrawScope(t, gen.ScopeOpts{Nulls: 12})
			tree := drawConfig(t, sc, 2, gen.ExprOpts{IllTyped: 10, HostileLits: false, Budget: 14, MaxDepth: 3})
			bo := drawBodyOpts(t)
			bo.BOM = false
			base, _ := render.File(tree, rchooser{t}, bo)
			src := respace(t, []byte(base))
			c.Set("base", base)
			c.Set("source", src)
			a, _ := lexConfigToks([]byte(base))
			b, _ := lexConfigToks([]byte(src))
			if firstTokDiff(a, b) >= 0 {
				c.Class("skipped_respacing_fuses_tokens")
				c.Done(false, "")
				return
			}
			if _, diags := hclsyntax.ParseConfig([]byte(src), "t.hcl", hcl.InitialPos); diags.HasErrors() {
				c.Class("skipped_respacing_does_not_parse")
				c.Done(false, "")
				return
			}
			c.Class("respaced")
			checkFormat(c, []byte(src), evalCtx(sc))
		})
}

// TestC10_Respace: the same respaced sources through the writer tree (load, save, accessors).
func TestC10_Respace(t *testing.T) {
	hx.Run(t, "C10", "Respace", 6000,
		"error-free configuration whose tokens are re-emitted with a redrawn gap (none / one / several spaces) between every pair of adjacent code tokens, traversal steps included (see C09/Respace); oracle: hclwrite.ParseConfig succeeds without panic, File.Bytes() has the same token sequence and equals Format(source), the writer tree exposes the attributes, blocks and variable references hclsyntax finds; non-trivial = respacing kept the token sequence and the text has a traversal with >=2 steps; distinct by text",
		func(c *hx.Case) {
			t := c.T
			sc := gen.DrawScope(t, gen.ScopeOpts{Nulls: 12})
			tree := drawConfig(t, sc, 2, gen.ExprOpts{IllTyped: 10, HostileLits: false, Budget: 14, MaxDepth: 3})
			bo := drawBodyOpts(t)
			bo.BOM = false
			base, _ := render.File(tree, rchooser{t}, bo)
			src := respace(t, []byte(base))
			c.Set("base", base)
			c.Set("source", src)
			a, _ := lexConfigToks([]byte(base))
			b, _ := lexConfigToks([]byte(src))
			if firstTokDiff(a, b) >= 0 {
				c.Class("skipped_respacing_fuses_tokens")
				c.Done(false, "")
				return
			}
			if _, diags := hclsyntax.ParseConfig([]byte(src), "t.hcl", hcl.InitialPos); diags.HasErrors() {
				c.Class("skipped_respacing_does_not_parse")
				c.Done(false, "")
				return
			}
			c.Class("respaced")
			checkWriterRoundTripRaw(c, []byte(src))
			kinds := map[string]bool{}
			exprFeatures(tree, kinds)
			c.Done(hasTraversalFeature(kinds), src)
		})
}
