package props

import (
	"fmt"
	"regexp"
	"sort"
	"strings"

	"github.com/hashicorp/hcl/v2"
	"github.com/hashicorp/hcl/v2/hclsyntax"
	"github.com/zclconf/go-cty/cty"
	"github.com/zclconf/go-cty/cty/convert"
	"pgregory.net/rapid"

	"verifharness/ast"
	"verifharness/funcs"
	"verifharness/gen"
	"verifharness/hx"
	"verifharness/render"
)

// rchooser adapts rapid to render.Chooser.
type rchooser struct{ t *rapid.T }

func (c rchooser) Int(max int, label string) int {
	if max <= 0 {
		return 0
	}
	return rapid.IntRange(0, max).Draw(c.t, label)
}

var ctyFuncs = funcs.CtyFunctions()

func evalCtx(sc *gen.Scope) *hcl.EvalContext {
	vars := map[string]cty.Value{}
	for k, v := range sc.Vals {
		vars[k] = v
	}
	return &hcl.EvalContext{Variables: vars, Functions: ctyFuncs}
}

func scopeDump(sc *gen.Scope) map[string]string {
	m := map[string]string{}
	for _, n := range sc.Names {
		m[n] = sc.Vals[n].GoString()
	}
	return m
}

func scopeTypes(sc *gen.Scope) string {
	var parts []string
	for _, n := range sc.Names {
		parts = append(parts, n+":"+sc.Vals[n].Type().FriendlyName())
	}
	return strings.Join(parts, ",")
}

func featClasses(c *hx.Case, prefix string, m map[string]bool) {
	keys := make([]string, 0, len(m))
	for k, v := range m {
		if v {
			keys = append(keys, k)
		}
	}
	sort.Strings(keys)
	for _, k := range keys {
		c.Class(prefix + k)
	}
}

func featClassesN(c *hx.Case, prefix string, m map[string]int) {
	keys := make([]string, 0, len(m))
	for k, v := range m {
		if v > 0 {
			keys = append(keys, k)
		}
	}
	sort.Strings(keys)
	for _, k := range keys {
		c.Class(prefix + k)
	}
}

// nodeKinds counts node kinds of an AST for class histograms.
func nodeKinds(n ast.Node) map[string]bool {
	m := map[string]bool{}
	ast.Walk(n, func(x ast.Node) {
		name := fmt.Sprintf("%T", x)
		name = strings.TrimPrefix(name, "ast.")
		m[name] = true
		if b, ok := x.(ast.Binary); ok {
			m["op"+b.Op] = true
			for _, ch := range []ast.Node{b.L, b.R} {
				if cb, ok := ch.(ast.Binary); ok {
					m[fmt.Sprintf("oppair_%d_%d", ast.Prec(b.Op), ast.Prec(cb.Op))] = true
				}
			}
		}
	})
	return m
}

func parseExprSrc(src string) (hclsyntax.Expression, hcl.Diagnostics) {
	return hclsyntax.ParseExpression([]byte(src), "t.hcl", hcl.InitialPos)
}

// drawLayouts renders n in the canonical layout plus k random layouts.
func drawLayouts(t *rapid.T, n ast.Node, k int, wild int) ([]string, map[string]bool) {
	feats := map[string]bool{}
	out := []string{}
	s, _ := render.Expression(n, render.Fixed{}, render.Opts{Wild: 0})
	out = append(out, s)
	for i := 0; i < k; i++ {
		crlf := rapid.IntRange(0, 5).Draw(t, "crlf") == 0
		s, f := render.Expression(n, rchooser{t}, render.Opts{Wild: wild, CRLF: crlf})
		for kk, v := range f {
			if v {
				feats[kk] = true
			}
		}
		out = append(out, s)
	}
	return out, feats
}

func convertTo(v cty.Value, ty cty.Type) (cty.Value, error) { return convert.Convert(v, ty) }

type astNode = ast.Node

var ctyMismatchDetail = regexp.MustCompile(`(element|attribute) ("[^"]*"|\d+): .*$`)

// stableDetail removes the parts of a diagnostic detail that are not a function of the
// input: go-cty turns a panic inside a function into an error carrying a stack trace with
// addresses, and its type-mismatch message names whichever mismatching attribute Go's map
// iteration happens to visit first (convert.MismatchMessage ranges over a map).
func stableDetail(detail string) string {
	if i := strings.Index(detail, "panic in function implementation"); i >= 0 {
		detail = detail[:i] + "panic in function implementation"
	}
	return ctyMismatchDetail.ReplaceAllString(detail, "$1 <some mismatching member>")
}
