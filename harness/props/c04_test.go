package props

import (
	"fmt"
	"sort"
	"strings"
	"testing"

	"github.com/hashicorp/hcl/v2"
	"github.com/hashicorp/hcl/v2/ext/dynblock"
	"github.com/hashicorp/hcl/v2/hclsyntax"
	hcljson "github.com/hashicorp/hcl/v2/json"
	"github.com/zclconf/go-cty/cty"
	"pgregory.net/rapid"

	"verifharness/ast"
	"verifharness/gen"
	"verifharness/hx"
	"verifharness/ref"
	"verifharness/render"
)

// name pools for the structural checks: attribute names, block types and labels are
// pairwise disjoint (spec.md forbids a schema that uses one name for both an attribute
// and a block type, and JSON tells label levels from body levels only by the schema).
var sAttrNames = []string{"alpha", "beta", "gamma", "count", "for_each", "in", "if", "x_y"}
var sBlockTypes = []string{"blk", "res", "nested", "dyn_ish", "q"}
var sLabels = []string{"a", "b", "foo", "for", "null", "true", "x-y", "", " ", "a b", "é", "\"", "\\", "\n", "$", "${", "%{", "1", "#", "//"}

// drawLiteral draws a JSON-expressible literal expression.
func drawLiteral(t *rapid.T, depth int) ast.Node {
	max := 6
	if depth <= 0 {
		max = 4
	}
	switch rapid.IntRange(0, max).Draw(t, "litkind") {
	case 0:
		return ast.Num{Text: rapid.SampledFrom([]string{"0", "1", "2", "42", "1.5", "1e3", "123456789012345678901234567890"}).Draw(t, "num")}
	case 1:
		return ast.Unary{Op: "-", X: ast.Num{Text: rapid.SampledFrom([]string{"1", "2.5"}).Draw(t, "num")}}
	case 2:
		return ast.Bool{V: rapid.Bool().Draw(t, "b")}
	case 3:
		return ast.Null{}
	case 4:
		s := cty.StringVal(gen.HostileString().Draw(t, "s")).AsString()
		if s == "" {
			return ast.Template{}
		}
		return ast.Template{Parts: []ast.TPart{ast.TLit{Text: s}}}
	case 5:
		n := rapid.IntRange(0, 3).Draw(t, "n")
		var elems []ast.Node
		for i := 0; i < n; i++ {
			elems = append(elems, drawLiteral(t, depth-1))
		}
		return ast.Tuple{Elems: elems}
	default:
		n := rapid.IntRange(0, 3).Draw(t, "n")
		var items []ast.ObjItem
		seen := map[string]bool{}
		for i := 0; i < n; i++ {
			k := rapid.SampledFrom([]string{"k", "a", "b", "x-y", "for", "a b", "", "1"}).Draw(t, "k")
			if seen[k] {
				continue
			}
			seen[k] = true
			if gen.IsIdent(k) && k != "for" {
				items = append(items, ast.ObjItem{Kind: ast.KeyIdent, Name: k, Val: drawLiteral(t, depth-1)})
			} else {
				var key ast.Node = ast.Template{}
				if k != "" {
					key = ast.Template{Parts: []ast.TPart{ast.TLit{Text: k}}}
				}
				items = append(items, ast.ObjItem{Kind: ast.KeyExpr, Key: key, Val: drawLiteral(t, depth-1)})
			}
		}
		return ast.Object{Items: items}
	}
}

// drawStructBody draws a body over the structural pools; within one body every
// block type has one label count (so that the JSON form is well defined).
func drawStructBody(t *rapid.T, depth int, scalarOnly bool) *ast.Body {
	b := &ast.Body{}
	n := rapid.IntRange(0, 5).Draw(t, "nitems")
	seen := map[string]bool{}
	nlabels := map[string]int{}
	for i := 0; i < n; i++ {
		if depth > 0 && rapid.IntRange(0, 2).Draw(t, "isblock") == 0 {
			typ := rapid.SampledFrom(sBlockTypes).Draw(t, "btype")
			nl, ok := nlabels[typ]
			if !ok {
				nl = rapid.IntRange(0, 2).Draw(t, "nlabels")
				nlabels[typ] = nl
			}
			bl := ast.Block{Type: typ}
			for j := 0; j < nl; j++ {
				txt := cty.StringVal(rapid.SampledFrom(sLabels).Draw(t, "label")).AsString()
				bl.Labels = append(bl.Labels, ast.Label{Text: txt, Bare: gen.IsIdent(txt) && rapid.Bool().Draw(t, "bare")})
			}
			bl.Body = drawStructBody(t, depth-1, scalarOnly)
			b.Items = append(b.Items, bl)
			continue
		}
		name := rapid.SampledFrom(sAttrNames).Draw(t, "attrname")
		if seen[name] {
			continue
		}
		seen[name] = true
		d := 2
		if scalarOnly {
			d = 0
		}
		var e ast.Node
		for {
			e = drawLiteral(t, d)
			if _, isNull := e.(ast.Null); scalarOnly && isNull {
				continue
			}
			break
		}
		b.Items = append(b.Items, ast.Attr{Name: name, Expr: e})
	}
	return b
}

// drawRefSchema draws a schema over the pools, mostly fitting the body.
func drawRefSchema(t *rapid.T, b *ast.Body, allowMismatch bool) ref.Schema {
	var s ref.Schema
	present := map[string]bool{}
	for _, a := range b.Attrs() {
		present[a.Name] = true
	}
	for _, n := range sAttrNames {
		k := rapid.IntRange(0, 3).Draw(t, "schemattr")
		if k == 0 || (k == 1 && !present[n]) {
			continue
		}
		req := rapid.IntRange(0, 3).Draw(t, "required") == 0
		s.Attrs = append(s.Attrs, ref.AttrS{Name: n, Required: req})
	}
	actual := map[string]int{}
	for _, bl := range b.Blocks() {
		actual[bl.Type] = len(bl.Labels)
	}
	for _, typ := range sBlockTypes {
		if rapid.IntRange(0, 3).Draw(t, "schemablock") == 0 {
			continue
		}
		nl, ok := actual[typ]
		if !ok {
			nl = rapid.IntRange(0, 2).Draw(t, "nl")
		} else if allowMismatch && rapid.IntRange(0, 5).Draw(t, "mismatch") == 0 {
			nl = (nl + 1 + rapid.IntRange(0, 1).Draw(t, "delta")) % 3
		}
		s.Blocks = append(s.Blocks, ref.BlockS{Type: typ, NLabels: nl})
	}
	return s
}

func toHCLSchema(s ref.Schema) *hcl.BodySchema {
	out := &hcl.BodySchema{}
	for _, a := range s.Attrs {
		out.Attributes = append(out.Attributes, hcl.AttributeSchema{Name: a.Name, Required: a.Required})
	}
	for _, b := range s.Blocks {
		names := make([]string, b.NLabels, b.NLabels+2)
		for i := range names {
			names[i] = fmt.Sprintf("l%d", i)
		}
		out.Blocks = append(out.Blocks, hcl.BlockHeaderSchema{Type: b.Type, LabelNames: names})
	}
	return out
}

// sharedSchemas builds the schemas of the parts as a caller does who splits one list: the
// parts' Attributes and Blocks are consecutive sub-slices of one backing array each (so
// every part but the last has spare capacity that belongs to the next part).
func sharedSchemas(parts []ref.Schema) (schemas []*hcl.BodySchema, snapshot func() string) {
	var allA []hcl.AttributeSchema
	var allB []hcl.BlockHeaderSchema
	for _, p := range parts {
		one := toHCLSchema(p)
		allA = append(allA, one.Attributes...)
		allB = append(allB, one.Blocks...)
	}
	offA, offB := 0, 0
	for _, p := range parts {
		schemas = append(schemas, &hcl.BodySchema{Attributes: allA[offA : offA+len(p.Attrs)], Blocks: allB[offB : offB+len(p.Blocks)]})
		offA += len(p.Attrs)
		offB += len(p.Blocks)
	}
	snapshot = func() string { return fmt.Sprintf("%v|%v", allA, allB) }
	return schemas, snapshot
}

// splitSchema partitions a schema into k disjoint parts.
func splitSchema(t *rapid.T, s ref.Schema, k int) []ref.Schema {
	parts := make([]ref.Schema, k)
	for _, a := range s.Attrs {
		i := rapid.IntRange(0, k-1).Draw(t, "part")
		parts[i].Attrs = append(parts[i].Attrs, a)
	}
	for _, b := range s.Blocks {
		i := rapid.IntRange(0, k-1).Draw(t, "part")
		parts[i].Blocks = append(parts[i].Blocks, b)
	}
	return parts
}

func exhaustiveSchemaOf(b *ast.Body) ref.Schema {
	var s ref.Schema
	for _, a := range b.Attrs() {
		s.Attrs = append(s.Attrs, ref.AttrS{Name: a.Name})
	}
	seen := map[string]bool{}
	for _, bl := range b.Blocks() {
		if !seen[bl.Type] {
			seen[bl.Type] = true
			s.Blocks = append(s.Blocks, ref.BlockS{Type: bl.Type, NLabels: len(bl.Labels)})
		}
	}
	return s
}

func litValue(n ast.Node) cty.Value {
	r := ref.Eval(n, ref.NewEnv(nil))
	if r.Err || r.Unspec != "" {
		return cty.NilVal
	}
	return r.V
}

// compareContent checks an implementation's content against the model's, recursively.
func compareContent(c *hx.Case, what string, got *hcl.BodyContent, want ref.Content, depth int, vm string) {
	if got == nil {
		c.Failf("nil-content", "%s: nil content", what)
	}
	var gn, wn []string
	for n := range got.Attributes {
		gn = append(gn, n)
	}
	for n := range want.Attrs {
		wn = append(wn, n)
	}
	sort.Strings(gn)
	sort.Strings(wn)
	if strings.Join(gn, ",") != strings.Join(wn, ",") {
		c.Failf("attributes-differ", "%s: attributes {%s}, model {%s}", what, strings.Join(gn, ","), strings.Join(wn, ","))
	}
	for n, e := range want.Attrs {
		if vm == "mixed" {
			break
		}
		if vm == "unknown" {
			gv, diags := got.Attributes[n].Expr.Value(nil)
			if diags.HasErrors() || gv.IsKnown() {
				c.Failf("attribute-value", "%s.%s: value %#v (%s) inside a block generated from an unknown for_each, expected an unknown value", what, n, gv, diagStr(diags))
			}
			continue
		}
		wv := litValue(e)
		if wv == cty.NilVal {
			continue
		}
		gv, diags := got.Attributes[n].Expr.Value(nil)
		if diags.HasErrors() || !gv.RawEquals(wv) {
			c.Failf("attribute-value", "%s.%s: value %#v (%s), model %#v", what, n, gv, diagStr(diags), wv)
		}
	}
	// per type, same sequence of (labels)
	gb := map[string][]*hcl.Block{}
	for _, b := range got.Blocks {
		gb[b.Type] = append(gb[b.Type], b)
	}
	wb := map[string][]ref.MBlock{}
	for _, b := range want.Blocks {
		wb[b.Type] = append(wb[b.Type], b)
	}
	if len(got.Blocks) != len(want.Blocks) {
		c.Failf("block-count", "%s: %d blocks, model %d", what, len(got.Blocks), len(want.Blocks))
	}
	for typ, wl := range wb {
		gl := gb[typ]
		if len(gl) != len(wl) {
			c.Failf("block-count-per-type", "%s: %d blocks of type %q, model %d", what, len(gl), typ, len(wl))
		}
		for i := range wl {
			if strings.Join(gl[i].Labels, "\x00") != strings.Join(wl[i].Labels, "\x00") || len(gl[i].Labels) != len(wl[i].Labels) {
				c.Failf("block-labels", "%s: block %s#%d has labels %q, model %q", what, typ, i, gl[i].Labels, wl[i].Labels)
			}
			if depth < 3 {
				inner := exhaustiveSchemaOf(wl[i].Body)
				ic, idiags := gl[i].Body.Content(toHCLSchema(inner))
				wc := ref.NewView(wl[i].Body, false).Exhaustive(inner)
				if idiags.HasErrors() != wc.Err {
					c.Failf("nested-error-flag", "%s/%s#%d: nested exhaustive processing error=%v (%s), model %v", what, typ, i, idiags.HasErrors(), diagStr(idiags), wc.Err)
				}
				nvm := vm
				if wl[i].Unknown {
					nvm = "unknown"
				}
				compareContent(c, fmt.Sprintf("%s/%s#%d", what, typ, i), ic, wc, depth+1, nvm)
			}
		}
	}
}

type implBody struct {
	name string
	body hcl.Body
	json bool
	// dyn: the body comes out of dynblock.Expand (the known findings about its remaining
	// bodies apply)
	dyn bool
	// vm says what attribute values are expected to be: "" = the literal written,
	// "unknown" = unknown values (the body stands for a block generated from an unknown
	// for_each), "mixed" = not compared at this level (decided per nested block)
	vm string
	// rawHasBlocks: whether the text behind the (expanded) body tree has blocks, `dynamic`
	// blocks included, at that level (for the known finding about JustAttributes)
	rawHasBlocks func(tree *ast.Body) bool
}

// realise builds the implementations of a logical body.
func realise(c *hx.Case, tree *ast.Body) []implBody {
	t := c.T
	var out []implBody
	src, _ := render.File(tree, rchooser{t}, drawBodyOpts(t))
	c.Set("native", src)
	nf, diags := hclsyntax.ParseConfig([]byte(src), "t.hcl", hcl.InitialPos)
	if diags.HasErrors() {
		c.Failf("parse-error", "native rendering does not parse: %s", diagStr(diags))
	}
	out = append(out, implBody{name: "native", body: nf.Body})
	js, jfeat, ok := render.JSONFile(tree, rchooser{t}, true, false)
	if ok {
		c.Set("json", js)
		for k := range jfeat {
			c.Class("json_" + k)
		}
		jf, diags := hcljson.Parse([]byte(js), "t.json")
		if diags.HasErrors() {
			c.Failf("json-parse-error", "JSON rendering does not parse: %s", diagStr(diags))
		}
		out = append(out, implBody{name: "json", body: jf.Body, json: true})
	}
	// merged: contiguous partition of the items into 2..3 files, each native or JSON
	k := rapid.IntRange(2, 3).Draw(t, "nfiles")
	cuts := []int{0}
	for i := 1; i < k; i++ {
		cuts = append(cuts, rapid.IntRange(0, len(tree.Items)).Draw(t, "cut"))
	}
	cuts = append(cuts, len(tree.Items))
	sort.Ints(cuts)
	var bodies []hcl.Body
	var desc []string
	mixed := false
	for i := 0; i+1 < len(cuts); i++ {
		part := &ast.Body{Items: tree.Items[cuts[i]:cuts[i+1]]}
		if rapid.Bool().Draw(t, "part_json") {
			pj, _, ok := render.JSONFile(part, rchooser{t}, true, false)
			if ok {
				pf, d := hcljson.Parse([]byte(pj), fmt.Sprintf("p%d.json", i))
				if d.HasErrors() {
					c.Failf("json-parse-error", "%s", diagStr(d))
				}
				bodies = append(bodies, pf.Body)
				desc = append(desc, pj)
				mixed = true
				continue
			}
		}
		ps, _ := render.File(part, rchooser{t}, drawBodyOpts(t))
		pf, d := hclsyntax.ParseConfig([]byte(ps), fmt.Sprintf("p%d.hcl", i), hcl.InitialPos)
		if d.HasErrors() {
			c.Failf("parse-error", "%s", diagStr(d))
		}
		bodies = append(bodies, pf.Body)
		desc = append(desc, ps)
	}
	c.Set("merged_parts", desc)
	out = append(out, implBody{name: "merged", body: hcl.MergeBodies(bodies), json: mixed})
	if mixed {
		c.Class("merged_mixed_syntax")
	}
	// dynblock expansion of a body without dynamic blocks is the identity on structure
	out = append(out, implBody{name: "dynblock", body: dynblock.Expand(nf.Body, &hcl.EvalContext{}), dyn: true})
	return out
}

// lawsOn judges one implementation of the logical body `tree` against the reference body
// model: L1 exhaustive, L2 partial + complement, L3 chain over `parts`, L4 reuse.
func lawsOn(c *hx.Case, im implBody, tree *ast.Body, S ref.Schema, parts []ref.Schema) {
	t := c.T
	mExh := ref.NewView(tree, false).Exhaustive(S)
	mPart, mRest := ref.NewView(tree, false).Partial(S)
	leftA, leftB := mRest.Leftovers()
	if mExh.LabelMismatch && im.json {
		// JSON distinguishes label levels from body levels only through the schema: a
		// label-count mismatch has no JSON counterpart (see DESIGN C03/C04)
		c.Class("json_label_mismatch_not_expressible")
		return
	}
	// L1 exhaustive
	var content *hcl.BodyContent
	var diags hcl.Diagnostics
	c.Guard(im.name+" Content", func() { content, diags = im.body.Content(toHCLSchema(S)) })
	if diags.HasErrors() != mExh.Err {
		c.Failf("L1-error-flag", "%s: Content error=%v (%s), model %v", im.name, diags.HasErrors(), diagStr(diags), mExh.Err)
	}
	compareContent(c, im.name+" Content", content, mExh, 0, im.vm)
	// L2 partial + complement
	var rest hcl.Body
	c.Guard(im.name+" PartialContent", func() { content, rest, diags = im.body.PartialContent(toHCLSchema(S)) })
	if diags.HasErrors() != mPart.Err {
		c.Failf("L2-error-flag", "%s: PartialContent error=%v (%s), model %v", im.name, diags.HasErrors(), diagStr(diags), mPart.Err)
	}
	compareContent(c, im.name+" PartialContent", content, mPart, 0, im.vm)
	if rest == nil {
		c.Failf("nil-remain", "%s: PartialContent returned a nil remaining body", im.name)
	}
	// the complement schema: exactly the leftovers, with their actual label counts
	var comp ref.Schema
	for _, a := range leftA {
		comp.Attrs = append(comp.Attrs, ref.AttrS{Name: a})
	}
	seenB := map[string]bool{}
	for _, bl := range tree.Blocks() {
		for _, lb := range leftB {
			if lb == bl.Type && !seenB[bl.Type] {
				seenB[bl.Type] = true
				comp.Blocks = append(comp.Blocks, ref.BlockS{Type: bl.Type, NLabels: len(bl.Labels)})
			}
		}
	}
	mComp := mRest.Exhaustive(comp)
	var rc *hcl.BodyContent
	c.Guard(im.name+" remain.Content", func() { rc, diags = rest.Content(toHCLSchema(comp)) })
	if diags.HasErrors() != mComp.Err {
		if im.dyn && mPart.LabelMismatch && diags.HasErrors() && c.Known("dynblock-remain-repeats-label-errors") {
			c.Class("excluded_known_dynblock_repeats_label_errors")
			return
		}
		c.Failf("L2-remain-error-flag", "%s: remaining body with the complement schema error=%v (%s), model %v", im.name, diags.HasErrors(), diagStr(diags), mComp.Err)
	}
	compareContent(c, im.name+" remain.Content", rc, mComp, 0, im.vm)
	// the remaining body processed with an empty schema complains iff there are leftovers
	_, ediags := rest.Content(&hcl.BodySchema{})
	if ediags.HasErrors() != (len(leftA)+len(leftB) > 0) {
		c.Failf("L2-leftovers", "%s: remaining body with the empty schema error=%v, model leftovers attrs=%v blocks=%v", im.name, ediags.HasErrors(), leftA, leftB)
	}
	// JustAttributes on the remainder when no block is left over
	// (json/spec.md: in dynamic-attributes mode a JSON body must be a single object, so
	// array-form JSON bodies legitimately fail here; the clause is judged on the others)
	if len(leftB) == 0 && !im.json {
		var ja hcl.Attributes
		c.Guard(im.name+" remain.JustAttributes", func() { ja, diags = rest.JustAttributes() })
		var names []string
		for n := range ja {
			names = append(names, n)
		}
		sort.Strings(names)
		if strings.Join(names, ",") != strings.Join(leftA, ",") {
			c.Failf("L2-justattributes", "%s: remain.JustAttributes gives {%s}, model {%s}", im.name, strings.Join(names, ","), strings.Join(leftA, ","))
		}
		if diags.HasErrors() {
			if (len(tree.Blocks()) > 0 || (im.rawHasBlocks != nil && im.rawHasBlocks(tree))) && im.dyn && c.Known("dynblock-justattributes-reports-consumed-blocks") {
				c.Class("excluded_known_dynblock_justattributes_consumed_blocks")
			} else {
				c.Failf("L2-justattributes-error", "%s: remain.JustAttributes reports %s although only attributes are left", im.name, diagStr(diags))
			}
		}
	}
	// L3 chain
	cur := im.body
	view := ref.NewView(tree, false)
	acc := ref.Content{Attrs: map[string]ast.Node{}}
	chainErr, mChainErr := false, false
	gotAttrs := map[string]*hcl.Attribute{}
	var gotBlocks hcl.Blocks
	shared, sharedSnapshot := sharedSchemas(parts)
	sharedBefore := sharedSnapshot()
	for i, p := range parts {
		var pc *hcl.BodyContent
		var pd hcl.Diagnostics
		var mc ref.Content
		if i < len(parts)-1 {
			var next hcl.Body
			c.Guard(im.name+" chain PartialContent", func() { pc, next, pd = cur.PartialContent(shared[i]) })
			cur = next
			mc, view = view.Partial(p)
		} else {
			c.Guard(im.name+" chain Content", func() { pc, pd = cur.Content(shared[i]) })
			mc = view.Exhaustive(p)
		}
		chainErr = chainErr || pd.HasErrors()
		mChainErr = mChainErr || mc.Err
		for n, a := range pc.Attributes {
			gotAttrs[n] = a
		}
		gotBlocks = append(gotBlocks, pc.Blocks...)
		for n, e := range mc.Attrs {
			acc.Attrs[n] = e
		}
		acc.Blocks = append(acc.Blocks, mc.Blocks...)
	}
	if after := sharedSnapshot(); after != sharedBefore {
		c.Failf("schema-modified", "%s: processing modified the caller's schema: %s became %s", im.name, sharedBefore, after)
	}
	if chainErr != mExh.Err || mChainErr != mExh.Err {
		c.Failf("L3-error-flag", "%s: chained processing error=%v (model chain %v), one-step union schema error=%v", im.name, chainErr, mChainErr, mExh.Err)
	}
	compareContent(c, im.name+" chain", &hcl.BodyContent{Attributes: gotAttrs, Blocks: gotBlocks}, mExh, 0, im.vm)
	_ = acc
	// L4 reuse: processing a body (or a remaining body) does not modify it - the same
	// remaining body object answers a second, different or repeated request as the
	// model (which is immutable) says
	if len(parts) >= 2 {
		var r1 hcl.Body
		c.Guard(im.name+" reuse PartialContent", func() { _, r1, _ = im.body.PartialContent(toHCLSchema(parts[0])) })
		_, v1 := ref.NewView(tree, false).Partial(parts[0])
		order := []int{1, 1}
		if len(parts) >= 3 {
			order = []int{rapid.IntRange(1, len(parts)-1).Draw(t, "reuse_a"), rapid.IntRange(1, len(parts)-1).Draw(t, "reuse_b"), rapid.IntRange(1, len(parts)-1).Draw(t, "reuse_c")}
		}
		for step, pi := range order {
			var pc *hcl.BodyContent
			var pd hcl.Diagnostics
			c.Guard(im.name+" reuse PartialContent", func() { pc, _, pd = r1.PartialContent(toHCLSchema(parts[pi])) })
			mc, _ := v1.Partial(parts[pi])
			if pd.HasErrors() != mc.Err {
				c.Failf("L4-reuse-error-flag", "%s: request %d on the same remaining body (schema part %d): error=%v (%s), model %v", im.name, step, pi, pd.HasErrors(), diagStr(pd), mc.Err)
			}
			compareContent(c, fmt.Sprintf("%s reuse step %d", im.name, step), pc, mc, 0, im.vm)
		}
		// and the original body still answers the exhaustive request as before
		var again *hcl.BodyContent
		var adiags hcl.Diagnostics
		c.Guard(im.name+" Content (again)", func() { again, adiags = im.body.Content(toHCLSchema(S)) })
		if adiags.HasErrors() != mExh.Err {
			c.Failf("L4-reuse-error-flag", "%s: Content on the original body after other requests: error=%v (%s), model %v", im.name, adiags.HasErrors(), diagStr(adiags), mExh.Err)
		}
		compareContent(c, im.name+" Content (again)", again, mExh, 0, im.vm)
	}
}

func TestC04_Laws(t *testing.T) {
	hx.Run(t, "C04", "Laws", 8000,
		"logical body (literal attributes, blocks with 0..2 labels, depth<=2; attribute names, block types and labels from pairwise disjoint pools) realised as native, JSON (any admissible encoding), MergeBodies of 2-3 files of mixed syntax, and dynblock.Expand of the native body; random schema (required attributes, absent names, label-count mismatches for the non-JSON bodies) split into 2..4 disjoint parts; oracle = reference body model: (L1) Content, (L2) PartialContent + complement on the remainder, (L3) chain of partial steps == union schema, JustAttributes, (L4) reuse: repeated and different requests on one remaining body object and on the original body give what the immutable model gives; non-trivial = matching and non-matching items both present, >=2 non-empty schema parts, and a required-missing / mismatch / leftover condition; distinct by (tree dump, schema)",
		func(c *hx.Case) {
			t := c.T
			tree := drawStructBody(t, 2, false)
			dump := ast.DumpBody(tree)
			c.Set("tree", dump)
			impls := realise(c, tree)
			S := drawRefSchema(t, tree, true)
			c.Set("schema", fmt.Sprintf("%+v", S))
			k := rapid.IntRange(2, 4).Draw(t, "k")
			parts := splitSchema(t, S, k)
			nonEmpty := 0
			for _, p := range parts {
				if len(p.Attrs)+len(p.Blocks) > 0 {
					nonEmpty++
				}
			}
			mExh := ref.NewView(tree, false).Exhaustive(S)
			mPart, mRest := ref.NewView(tree, false).Partial(S)
			leftA, leftB := mRest.Leftovers()
			for _, im := range impls {
				lawsOn(c, im, tree, S, parts)
			}
			hasMatch := len(mExh.Attrs)+len(mExh.Blocks) > 0
			hasLeft := len(leftA)+len(leftB) > 0
			c.Done(hasMatch && nonEmpty >= 2 && (hasLeft || mPart.Err), dump+fmt.Sprintf("|%+v", S))
		})
}
