package props

import (
	"bytes"
	"fmt"
	"io"
	"regexp"
	"sort"
	"strings"
	"testing"
	"unicode/utf8"

	"github.com/hashicorp/hcl/v2"
	"github.com/hashicorp/hcl/v2/hclsyntax"
	"github.com/hashicorp/hcl/v2/hclwrite"
	hcljson "github.com/hashicorp/hcl/v2/json"
	"github.com/zclconf/go-cty/cty"
	"pgregory.net/rapid"

	"verifharness/gen"
	"verifharness/hx"
	"verifharness/ref"
)

var neverValidTokens = map[hclsyntax.TokenType]bool{
	hclsyntax.TokenInvalid: true, hclsyntax.TokenBadUTF8: true, hclsyntax.TokenQuotedNewline: true,
	hclsyntax.TokenBitwiseAnd: true, hclsyntax.TokenBitwiseOr: true, hclsyntax.TokenBitwiseNot: true, hclsyntax.TokenBitwiseXor: true,
	hclsyntax.TokenStarStar: true, hclsyntax.TokenApostrophe: true, hclsyntax.TokenBacktick: true, hclsyntax.TokenSemicolon: true,
	hclsyntax.TokenTabs: true, hclsyntax.TokenNil: true,
}

// checkDiags asserts that every diagnostic is well-formed and lies inside the input.
func checkDiags(c *hx.Case, what string, diags hcl.Diagnostics, srcLen int, start hcl.Pos) {
	for i, d := range diags {
		if d == nil {
			c.Failf("nil-diagnostic", "%s: diagnostic %d is nil", what, i)
		}
		if d.Severity != hcl.DiagError && d.Severity != hcl.DiagWarning {
			c.Failf("diag-severity", "%s: diagnostic %d (%q) has severity %d", what, i, d.Summary, d.Severity)
		}
		if strings.TrimSpace(d.Summary) == "" {
			c.Failf("diag-summary", "%s: diagnostic %d has an empty summary (detail %q)", what, i, d.Detail)
		}
		c.Class("summary:" + d.Summary)
		for name, r := range map[string]*hcl.Range{"Subject": d.Subject, "Context": d.Context} {
			if r == nil {
				if name == "Subject" {
					c.Class("diag_without_subject")
				}
				continue
			}
			s, e := r.Start.Byte-start.Byte, r.End.Byte-start.Byte
			if s < 0 || e < s || e > srcLen {
				c.Failf("diag-range", "%s: diagnostic %q %s range bytes [%d,%d) outside input of %d bytes", what, d.Summary, name, s, e, srcLen)
			}
			if r.Start.Line < 1 || r.Start.Column < 1 || r.End.Line < r.Start.Line {
				c.Failf("diag-pos", "%s: diagnostic %q %s has position %d:%d-%d:%d", what, d.Summary, name, r.Start.Line, r.Start.Column, r.End.Line, r.End.Column)
			}
		}
	}
}

func diagsDump(diags hcl.Diagnostics) string {
	var sb strings.Builder
	for _, d := range diags {
		detail := stableDetail(d.Detail)
		fmt.Fprintf(&sb, "%d|%s|%s|", d.Severity, d.Summary, detail)
		if d.Subject != nil {
			fmt.Fprintf(&sb, "%v", *d.Subject)
		}
		sb.WriteString("|")
		if d.Context != nil {
			fmt.Fprintf(&sb, "%v", *d.Context)
		}
		sb.WriteString("\n")
	}
	return sb.String()
}

// renderDiags pushes diagnostics through the text writer (must not panic).
func renderDiags(c *hx.Case, diags hcl.Diagnostics, files map[string]*hcl.File) string {
	var buf bytes.Buffer
	c.Guard("DiagnosticTextWriter", func() {
		for _, w := range []uint{0, 78} {
			for _, color := range []bool{false, true} {
				wr := hcl.NewDiagnosticTextWriter(&buf, files, w, color)
				_ = wr.WriteDiagnostics(diags)
			}
		}
	})
	return buf.String()
}

var _ = io.Discard

var scopeMenu = []cty.Value{
	cty.StringVal("x"), cty.NumberIntVal(3), cty.True, cty.False,
	cty.ListVal([]cty.Value{cty.StringVal("a"), cty.StringVal("b")}),
	cty.ListValEmpty(cty.String),
	cty.ObjectVal(map[string]cty.Value{"id": cty.NumberIntVal(1), "name": cty.StringVal("n"), "a": cty.ListVal([]cty.Value{cty.NumberIntVal(1)})}),
	cty.MapVal(map[string]cty.Value{"a": cty.StringVal("1"), "b": cty.StringVal("2")}),
	cty.TupleVal([]cty.Value{cty.NumberIntVal(1), cty.StringVal("s")}),
	cty.SetVal([]cty.Value{cty.StringVal("a")}),
	cty.NullVal(cty.DynamicPseudoType), cty.NullVal(cty.String), cty.NullVal(cty.List(cty.String)),
	cty.UnknownVal(cty.String), cty.UnknownVal(cty.Number), cty.UnknownVal(cty.Bool), cty.DynamicVal, cty.UnknownVal(cty.List(cty.String)),
	cty.UnknownVal(cty.Map(cty.Number)), cty.UnknownVal(cty.String).RefineNotNull(),
	cty.StringVal("secret").Mark("m"), cty.NumberIntVal(7).Mark("m"), cty.True.Mark("m"),
	cty.ListVal([]cty.Value{cty.StringVal("a").Mark("m")}), cty.ListVal([]cty.Value{cty.StringVal("a")}).Mark("m"),
	cty.ObjectVal(map[string]cty.Value{"id": cty.NumberIntVal(1).Mark("m")}).Mark("n"),
	cty.UnknownVal(cty.String).Mark("m"), cty.DynamicVal.Mark("m"), cty.NullVal(cty.String).Mark("m"),
	cty.MapVal(map[string]cty.Value{"a": cty.StringVal("1")}).Mark("m"),
}

// randomCtx builds an evaluation context binding every referenced root name to a
// value from the menu (known, unknown, marked, null), possibly leaving some undefined.
func randomCtx(t *rapid.T, vars []hcl.Traversal) (*hcl.EvalContext, string) {
	names := map[string]bool{}
	for _, tr := range vars {
		if !tr.IsRelative() && len(tr) > 0 {
			names[tr.RootName()] = true
		}
	}
	var sorted []string
	for n := range names {
		sorted = append(sorted, n)
	}
	sort.Strings(sorted)
	ctx := &hcl.EvalContext{Variables: map[string]cty.Value{}, Functions: ctyFuncs}
	var desc []string
	for _, n := range sorted {
		k := rapid.IntRange(-1, len(scopeMenu)-1).Draw(t, "scopeval")
		if k < 0 {
			continue
		}
		ctx.Variables[n] = scopeMenu[k]
		desc = append(desc, fmt.Sprintf("%s=%#v", n, scopeMenu[k]))
	}
	if rapid.IntRange(0, 6).Draw(t, "childctx") == 0 {
		ctx = ctx.NewChild()
	}
	return ctx, strings.Join(desc, "; ")
}

func drawSchema(t *rapid.T) *hcl.BodySchema {
	s := &hcl.BodySchema{}
	na := rapid.IntRange(0, 3).Draw(t, "nattrs")
	seen := map[string]bool{}
	for i := 0; i < na; i++ {
		n := rapid.SampledFrom(gen.BodyAttrNames).Draw(t, "attr")
		if seen[n] {
			continue
		}
		seen[n] = true
		s.Attributes = append(s.Attributes, hcl.AttributeSchema{Name: n, Required: rapid.IntRange(0, 3).Draw(t, "req") == 0})
	}
	nb := rapid.IntRange(0, 3).Draw(t, "nblocks")
	for i := 0; i < nb; i++ {
		n := rapid.SampledFrom(gen.BodyBlockTypes).Draw(t, "btype")
		if seen[n] {
			continue
		}
		seen[n] = true
		nl := rapid.IntRange(0, 3).Draw(t, "nl")
		var labels []string
		for j := 0; j < nl; j++ {
			labels = append(labels, fmt.Sprintf("l%d", j))
		}
		s.Blocks = append(s.Blocks, hcl.BlockHeaderSchema{Type: n, LabelNames: labels})
	}
	return s
}

// exerciseBody applies schemas to a (possibly partial) body and evaluates its attributes.
func exerciseBody(c *hx.Case, what string, body hcl.Body, srcLen int, evaluate bool, depth int) {
	t := c.T
	if body == nil {
		c.Failf("nil-body", "%s: nil body", what)
	}
	schema := drawSchema(t)
	var content *hcl.BodyContent
	var rest hcl.Body
	var diags hcl.Diagnostics
	c.Guard(what+" Content", func() { content, diags = body.Content(schema) })
	checkDiags(c, what+" Content", diags, srcLen, hcl.InitialPos)
	if content == nil {
		c.Failf("nil-content", "%s: Content returned nil", what)
	}
	c.Guard(what+" PartialContent", func() { content, rest, diags = body.PartialContent(schema) })
	checkDiags(c, what+" PartialContent", diags, srcLen, hcl.InitialPos)
	if content == nil || rest == nil {
		c.Failf("nil-content", "%s: PartialContent returned nil content or remaining body", what)
	}
	var attrs hcl.Attributes
	c.Guard(what+" JustAttributes", func() { attrs, diags = body.JustAttributes() })
	checkDiags(c, what+" JustAttributes", diags, srcLen, hcl.InitialPos)
	c.Guard(what+" MissingItemRange", func() { _ = body.MissingItemRange() })
	if evaluate {
		names := make([]string, 0, len(attrs))
		for n := range attrs {
			names = append(names, n)
		}
		sort.Strings(names)
		for _, n := range names {
			expr := attrs[n].Expr
			var vars []hcl.Traversal
			c.Guard(what+" Variables", func() { vars = expr.Variables() })
			ctx, desc := randomCtx(t, vars)
			c.Set("eval_scope", desc)
			var ediags hcl.Diagnostics
			c.Guard(what+" Value", func() { _, ediags = expr.Value(ctx) })
			checkDiags(c, what+" Value", ediags, srcLen, hcl.InitialPos)
			c.Class("evaluated")
			c.Guard(what+" Value(nil)", func() { _, ediags = expr.Value(nil) })
			checkDiags(c, what+" Value(nil)", ediags, srcLen, hcl.InitialPos)
		}
	}
	if depth < 2 && content != nil {
		for i, b := range content.Blocks {
			if i > 2 {
				break
			}
			exerciseBody(c, what+"/"+b.Type, b.Body, srcLen, evaluate, depth+1)
		}
	}
}

var hugeExpNative = regexp.MustCompile(`[0-9][eE][+-]?[0-9]{5,}`)

// significantTokens lists the tokens that carry content (not comments/newlines/EOF).
func significantTokens(toks hclsyntax.Tokens) hclsyntax.Tokens {
	var out hclsyntax.Tokens
	for _, tk := range toks {
		switch tk.Type {
		case hclsyntax.TokenComment, hclsyntax.TokenNewline, hclsyntax.TokenEOF:
		default:
			out = append(out, tk)
		}
	}
	return out
}

func withinAny(tk hclsyntax.Token, ranges []hcl.Range) bool {
	for _, r := range ranges {
		if tk.Range.Start.Byte >= r.Start.Byte && tk.Range.End.Byte <= r.End.Byte {
			return true
		}
	}
	return false
}

func hasSyntaxError(node hclsyntax.Node) bool {
	found := false
	_ = hclsyntax.VisitAll(node, func(n hclsyntax.Node) hcl.Diagnostics {
		if _, ok := n.(*hclsyntax.ExprSyntaxError); ok {
			found = true
		}
		return nil
	})
	return found
}

func unusableByTokens(toks hclsyntax.Tokens) (bool, string) {
	for _, tk := range toks {
		if neverValidTokens[tk.Type] {
			return true, fmt.Sprintf("token %s %q can never appear in valid source", tk.Type, tk.Bytes)
		}
		if tk.Type == hclsyntax.TokenIdent && !utf8.Valid(tk.Bytes) {
			return true, "identifier token contains ill-formed UTF-8"
		}
	}
	return false, ""
}

func TestC15_Native(t *testing.T) {
	hx.Run(t, "C15", "Native", 12000,
		"byte string (valid programs, G-MUT mutants, concatenations, hostile bytes; <=4 KiB) fed to ParseConfig, ParseExpression, ParseTemplate, ParseTraversalAbs, ParseTraversalPartial; oracle: no panic, non-nil result, same result twice, unusable result (never-valid token, ExprSyntaxError, silently skipped token) implies an error diagnostic, well-formed in-bounds diagnostics, schema application and evaluation in random scopes (known/unknown/marked/null) panic-free; non-trivial = rejected mutant of a valid program, or accepted and evaluated; distinct by input",
		caseC15Native)
}

// checkUnmodified: the front ends only read their input - the caller's bytes are the same
// after the call (they are aliased by tokens and File.Bytes, and the caller may parse them again).
func checkUnmodified(c *hx.Case, what string, src []byte, orig string) {
	if string(src) != orig {
		c.Failf("input-modified", "%s modified the caller's input bytes: %q became %q", what, orig, string(src))
	}
}

func caseC15Native(c *hx.Case) {
	t := c.T
	text, kind := drawHostileInput(t)
	if len(text) > 4096 {
		text = text[:4096]
	}
	src := []byte(text)
	c.SetBytes("input", src)
	c.Class("input_" + kind)
	if hugeExpNative.Match(src) {
		c.Class("excluded_huge_exponent")
		c.Done(false, "")
		return
	}
	files := map[string]*hcl.File{}
	rejected, evaluated := false, false

	// --- ParseConfig
	var f *hcl.File
	var diags hcl.Diagnostics
	orig := string(src)
	c.Guard("ParseConfig", func() { f, diags = hclsyntax.ParseConfig(src, "t.hcl", hcl.InitialPos) })
	checkUnmodified(c, "ParseConfig", src, orig)
	if f == nil || f.Body == nil {
		c.Failf("nil-result", "ParseConfig returned a nil file or body")
	}
	files["t.hcl"] = f
	checkDiags(c, "ParseConfig", diags, len(src), hcl.InitialPos)
	f2, diags2 := hclsyntax.ParseConfig([]byte(orig), "t.hcl", hcl.InitialPos)
	if diagsDump(diags) != diagsDump(diags2) || dumpSyntax(f.Body) != dumpSyntax(f2.Body) {
		c.Failf("nondeterministic", "ParseConfig returned different results for the same input")
	}
	toks, _ := hclsyntax.LexConfig(src, "t.hcl", hcl.InitialPos)
	body := f.Body.(*hclsyntax.Body)
	if !diags.HasErrors() {
		if bad, why := unusableByTokens(toks); bad {
			if strings.Contains(why, "ill-formed UTF-8") && c.Known("ident-swallows-illformed-utf8") {
				c.Class("known_ident_swallow")
			} else {
				c.Failf("unusable-without-error", "ParseConfig reported no error although %s", why)
			}
		}
		if hasSyntaxError(body) {
			c.Failf("syntax-error-node-without-error", "ParseConfig returned an ExprSyntaxError node without an error diagnostic")
		}
		var ranges []hcl.Range
		for _, a := range body.Attributes {
			ranges = append(ranges, a.SrcRange)
		}
		for _, b := range body.Blocks {
			ranges = append(ranges, b.Range())
		}
		for _, tk := range significantTokens(toks) {
			if !withinAny(tk, ranges) {
				c.Failf("silent-loss", "ParseConfig reported no error but token %s %q at byte %d lies outside every attribute and block", tk.Type, tk.Bytes, tk.Range.Start.Byte)
			}
		}
		if utf8.Valid(src) {
			// an error inside a nested expression must not get lost either
			checkNoLostDiagnostics(c, src, body)
		}
	} else {
		rejected = true
	}
	_ = renderDiags(c, diags, files)
	exerciseBody(c, "native", f.Body, len(src), !diags.HasErrors(), 0)
	if !diags.HasErrors() && len(body.Attributes) > 0 {
		evaluated = true
	}

	// --- ParseExpression / ParseTemplate
	for _, m := range []struct {
		name  string
		parse func([]byte, string, hcl.Pos) (hclsyntax.Expression, hcl.Diagnostics)
		lex   func([]byte, string, hcl.Pos) (hclsyntax.Tokens, hcl.Diagnostics)
	}{{"ParseExpression", hclsyntax.ParseExpression, hclsyntax.LexExpression}, {"ParseTemplate", hclsyntax.ParseTemplate, hclsyntax.LexTemplate}} {
		var e hclsyntax.Expression
		c.Guard(m.name, func() { e, diags = m.parse(src, "t.hcl", hcl.InitialPos) })
		if e == nil {
			c.Failf("nil-result", "%s returned a nil expression", m.name)
		}
		checkDiags(c, m.name, diags, len(src), hcl.InitialPos)
		e2, diags2 := m.parse(append([]byte{}, src...), "t.hcl", hcl.InitialPos)
		if diagsDump(diags) != diagsDump(diags2) || dumpSyntax(e) != dumpSyntax(e2) {
			c.Failf("nondeterministic", "%s returned different results for the same input", m.name)
		}
		etoks, _ := m.lex(src, "t.hcl", hcl.InitialPos)
		if !diags.HasErrors() {
			if bad, why := unusableByTokens(etoks); bad {
				if strings.Contains(why, "ill-formed UTF-8") && c.Known("ident-swallows-illformed-utf8") {
					c.Class("known_ident_swallow")
				} else {
					c.Failf("unusable-without-error", "%s reported no error although %s", m.name, why)
				}
			}
			if hasSyntaxError(e) {
				c.Failf("syntax-error-node-without-error", "%s returned an ExprSyntaxError node without an error diagnostic", m.name)
			}
			if m.name == "ParseExpression" {
				for _, tk := range significantTokens(etoks) {
					if !withinAny(tk, []hcl.Range{e.Range()}) {
						c.Failf("silent-loss", "%s reported no error but token %s %q at byte %d lies outside the expression's range %v", m.name, tk.Type, tk.Bytes, tk.Range.Start.Byte, e.Range())
					}
				}
			}
			var vars []hcl.Traversal
			c.Guard(m.name+" Variables", func() { vars = e.Variables() })
			ctx, desc := randomCtx(t, vars)
			c.Set("eval_scope", desc)
			var ediags hcl.Diagnostics
			c.Guard(m.name+" Value", func() { _, ediags = e.Value(ctx) })
			checkDiags(c, m.name+" Value", ediags, len(src), hcl.InitialPos)
			_ = renderDiags(c, ediags, files)
			c.Guard(m.name+" Value(nil)", func() { _, ediags = e.Value(nil) })
			checkDiags(c, m.name+" Value(nil)", ediags, len(src), hcl.InitialPos)
			evaluated = true
		} else {
			rejected = true
		}
	}

	// --- traversal parsers
	for _, m := range []struct {
		name  string
		parse func([]byte, string, hcl.Pos) (hcl.Traversal, hcl.Diagnostics)
	}{{"ParseTraversalAbs", hclsyntax.ParseTraversalAbs}, {"ParseTraversalPartial", hclsyntax.ParseTraversalPartial}} {
		var tr hcl.Traversal
		c.Guard(m.name, func() { tr, diags = m.parse(src, "t.hcl", hcl.InitialPos) })
		checkDiags(c, m.name, diags, len(src), hcl.InitialPos)
		tr2, diags2 := m.parse(append([]byte{}, src...), "t.hcl", hcl.InitialPos)
		if diagsDump(diags) != diagsDump(diags2) || travString(tr) != travString(tr2) {
			c.Failf("nondeterministic", "%s returned different results for the same input", m.name)
		}
		if !diags.HasErrors() {
			if len(tr) == 0 {
				c.Failf("empty-traversal-without-error", "%s returned an empty traversal without an error", m.name)
			}
			etoks, _ := hclsyntax.LexExpression(src, "t.hcl", hcl.InitialPos)
			if bad, why := unusableByTokens(etoks); bad && !(strings.Contains(why, "ill-formed UTF-8") && c.Known("ident-swallows-illformed-utf8")) {
				c.Failf("unusable-without-error", "%s reported no error although %s", m.name, why)
			}
			c.Class("traversal_accepted")
		}
	}
	mutantLike := kind == "mutant" || kind == "concat"
	checkUnmodified(c, "parsing, schema application or evaluation", src, orig)
	c.Done((rejected && mutantLike) || evaluated, text)
}

func FuzzC15_Native(f *testing.F) { hx.Fuzz(f, "C15", "Native", caseC15Native) }

func TestC15_Writer(t *testing.T) {
	hx.Run(t, "C15", "Writer", 8000,
		"same inputs fed to hclwrite.ParseConfig and hclwrite.Format; oracle: no panic, nil file only together with errors, deterministic, Format terminates and is deterministic, diagnostics well-formed; non-trivial = rejected mutant or accepted file; distinct by input",
		caseC15Writer)
}

func caseC15Writer(c *hx.Case) {
	t := c.T
	text, kind := drawHostileInput(t)
	if len(text) > 4096 {
		text = text[:4096]
	}
	src := []byte(text)
	c.SetBytes("input", src)
	c.Class("input_" + kind)
	if hugeExpNative.Match(src) {
		c.Done(false, "")
		return
	}
	var f *hclwrite.File
	var diags hcl.Diagnostics
	worig := string(src)
	c.Guard("hclwrite.ParseConfig", func() { f, diags = hclwrite.ParseConfig(src, "t.hcl", hcl.InitialPos) })
	checkUnmodified(c, "hclwrite.ParseConfig", src, worig)
	checkDiags(c, "hclwrite.ParseConfig", diags, len(src), hcl.InitialPos)
	if f == nil && !diags.HasErrors() {
		c.Failf("nil-file-without-error", "hclwrite.ParseConfig returned nil without an error diagnostic")
	}
	_, sdiags := hclsyntax.ParseConfig(src, "t.hcl", hcl.InitialPos)
	if sdiags.HasErrors() != diags.HasErrors() {
		c.Failf("writer-vs-syntax", "hclwrite.ParseConfig error=%v but hclsyntax.ParseConfig error=%v", diags.HasErrors(), sdiags.HasErrors())
	}
	if f != nil {
		var out1, out2 []byte
		c.Guard("File.Bytes", func() { out1 = f.Bytes() })
		f2, _ := hclwrite.ParseConfig(append([]byte{}, src...), "t.hcl", hcl.InitialPos)
		if f2 == nil {
			c.Failf("nondeterministic", "second hclwrite.ParseConfig returned nil")
		}
		out2 = f2.Bytes()
		if !bytes.Equal(out1, out2) {
			c.Failf("nondeterministic", "hclwrite.ParseConfig+Bytes differ between two runs")
		}
		c.Class("writer_accepted")
		c.Guard("writer accessors", func() {
			walkWriterBody(f.Body(), 0)
		})
	}
	var fm1, fm2 []byte
	c.Guard("Format", func() { fm1 = hclwrite.Format(src) })
	checkUnmodified(c, "hclwrite.Format", src, worig)
	c.Guard("Format", func() { fm2 = hclwrite.Format([]byte(worig)) })
	if !bytes.Equal(fm1, fm2) {
		c.Failf("nondeterministic", "Format differs between two runs")
	}
	c.Done((diags.HasErrors() && (kind == "mutant" || kind == "concat")) || f != nil, text)
}

func FuzzC15_Writer(f *testing.F) { hx.Fuzz(f, "C15", "Writer", caseC15Writer) }

func walkWriterBody(b *hclwrite.Body, depth int) {
	for _, a := range b.Attributes() {
		_ = a.Expr().Variables()
		_ = a.BuildTokens(nil)
	}
	for _, bl := range b.Blocks() {
		_ = bl.Type()
		_ = bl.Labels()
		if depth < 4 {
			walkWriterBody(bl.Body(), depth+1)
		}
	}
}

func TestC15_JSON(t *testing.T) {
	hx.Run(t, "C15", "JSON", 10000,
		"byte string (valid JSON documents, near-miss mutants, hostile bytes) fed to json.Parse and json.ParseExpression; oracle: no panic, non-nil result, deterministic, rejection by the RFC 8259 recogniser implies an error diagnostic, in-bounds diagnostics, schema application and evaluation (nil and random contexts) panic-free; non-trivial = rejected mutant or evaluated document; distinct by input",
		caseC15JSON)
}

func caseC15JSON(c *hx.Case) {
	t := c.T
	var text, kind string
	switch rapid.IntRange(0, 5).Draw(t, "kind") {
	case 0:
		text, kind = gen.HostileBytes().Draw(t, "bytes"), "bytes"
	case 1:
		doc := gen.DrawJSON(t, gen.JSONOpts{Depth: 3, Strings: jsonTemplateStrings(), Keys: jsonTemplateKeys})
		text, _ = gen.RenderJSON(doc, rchooser{t}, true)
		kind = "valid"
	default:
		doc := gen.DrawJSON(t, gen.JSONOpts{Depth: 3, Strings: jsonTemplateStrings(), Keys: jsonTemplateKeys})
		base, _ := gen.RenderJSON(doc, rchooser{t}, rapid.Bool().Draw(t, "wild"))
		text, _ = gen.MutateJSON(t, base)
		kind = "mutant"
	}
	src := []byte(text)
	c.SetBytes("input", src)
	c.Class("input_" + kind)
	if hugeExpNative.Match(src) {
		c.Done(false, "")
		return
	}
	verdict, _ := ref.RecogniseJSON(src)
	var f *hcl.File
	var diags hcl.Diagnostics
	jorig := string(src)
	c.Guard("json.Parse", func() { f, diags = hcljson.Parse(src, "t.json") })
	checkUnmodified(c, "json.Parse", src, jorig)
	if f == nil || f.Body == nil {
		c.Failf("nil-result", "json.Parse returned a nil file or body")
	}
	checkDiags(c, "json.Parse", diags, len(src), hcl.InitialPos)
	_, diags2 := hcljson.Parse(append([]byte{}, src...), "t.json")
	if diagsDump(diags) != diagsDump(diags2) {
		c.Failf("nondeterministic", "json.Parse diagnostics differ between two runs")
	}
	if verdict == ref.JSONInvalid && !diags.HasErrors() {
		c.Failf("unusable-without-error", "json.Parse accepted text the RFC 8259 recogniser rejects")
	}
	files := map[string]*hcl.File{"t.json": f}
	_ = renderDiags(c, diags, files)
	// (ill-formed UTF-8 in a string is replaced by U+FFFD when the string is decoded, so the
	// template diagnostics of its evaluation are positioned in a longer text: known finding)
	evalBody := !diags.HasErrors() && (utf8.Valid(src) || !c.Known("json-template-range-after-illformed-utf8"))
	exerciseBody(c, "json", f.Body, len(src), evalBody, 0)
	var e hcl.Expression
	c.Guard("json.ParseExpression", func() { e, diags = hcljson.ParseExpression(src, "t.json") })
	if e == nil {
		c.Failf("nil-result", "json.ParseExpression returned nil")
	}
	checkDiags(c, "json.ParseExpression", diags, len(src), hcl.InitialPos)
	if verdict == ref.JSONInvalid && !diags.HasErrors() {
		c.Failf("unusable-without-error", "json.ParseExpression accepted text the RFC 8259 recogniser rejects")
	}
	evaluated := false
	if !diags.HasErrors() {
		var vars []hcl.Traversal
		c.Guard("json Variables", func() { vars = e.Variables() })
		ctx, desc := randomCtx(t, vars)
		c.Set("eval_scope", desc)
		var ediags hcl.Diagnostics
		c.Guard("json Value(ctx)", func() { _, ediags = e.Value(ctx) })
		if !utf8.Valid(src) && c.Known("json-template-range-after-illformed-utf8") {
			// decoded string content is longer than its source bytes: ranges are shifted (known)
			ediags = nil
		}
		checkDiags(c, "json Value(ctx)", ediags, len(src), hcl.InitialPos)
		_ = renderDiags(c, ediags, files)
		c.Guard("json Value(nil)", func() { _, ediags = e.Value(nil) })
		checkDiags(c, "json Value(nil)", ediags, len(src), hcl.InitialPos)
		c.Guard("json static analysis", func() {
			_, _ = hcl.ExprList(e)
			_, _ = hcl.ExprMap(e)
			_, _ = hcl.ExprCall(e)
			_, _ = hcl.AbsTraversalForExpr(e)
			_ = hcl.ExprAsKeyword(e)
		})
		evaluated = true
	}
	c.Done((diags.HasErrors() && kind == "mutant") || evaluated, text)
}

func FuzzC15_JSON(f *testing.F) { hx.Fuzz(f, "C15", "JSON", caseC15JSON) }

var jsonTemplateKeys = append(append([]string{}, gen.KeyPool...), "${a}", "${b}", "x${a}", "${a.id}", "${a}${b}", "%{if a}k%{endif}", "${null}", "${[a]}")

// jsonTemplateStrings draws strings that are interesting as templates in full-expression mode.
func jsonTemplateStrings() *rapid.Generator[string] {
	return rapid.OneOf(gen.HostileString(), rapid.SampledFrom([]string{
		"${a}", "${a.b}", "${a[0]}", "a-${b}-c", "%{if a}x%{endif}", "%{for x in a}${x}%{endfor}", "${a", "${", "%{", "${a}}", "${upper(a)}",
		"${a ? b : c}", "${[for x in a: x]}", "${a.*.id}", "${a[*].id}", "$${a}", "${\"${a}\"}", "${null}", "${1 + }", "${~ a ~}",
	}))
}
