package props

import (
	"fmt"
	"testing"

	"github.com/hashicorp/hcl/v2"
	"github.com/hashicorp/hcl/v2/hclsyntax"
	hcljson "github.com/hashicorp/hcl/v2/json"
	"github.com/zclconf/go-cty/cty"
	"pgregory.net/rapid"

	"verifharness/ast"
	"verifharness/gen"
	"verifharness/hx"
	"verifharness/ref"
	"verifharness/render"
)

// TestC08_Keyed: blocks keyed by their labels (BlockMapSpec / BlockObjectSpec), the
// region where label paths of different blocks agree on some levels and differ on others.
func TestC08_Keyed(t *testing.T) {
	hx.Run(t, "C08", "Keyed", 8000,
		"directed family: a BlockMapSpec or BlockObjectSpec with 1-4 label names (optionally nested in a labelled block list, optionally with further labels read by BlockLabelSpec) and 1-6 blocks whose labels come from a two- or three-letter alphabet, so that label paths coincide, share prefixes, share suffixes and repeat in every combination; values are distinct per block; native and JSON; oracle = the reference decoder (nested maps/objects keyed by the labels in order, duplicate path = error) and type conformance; non-trivial = >=3 blocks, >=2 label names, no error; distinct by (spec dump, body dump)",
		func(c *hx.Case) {
			t := c.T
			nlabels := rapid.IntRange(1, 4).Draw(t, "nlabels")
			extra := rapid.IntRange(0, 1).Draw(t, "extra_labels")
			kind := rapid.SampledFrom([]gen.SpecKind{gen.SBlockMap, gen.SBlockObject}).Draw(t, "kind")
			nested := &gen.SpecM{Kind: gen.SObject, Fields: map[string]*gen.SpecM{
				"v": {Kind: gen.SAttr, Name: "alpha", Type: cty.String},
			}}
			for i := 0; i < extra; i++ {
				nested.Fields[fmt.Sprintf("lbl%d", i)] = &gen.SpecM{Kind: gen.SBlockLabel, Index: i, Name: fmt.Sprintf("label%d", i)}
			}
			keyed := &gen.SpecM{Kind: kind, Name: "blk", Nested: nested}
			for i := 0; i < nlabels; i++ {
				keyed.LabelNames = append(keyed.LabelNames, fmt.Sprintf("key%d", i))
			}
			ms := &gen.SpecM{Kind: gen.SObject, Fields: map[string]*gen.SpecM{"m": keyed}}
			alphabet := []string{"a", "b", "c"}[:rapid.IntRange(2, 3).Draw(t, "alphabet")]
			mkBlocks := func(label string) []ast.Item {
				var items []ast.Item
				n := rapid.IntRange(0, 6).Draw(t, label)
				for i := 0; i < n; i++ {
					bl := ast.Block{Type: "blk", Body: &ast.Body{Items: []ast.Item{ast.Attr{Name: "alpha", Expr: ast.Template{Parts: []ast.TPart{ast.TLit{Text: fmt.Sprintf("v%d", i)}}}}}}}
					for j := 0; j < nlabels+extra; j++ {
						txt := rapid.SampledFrom(alphabet).Draw(t, "label")
						bl.Labels = append(bl.Labels, ast.Label{Text: txt, Bare: rapid.Bool().Draw(t, "bare")})
					}
					items = append(items, bl)
				}
				return items
			}
			body := &ast.Body{Items: mkBlocks("nblocks")}
			if rapid.IntRange(0, 2).Draw(t, "wrap_in_list") == 0 {
				// the keyed blocks live inside the blocks of a list, each decoded separately
				ms = &gen.SpecM{Kind: gen.SObject, Fields: map[string]*gen.SpecM{"l": {Kind: gen.SBlockList, Name: "outer", Nested: ms}}}
				outer := &ast.Body{}
				for i, n := 0, rapid.IntRange(1, 3).Draw(t, "nouter"); i < n; i++ {
					outer.Items = append(outer.Items, ast.Block{Type: "outer", Body: &ast.Body{Items: mkBlocks("nblocks")}})
				}
				body = outer
				c.Class("nested_in_list")
			}
			c.Set("spec", ms.Dump())
			dump := ast.DumpBody(body)
			c.Set("body", dump)
			c.Class(fmt.Sprintf("labels_%d", nlabels))
			spec := toHCLDec(ms)
			want := ref.DecodeWith(ms, body, nil, ref.NewEnv(nil), ref.DecodeOpts{EmptyMultiLabelMapQuirk: hx.IsKnown("C08", "blockmap-multilabel-empty-type")})
			if want.Err {
				c.Class("reference_error")
			} else {
				c.Class("reference_value")
			}
			src, _ := render.File(body, rchooser{t}, drawBodyOpts(t))
			c.Set("native", src)
			f, diags := hclsyntax.ParseConfig([]byte(src), "t.hcl", hcl.InitialPos)
			if diags.HasErrors() {
				c.Failf("parse-error", "%s", diagStr(diags))
			}
			checkDecode(c, "native", f.Body, spec, ms, want, nil)
			if js, _, ok := render.JSONFile(body, rchooser{t}, true, false); ok {
				c.Set("json", js)
				jf, jd := hcljson.Parse([]byte(js), "t.json")
				if jd.HasErrors() {
					c.Failf("json-parse-error", "%s", diagStr(jd))
				}
				checkDecode(c, "json", jf.Body, spec, ms, want, nil)
			}
			nb := 0
			var count func(b *ast.Body)
			count = func(b *ast.Body) {
				for _, bl := range b.Blocks() {
					if bl.Type == "blk" {
						nb++
					}
					count(bl.Body)
				}
			}
			count(body)
			c.Done(nb >= 3 && nlabels >= 2 && !want.Err, ms.Dump()+"|"+dump)
		})
}
