package props

import (
	"fmt"
	"regexp"
	"sort"
	"strings"
	"testing"

	"github.com/hashicorp/hcl/v2"
	"github.com/hashicorp/hcl/v2/hclsyntax"
	hcljson "github.com/hashicorp/hcl/v2/json"
	"github.com/zclconf/go-cty/cty"
	"pgregory.net/rapid"

	"verifharness/ast"
	"verifharness/gen"
	"verifharness/hx"
	"verifharness/render"
)

var didYouMean = regexp.MustCompile(` Did you mean [^?]*\?`)

// normDiags renders diagnostics without the parts that legitimately depend on which
// other names exist in scope (the "Did you mean" suggestion).
func normDiags(diags hcl.Diagnostics) string {
	var parts []string
	for _, d := range diags {
		subj := ""
		if d.Subject != nil {
			subj = d.Subject.String()
		}
		detail := didYouMean.ReplaceAllString(d.Detail, "")
		detail = stableDetail(detail)
		parts = append(parts, fmt.Sprintf("%d|%s|%s|%s", d.Severity, d.Summary, detail, subj))
	}
	return strings.Join(parts, "\n")
}

func rootNames(trs []hcl.Traversal) map[string]bool {
	m := map[string]bool{}
	for _, tr := range trs {
		if len(tr) > 0 && !tr.IsRelative() {
			m[tr.RootName()] = true
		}
	}
	return m
}

func setString(m map[string]bool) string {
	var ks []string
	for k, v := range m {
		if v {
			ks = append(ks, k)
		}
	}
	sort.Strings(ks)
	return strings.Join(ks, ",")
}

// otherValue returns a value of a different type than v.
func otherValue(v cty.Value, t *rapid.T) cty.Value {
	cands := []cty.Value{cty.StringVal("other"), cty.NumberIntVal(424242), cty.True, cty.EmptyTupleVal,
		cty.ObjectVal(map[string]cty.Value{"zz": cty.True}), cty.NullVal(cty.String), cty.UnknownVal(cty.Number), cty.DynamicVal}
	start := rapid.IntRange(0, len(cands)-1).Draw(t, "other")
	for i := range cands {
		cv := cands[(start+i)%len(cands)]
		if !cv.Type().Equals(v.Type()) {
			return cv
		}
	}
	return cty.StringVal("other")
}

// checkVarsRelation is the C07 metamorphic oracle for one expression.
func checkVarsRelation(c *hx.Case, what string, expr hcl.Expression, sc *gen.Scope, wantFree map[string]bool) (proper bool) {
	t := c.T
	var vars []hcl.Traversal
	c.Guard(what+" Variables", func() { vars = expr.Variables() })
	R := rootNames(vars)
	c.Set("reported", setString(R))
	if wantFree != nil {
		c.Set("free_vars_of_ast", setString(wantFree))
		for n := range wantFree {
			if !R[n] {
				c.Failf("variable-not-reported", "%s: %q occurs free in the expression but is not reported (reported: %s)", what, n, setString(R))
			}
		}
		for n := range R {
			if !wantFree[n] {
				c.Failf("bound-or-spurious-name-reported", "%s: %q is reported but does not occur free in the expression (free: %s)", what, n, setString(wantFree))
			}
		}
	}
	full := evalCtx(sc)
	restricted := &hcl.EvalContext{Variables: map[string]cty.Value{}, Functions: ctyFuncs}
	changed := &hcl.EvalContext{Variables: map[string]cty.Value{}, Functions: ctyFuncs}
	for n, v := range sc.Vals {
		if R[n] {
			restricted.Variables[n] = v
			changed.Variables[n] = v
		} else {
			proper = true
			changed.Variables[n] = otherValue(v, t)
		}
	}
	var v1, v2, v3 cty.Value
	var d1, d2, d3 hcl.Diagnostics
	c.Guard(what+" Value(full)", func() { v1, d1 = expr.Value(full) })
	c.Guard(what+" Value(restricted)", func() { v2, d2 = expr.Value(restricted) })
	c.Guard(what+" Value(changed)", func() { v3, d3 = expr.Value(changed) })
	if !v1.RawEquals(v2) || normDiags(d1) != normDiags(d2) {
		c.Failf("restricted-scope-differs", "%s: full scope gives %#v [%s]; scope restricted to reported names {%s} gives %#v [%s]", what, v1, normDiags(d1), setString(R), v2, normDiags(d2))
	}
	if !v1.RawEquals(v3) || normDiags(d1) != normDiags(d3) {
		c.Failf("unreported-variable-matters", "%s: changing variables outside {%s} changed the outcome: %#v [%s] vs %#v [%s]", what, setString(R), v1, normDiags(d1), v3, normDiags(d3))
	}
	if d1.HasErrors() {
		c.Class("outcome_error")
	} else {
		c.Class("outcome_value")
	}
	return proper
}

func hasBinder(n ast.Node) bool {
	found := false
	ast.Walk(n, func(x ast.Node) {
		switch y := x.(type) {
		case ast.For:
			found = true
		case ast.Template:
			if partsHaveFor(y.Parts) {
				found = true
			}
		}
	})
	return found
}

func partsHaveFor(parts []ast.TPart) bool {
	for _, p := range parts {
		switch x := p.(type) {
		case ast.TFor:
			return true
		case ast.TIf:
			if partsHaveFor(x.Then) || partsHaveFor(x.Else) {
				return true
			}
		}
	}
	return false
}

// drawSplatTail draws `src[*]<steps>` / `src.*<steps>` with 1..4 steps; index steps (full
// splat only) have keys that are variables or small expressions.
func drawSplatTail(t *rapid.T, g *gen.EG, sc *gen.Scope) ast.Node {
	full := rapid.IntRange(0, 3).Draw(t, "full") > 0
	names := sc.Names
	if len(names) == 0 {
		names = []string{"undefined_a", "undefined_b"} // an empty scope: the references are still reported
	}
	var src ast.Node = ast.Var{Name: rapid.SampledFrom(names).Draw(t, "tail_src")}
	if rapid.IntRange(0, 3).Draw(t, "src_expr") == 0 {
		src = g.Expr(cty.DynamicPseudoType)
	}
	key := func() ast.Node {
		switch rapid.IntRange(0, 4).Draw(t, "tail_key") {
		case 0:
			return ast.Num{Text: "0"}
		case 1:
			return ast.Template{Parts: []ast.TPart{ast.TLit{Text: "k"}}}
		case 2, 3:
			return ast.Var{Name: rapid.SampledFrom(names).Draw(t, "key_var")}
		default:
			return g.Expr(rapid.SampledFrom([]cty.Type{cty.Number, cty.String}).Draw(t, "key_type"))
		}
	}
	sp := ast.Splat{Src: src, Full: full}
	lastLegacy := false
	for i := rapid.IntRange(1, 4).Draw(t, "tail_steps"); i > 0; i-- {
		k := rapid.IntRange(0, 3).Draw(t, "step_kind")
		switch {
		case k == 0 && !lastLegacy:
			sp.Steps = append(sp.Steps, ast.Step{Kind: ast.StepLegacy, N: rapid.IntRange(0, 1).Draw(t, "legacy_n")})
			lastLegacy = true
		case k == 1 && full:
			sp.Steps = append(sp.Steps, ast.Step{Kind: ast.StepIndex, Key: key()})
			lastLegacy = false
		default:
			sp.Steps = append(sp.Steps, ast.Step{Kind: ast.StepAttr, Name: rapid.SampledFrom([]string{"a", "id", "name", "tags"}).Draw(t, "step_attr")})
			lastLegacy = false
		}
	}
	return sp
}

func TestC07_Native(t *testing.T) {
	hx.Run(t, "C07", "Native", 20000,
		"native expression/template with nested for expressions, shadowing, splats, template for directives and all object-key forms, in a scope that defines more variables than are used; oracle: (1) reported root names == free variables of the AST (own scoping model), (2) evaluating in the scope restricted to the reported names gives identical value and diagnostics, (3) replacing every unreported variable by a value of another type changes nothing; non-trivial = a binding construct is present and the reported set is a proper subset of the scope; distinct by (AST dump, scope types)",
		func(c *hx.Case) {
			t := c.T
			sc := gen.DrawScope(t, gen.ScopeOpts{Nulls: 12})
			g := gen.NewEG(t, sc, gen.ExprOpts{IllTyped: 8})
			asTemplate := rapid.IntRange(0, 4).Draw(t, "bare_template") == 0
			var expr hclsyntax.Expression
			var diags hcl.Diagnostics
			var free map[string]bool
			var dump string
			binder := false
			if asTemplate {
				parts := g.Parts()
				if !render.PartsHeredocSafe(parts) {
					c.Done(false, "")
					return
				}
				src, _ := render.BareTemplate(parts, rchooser{t}, render.Opts{Wild: 1})
				c.Set("source", src)
				dump = ast.Dump(ast.Template{Parts: parts})
				free = ast.FreeVarsParts(parts)
				binder = partsHaveFor(parts)
				expr, diags = hclsyntax.ParseTemplate([]byte(src), "t.tmpl", hcl.InitialPos)
				c.Class("family_template")
			} else {
				n := g.Expr(cty.DynamicPseudoType)
				if rapid.IntRange(0, 5).Draw(t, "splat_tail") == 0 {
					// the static analysis does not depend on types: a splat with a freely
					// composed tail (attribute, legacy-index and computed-index steps in any
					// order, keys that are expressions of their own), possibly inside n
					tail := drawSplatTail(t, g, sc)
					switch rapid.IntRange(0, 3).Draw(t, "tail_embed") {
					case 0:
						n = tail
					case 1:
						n = ast.Tuple{Elems: []ast.Node{n, tail}}
					case 2:
						n = ast.For{ValVar: "it", Coll: tail, Val: ast.Tuple{Elems: []ast.Node{ast.Var{Name: "it"}, n}}}
					default:
						n = ast.Cond{P: ast.Bool{V: true}, T: tail, F: n}
					}
					c.Class("family_splat_tail")
				}
				src, _ := render.Expression(n, rchooser{t}, render.Opts{Wild: 1})
				c.Set("source", src)
				dump = ast.Dump(n)
				free = ast.FreeVars(n)
				binder = hasBinder(n)
				expr, diags = parseExprSrc(src)
				c.Class("family_expression")
			}
			c.Set("ast", dump)
			c.Set("scope", scopeDump(sc))
			featClassesN(c, "gen_", g.Feat)
			if diags.HasErrors() {
				c.Failf("parse-error", "generated source does not parse: %s", diagStr(diags))
			}
			proper := checkVarsRelation(c, "native", expr, sc, free)
			c.Done(binder && proper, dump+"|"+scopeTypes(sc))
		})
}

func TestC07_JSON(t *testing.T) {
	hx.Run(t, "C07", "JSON", 10000,
		"JSON expression whose strings and property names are templates (rendered from G-TMPL parts or hand-picked), nested arrays/objects; oracle: relations (2) and (3) of C07 plus: the reported names equal the union of what the native template parser reports for each string; non-trivial = a template sequence is present and the reported set is a proper subset of the scope; distinct by JSON text",
		func(c *hx.Case) {
			t := c.T
			sc := gen.DrawScope(t, gen.ScopeOpts{Nulls: 12})
			tmplStrings := rapid.Custom(func(t *rapid.T) string {
				if rapid.IntRange(0, 2).Draw(t, "handpicked") == 0 {
					return jsonTemplateStrings().Draw(t, "s")
				}
				g := gen.NewEG(t, sc, gen.ExprOpts{IllTyped: 8, NoHeredoc: true, Budget: 8, MaxDepth: 3})
				parts := g.Parts()
				if !render.PartsHeredocSafe(parts) {
					return "plain"
				}
				s, _ := render.BareTemplate(parts, rchooser{t}, render.Opts{Wild: 1})
				return s
			})
			keys := append(append([]string{}, jsonTemplateKeys...), "${x}", "${foo}-k", "${lst[0]}")
			doc := gen.DrawJSON(t, gen.JSONOpts{Depth: 3, Strings: tmplStrings, Keys: keys, NoDup: true})
			text, _ := gen.RenderJSON(doc, rchooser{t}, true)
			c.Set("json", text)
			c.Set("scope", scopeDump(sc))
			expr, diags := hcljson.ParseExpression([]byte(text), "t.json")
			if diags.HasErrors() {
				c.Failf("valid-json-rejected", "%s", diagStr(diags))
			}
			// expected names: union over every string and property name of the native template's variables
			want := map[string]bool{}
			hasSeq := false
			var walk func(v *gen.JVal)
			addTmpl := func(s string) {
				if strings.Contains(s, "${") || strings.Contains(s, "%{") {
					hasSeq = true
				}
				e, d := hclsyntax.ParseTemplate([]byte(s), "", hcl.Pos{Line: 1, Column: 2, Byte: 1})
				if d.HasErrors() {
					return
				}
				for n := range rootNames(e.Variables()) {
					want[n] = true
				}
			}
			walk = func(v *gen.JVal) {
				switch v.Kind {
				case gen.JStr:
					if !v.LoneSurrogate {
						addTmpl(v.Str)
					}
				case gen.JArr:
					for _, e := range v.Arr {
						walk(e)
					}
				case gen.JObj:
					for _, m := range v.Obj {
						addTmpl(m.Key)
						walk(m.Val)
					}
				}
			}
			walk(doc)
			var vars []hcl.Traversal
			c.Guard("json Variables", func() { vars = expr.Variables() })
			R := rootNames(vars)
			if setString(R) != setString(want) && !strings.Contains(text, `\ud83d"`) {
				c.Failf("json-variables-vs-native", "json Variables() reports {%s}; the native template parser reports {%s} for the strings and property names", setString(R), setString(want))
			}
			proper := checkVarsRelation(c, "json", expr, sc, nil)
			c.Done(hasSeq && proper, text)
		})
}
