package props

import (
	"fmt"
	"sort"
	"testing"

	"github.com/hashicorp/hcl/v2"
	"github.com/hashicorp/hcl/v2/hclsyntax"
	"github.com/zclconf/go-cty/cty"
	"pgregory.net/rapid"

	"verifharness/ast"
	"verifharness/gen"
	"verifharness/hx"
	"verifharness/ref"
	"verifharness/render"
)

func drawBodyOpts(t *rapid.T) render.BodyOpts {
	wild := rapid.SampledFrom([]int{0, 1, 2, 2}).Draw(t, "wild")
	return render.BodyOpts{
		Opts:           render.Opts{Wild: wild, CRLF: rapid.IntRange(0, 3).Draw(t, "crlf") == 0},
		BOM:            rapid.IntRange(0, 5).Draw(t, "bom") == 0,
		NoFinalNewline: rapid.IntRange(0, 4).Draw(t, "nofinal") == 0,
	}
}

// schemaFor builds the exhaustive schema of a body tree level.
func schemaFor(b *ast.Body) *hcl.BodySchema {
	s := &hcl.BodySchema{}
	for _, a := range b.Attrs() {
		s.Attributes = append(s.Attributes, hcl.AttributeSchema{Name: a.Name})
	}
	seen := map[string]int{}
	for _, bl := range b.Blocks() {
		if n, ok := seen[bl.Type]; ok && n == len(bl.Labels) {
			continue
		}
		if _, ok := seen[bl.Type]; ok {
			continue // differing label counts for one type cannot be expressed in one schema
		}
		seen[bl.Type] = len(bl.Labels)
		names := make([]string, len(bl.Labels))
		for i := range names {
			names[i] = fmt.Sprintf("l%d", i)
		}
		s.Blocks = append(s.Blocks, hcl.BlockHeaderSchema{Type: bl.Type, LabelNames: names})
	}
	return s
}

func uniformLabelCounts(b *ast.Body) bool {
	seen := map[string]int{}
	for _, bl := range b.Blocks() {
		if n, ok := seen[bl.Type]; ok && n != len(bl.Labels) {
			return false
		}
		seen[bl.Type] = len(bl.Labels)
	}
	return true
}

func checkSyntaxBody(c *hx.Case, want *ast.Body, got *hclsyntax.Body, path string) {
	wa := want.Attrs()
	if len(got.Attributes) != len(wa) {
		c.Failf("attr-count", "%s: parsed %d attributes, wrote %d", path, len(got.Attributes), len(wa))
	}
	// attributes in source order
	var names []string
	for n := range got.Attributes {
		names = append(names, n)
	}
	sort.Slice(names, func(i, j int) bool {
		return got.Attributes[names[i]].SrcRange.Start.Byte < got.Attributes[names[j]].SrcRange.Start.Byte
	})
	for i, a := range wa {
		if names[i] != a.Name {
			c.Failf("attr-names", "%s: attribute %d is %q, wrote %q", path, i, names[i], a.Name)
		}
		if tm, ok := a.Expr.(ast.Template); ok {
			if r := ref.Eval(tm, ref.NewEnv(nil)); r.Unspec == "" && !r.Err {
				v, diags := got.Attributes[a.Name].Expr.Value(nil)
				if diags.HasErrors() || !v.RawEquals(r.V) {
					c.Failf("attr-value", "%s.%s: value %#v (%s) want %#v", path, a.Name, v, diagStr(diags), r.V)
				}
			}
		}
		if num, ok := a.Expr.(ast.Num); ok {
			v, diags := got.Attributes[a.Name].Expr.Value(nil)
			wantV, _ := cty.ParseNumberVal(num.Text)
			if diags.HasErrors() || !v.RawEquals(wantV) {
				c.Failf("attr-value", "%s.%s: value %#v want %#v", path, a.Name, v, wantV)
			}
		}
	}
	wb := want.Blocks()
	if len(got.Blocks) != len(wb) {
		c.Failf("block-count", "%s: parsed %d blocks, wrote %d", path, len(got.Blocks), len(wb))
	}
	for i, bl := range wb {
		gb := got.Blocks[i]
		if gb.Type != bl.Type {
			c.Failf("block-type", "%s: block %d has type %q, wrote %q", path, i, gb.Type, bl.Type)
		}
		if len(gb.Labels) != len(bl.Labels) {
			c.Failf("label-count", "%s: block %d has labels %q, wrote %d labels", path, i, gb.Labels, len(bl.Labels))
		}
		for j, l := range bl.Labels {
			if gb.Labels[j] != l.Text {
				c.Failf("label-text", "%s: block %d label %d is %q, wrote %q", path, i, j, gb.Labels[j], l.Text)
			}
		}
		checkSyntaxBody(c, bl.Body, gb.Body, fmt.Sprintf("%s/%s[%d]", path, bl.Type, i))
	}
}

// checkContent verifies the public route: Content with the tree's own exhaustive schema.
func checkContent(c *hx.Case, want *ast.Body, body hcl.Body, path string) {
	if !uniformLabelCounts(want) {
		return
	}
	content, diags := body.Content(schemaFor(want))
	if diags.HasErrors() {
		c.Failf("content-error", "%s: Content with the exhaustive schema reports: %s", path, diagStr(diags))
	}
	wa := want.Attrs()
	if len(content.Attributes) != len(wa) {
		c.Failf("content-attr-count", "%s: Content returned %d attributes, wrote %d", path, len(content.Attributes), len(wa))
	}
	for _, a := range wa {
		if content.Attributes[a.Name] == nil {
			c.Failf("content-attr-missing", "%s: Content misses attribute %q", path, a.Name)
		}
	}
	wb := want.Blocks()
	if len(content.Blocks) != len(wb) {
		c.Failf("content-block-count", "%s: Content returned %d blocks, wrote %d", path, len(content.Blocks), len(wb))
	}
	// the block sequence is ordered: Content returns the blocks in the order written, across types
	for i, bl := range wb {
		if content.Blocks[i].Type != bl.Type {
			var got []string
			for _, b := range content.Blocks {
				got = append(got, b.Type)
			}
			c.Failf("content-block-order", "%s: Content returns the block types %q; block %d was written as %q", path, got, i, bl.Type)
		}
	}
	byType := map[string][]*hcl.Block{}
	for _, b := range content.Blocks {
		byType[b.Type] = append(byType[b.Type], b)
	}
	idx := map[string]int{}
	for i, bl := range wb {
		lst := byType[bl.Type]
		k := idx[bl.Type]
		idx[bl.Type]++
		if k >= len(lst) {
			c.Failf("content-block-missing", "%s: Content misses block %d of type %q", path, i, bl.Type)
		}
		gb := lst[k]
		if len(gb.Labels) != len(bl.Labels) {
			c.Failf("content-label-count", "%s: block %q #%d labels %q, wrote %d", path, bl.Type, k, gb.Labels, len(bl.Labels))
		}
		for j, l := range bl.Labels {
			if gb.Labels[j] != l.Text {
				c.Failf("content-label-text", "%s: block %q #%d label %d is %q, wrote %q", path, bl.Type, k, j, gb.Labels[j], l.Text)
			}
		}
		checkContent(c, bl.Body, gb.Body, fmt.Sprintf("%s/%s[%d]", path, bl.Type, i))
	}
	if len(wb) == 0 {
		attrs, diags := body.JustAttributes()
		if diags.HasErrors() || len(attrs) != len(wa) {
			c.Failf("justattrs", "%s: JustAttributes gave %d attributes (%s), wrote %d", path, len(attrs), diagStr(diags), len(wa))
		}
	}
}

func bodyFeatures(b *ast.Body, f map[string]bool, depth int) (items int) {
	for _, it := range b.Items {
		items++
		if bl, ok := it.(ast.Block); ok {
			if len(bl.Labels) > 0 {
				f["labelled_block"] = true
			}
			if depth > 0 {
				f["nested_block"] = true
			}
			for _, l := range bl.Labels {
				if !l.Bare {
					f["quoted_label"] = true
				} else {
					f["bare_label"] = true
				}
			}
			if len(bl.Body.Items) > 0 {
				f["nonempty_block"] = true
			}
			items += bodyFeatures(bl.Body, f, depth+1)
		}
	}
	return items
}

func TestC02_Structure(t *testing.T) {
	hx.Run(t, "C02", "Structure", 20000,
		"abstract body tree (attributes with literal values, blocks with 0..3 labels over the full label alphabet, depth<=3, one-line and empty blocks) x G-LAYOUT file rendering (indentation, blank lines, #, // and /* */ comments, LF/CRLF, BOM, missing final newline); non-trivial = >=2 items, a labelled or nested block and a non-canonical layout feature; distinct by tree dump",
		caseC02Structure)
}

func caseC02Structure(c *hx.Case) {
	t := c.T
	tree := gen.DrawBody(t, gen.BodyOpts{Depth: 3, Expr: func(oneLine bool) ast.Node {
		// numbers, and multi-line values: the heredoc forms are where structure and line
		// structure interact (closing marker, flush indentation, CRLF)
		k := rapid.IntRange(0, 5).Draw(t, "valuekind")
		if k <= 2 || (oneLine && k >= 4) {
			return ast.Num{Text: rapid.SampledFrom([]string{"0", "1", "42", "1.5", "1e3"}).Draw(t, "num")}
		}
		var parts []ast.TPart
		txt := ""
		for i, n := 0, rapid.IntRange(1, 3).Draw(t, "nlines"); i < n; i++ {
			txt += rapid.SampledFrom([]string{"a", "  b", "    c d", "", "x y"}).Draw(t, "line")
			if k >= 4 || i < n-1 {
				txt += "\n"
			}
		}
		if txt != "" {
			parts = append(parts, ast.TLit{Text: txt})
		}
		tm := ast.Template{Parts: parts}
		switch k {
		case 4:
			tm.Form = ast.Heredoc
		case 5:
			tm.Form = ast.FlushHeredoc
		}
		if tm.Form != ast.Quoted && !render.CanHeredoc(tm) {
			tm.Form = ast.Quoted
		}
		return tm
	}})
	dump := ast.DumpBody(tree)
	c.Set("tree", dump)
	bo := drawBodyOpts(t)
	src, r := render.File(tree, rchooser{t}, bo)
	c.Set("source", src)
	feats := map[string]bool{}
	items := bodyFeatures(tree, feats, 0)
	featClasses(c, "tree_", feats)
	featClasses(c, "layout_", r.Feat)
	f, diags := hclsyntax.ParseConfig([]byte(src), "t.hcl", hcl.InitialPos)
	if diags.HasErrors() {
		c.Failf("parse-error", "rendering does not parse: %s", diagStr(diags))
	}
	checkSyntaxBody(c, tree, f.Body.(*hclsyntax.Body), "")
	checkContent(c, tree, f.Body, "")
	layoutFeature := len(r.Feat) > 0
	c.Done(items >= 2 && (feats["labelled_block"] || feats["nested_block"]) && layoutFeature, dump)
}

func FuzzC02_Structure(f *testing.F) { hx.Fuzz(f, "C02", "Structure", caseC02Structure) }

// TestC02_DuplicateAttr: a body that defines an attribute name twice is always rejected.
func TestC02_DuplicateAttr(t *testing.T) {
	hx.Run(t, "C02", "DuplicateAttr", 8000,
		"body tree in which one (possibly nested) body defines one attribute name twice at arbitrary positions, in any layout; must be rejected with an error diagnostic; non-trivial = the duplicate is not adjacent or is nested; distinct by tree dump",
		func(c *hx.Case) {
			t := c.T
			tree := gen.DrawBody(t, gen.BodyOpts{Depth: 2})
			// choose a body (path) to receive the duplicate
			target := tree
			depth := 0
			for {
				bls := target.Blocks()
				if len(bls) == 0 || rapid.Bool().Draw(t, "stop") {
					break
				}
				k := rapid.IntRange(0, len(bls)-1).Draw(t, "which")
				// find kth block item and descend (Body is a pointer, so the edit is visible in the tree)
				target = bls[k].Body
				depth++
			}
			name := rapid.SampledFrom(gen.BodyAttrNames).Draw(t, "dupname")
			var kept []ast.Item
			for _, it := range target.Items {
				if a, ok := it.(ast.Attr); ok && a.Name == name {
					continue
				}
				kept = append(kept, it)
			}
			p1 := rapid.IntRange(0, len(kept)).Draw(t, "pos1")
			kept = append(kept[:p1], append([]ast.Item{ast.Attr{Name: name, Expr: ast.Num{Text: "1"}}}, kept[p1:]...)...)
			p2 := rapid.IntRange(0, len(kept)).Draw(t, "pos2")
			kept = append(kept[:p2], append([]ast.Item{ast.Attr{Name: name, Expr: ast.Num{Text: "2"}}}, kept[p2:]...)...)
			target.Items = kept
			// a block that now holds more than one item cannot stay in one-line form
			oneLine := false
			var fixOneLine func(b *ast.Body)
			fixOneLine = func(b *ast.Body) {
				for i, it := range b.Items {
					if bl, ok := it.(ast.Block); ok {
						if bl.OneLine && (len(bl.Body.Items) > 1 || len(bl.Body.Blocks()) > 0) {
							bl.OneLine = false
							b.Items[i] = bl
						}
						if bl.OneLine && len(bl.Body.Items) == 1 {
							oneLine = true
						}
						fixOneLine(bl.Body)
					}
				}
			}
			fixOneLine(tree)
			if oneLine {
				c.Class("one_line_block_with_attribute_present")
			}
			dump := ast.DumpBody(tree)
			c.Set("tree", dump)
			src, _ := render.File(tree, rchooser{t}, drawBodyOpts(t))
			c.Set("source", src)
			_, diags := hclsyntax.ParseConfig([]byte(src), "t.hcl", hcl.InitialPos)
			if !diags.HasErrors() {
				c.Failf("duplicate-accepted", "a body defining attribute %q twice was accepted without error", name)
			}
			adjacent := p2 == p1 || p2 == p1+1
			c.Done(!adjacent || depth > 0, dump)
		})
}
