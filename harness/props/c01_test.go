package props

import (
	"testing"

	"github.com/zclconf/go-cty/cty"
	"pgregory.net/rapid"

	"verifharness/ast"
	"verifharness/gen"
	"verifharness/hx"
)

func c01Nontrivial(n ast.Node, kinds map[string]bool, rfeat map[string]bool) bool {
	if ast.Count(n) < 3 {
		return false
	}
	for k := range kinds {
		if len(k) > 7 && k[:7] == "oppair_" {
			return true
		}
	}
	return kinds["Cond"] || kinds["Splat"] || kinds["For"] || kinds["Call"] || kinds["Template"] || kinds["Index"] || kinds["GetAttr"]
}

// TestC01_Layout: every rendering of an AST parses without errors and all
// renderings evaluate to the same outcome (pure layout independence; no reference).
func TestC01_Layout(t *testing.T) {
	hx.Run(t, "C01", "Layout", 12000,
		"AST from G-EXPR (type-directed, 1-in-6 ill-typed), scope of known values; 1 canonical + 3 random layouts; non-trivial = >=3 nodes with an operator pair / conditional / splat / for / call / template / index; distinct by (AST dump, scope types)",
		func(c *hx.Case) {
			t := c.T
			sc := gen.DrawScope(t, gen.ScopeOpts{Nulls: 12})
			g := gen.NewEG(t, sc, gen.ExprOpts{IllTyped: 6, HostileLits: true})
			n := g.Expr(cty.DynamicPseudoType)
			dump := ast.Dump(n)
			c.Set("ast", dump)
			c.Set("scope", scopeDump(sc))
			srcs, rfeat := drawLayouts(t, n, 3, 2)
			c.Set("sources", srcs)
			kinds := nodeKinds(n)
			featClasses(c, "node_", kinds)
			featClasses(c, "layout_", rfeat)
			ctx := evalCtx(sc)
			var firstVal cty.Value
			var firstErr bool
			for i, src := range srcs {
				expr, diags := parseExprSrc(src)
				if diags.HasErrors() {
					c.Set("failing_source", src)
					c.Failf("parse-error", "layout %d does not parse: %s", i, diagStr(diags))
				}
				var v cty.Value
				c.Guard("Value", func() { v, diags = expr.Value(ctx) })
				isErr := diags.HasErrors()
				if i == 0 {
					firstVal, firstErr = v, isErr
					continue
				}
				if isErr != firstErr {
					c.Set("failing_source", src)
					c.Failf("layout-error-flag", "layout %d error=%v but canonical layout error=%v (%s)", i, isErr, firstErr, diagStr(diags))
				}
				if !isErr && !v.RawEquals(firstVal) {
					c.Set("failing_source", src)
					c.Failf("layout-value", "layout %d evaluates to %#v, canonical layout to %#v", i, v, firstVal)
				}
			}
			if firstErr {
				c.Class("outcome_error")
			} else {
				c.Class("outcome_value")
			}
			c.Done(c01Nontrivial(n, kinds, rfeat), dump+"|"+scopeTypes(sc))
		})
}

var _ = rapid.Bool
