package props

import (
	"strings"
	"testing"

	"github.com/hashicorp/hcl/v2"
	"github.com/hashicorp/hcl/v2/hclsyntax"
	"github.com/zclconf/go-cty/cty"
	"github.com/zclconf/go-cty/cty/convert"
	"pgregory.net/rapid"

	"verifharness/ast"
	"verifharness/gen"
	"verifharness/hx"
	"verifharness/ref"
	"verifharness/render"
)

func c01Nontrivial(n ast.Node, kinds map[string]bool, rfeat map[string]bool) bool {
	if ast.Count(n) < 3 {
		return false
	}
	for k := range kinds {
		if len(k) > 7 && k[:7] == "oppair_" {
			return true
		}
	}
	return kinds["Cond"] || kinds["Splat"] || kinds["For"] || kinds["Call"] || kinds["Template"] || kinds["Index"] || kinds["GetAttr"]
}

// TestC01_Layout: every rendering of an AST parses without errors and all
// renderings evaluate to the same outcome (pure layout independence; no reference).
func TestC01_Layout(t *testing.T) {
	hx.Run(t, "C01", "Layout", 12000,
		"AST from G-EXPR (type-directed, 1-in-6 ill-typed), scope of known values; 1 canonical + 3 random layouts; non-trivial = >=3 nodes with an operator pair / conditional / splat / for / call / template / index; distinct by (AST dump, scope types)",
		func(c *hx.Case) {
			t := c.T
			sc := gen.DrawScope(t, gen.ScopeOpts{Nulls: 12})
			g := gen.NewEG(t, sc, gen.ExprOpts{IllTyped: 6, HostileLits: true})
			n := g.Expr(cty.DynamicPseudoType)
			dump := ast.Dump(n)
			c.Set("ast", dump)
			c.Set("scope", scopeDump(sc))
			srcs, rfeat := drawLayouts(t, n, 3, 2)
			c.Set("sources", srcs)
			kinds := nodeKinds(n)
			featClasses(c, "node_", kinds)
			featClasses(c, "layout_", rfeat)
			ctx := evalCtx(sc)
			var firstVal cty.Value
			var firstErr bool
			for i, src := range srcs {
				expr, diags := parseExprSrc(src)
				if diags.HasErrors() {
					c.Set("failing_source", src)
					c.Failf("parse-error", "layout %d does not parse: %s", i, diagStr(diags))
				}
				var v cty.Value
				c.Guard("Value", func() { v, diags = expr.Value(ctx) })
				isErr := diags.HasErrors()
				if i == 0 {
					firstVal, firstErr = v, isErr
					continue
				}
				if isErr != firstErr {
					c.Set("failing_source", src)
					c.Failf("layout-error-flag", "layout %d error=%v but canonical layout error=%v (%s)", i, isErr, firstErr, diagStr(diags))
				}
				if !isErr && !v.RawEquals(firstVal) {
					c.Set("failing_source", src)
					c.Failf("layout-value", "layout %d evaluates to %#v, canonical layout to %#v", i, v, firstVal)
				}
			}
			if firstErr {
				c.Class("outcome_error")
			} else {
				c.Class("outcome_value")
			}
			c.Done(c01Nontrivial(n, kinds, rfeat), dump+"|"+scopeTypes(sc))
		})
}

var _ = rapid.Bool

func refEnv(sc *gen.Scope) *ref.Env {
	vars := map[string]cty.Value{}
	for k, v := range sc.Vals {
		vars[k] = v
	}
	return ref.NewEnv(vars)
}

// knownNote reports whether the reference evaluation passed through a spot that a
// listed known finding is keyed on (counted; the case is then not judged).
func knownNote(c *hx.Case, env *ref.Env, r ref.Result) bool {
	if r.Note != "" && c.Known(r.Note) {
		return true
	}
	for _, n := range env.Notes() {
		if c.Known(n) {
			return true
		}
	}
	return false
}

// judge compares an implementation outcome with the reference verdict.
func judge(c *hx.Case, what string, env *ref.Env, r ref.Result, v cty.Value, diags hcl.Diagnostics) {
	isErr := diags.HasErrors()
	switch {
	case r.Err:
		if !isErr {
			if knownNote(c, env, r) {
				return
			}
			c.Failf("expected-error", "%s: the specification makes this erroneous, implementation returned %#v without error", what, v)
		}
	default:
		if isErr {
			if r.CondTypeErrOK {
				for _, d := range diags {
					if d.Severity == hcl.DiagError && d.Summary == "Inconsistent conditional result types" {
						c.Unspecified("U9-cond-unselected-erroneous-type")
						return
					}
				}
			}
			if knownNote(c, env, r) {
				return
			}
			c.Failf("unexpected-error", "%s: reference value %#v, implementation reports: %s", what, r.V, diagStr(diags))
		}
		if r.Loose {
			a, err1 := convert.Convert(v, r.V.Type())
			b, err2 := convert.Convert(r.V, v.Type())
			if (err1 == nil && a.RawEquals(r.V)) || (err2 == nil && b.RawEquals(v)) {
				return
			}
			if knownNote(c, env, r) {
				return
			}
			c.Failf("value-mismatch-loose", "%s: got %#v, reference %#v (type-loose comparison)", what, v, r.V)
		}
		if !v.RawEquals(r.V) {
			if knownNote(c, env, r) {
				return
			}
			c.Failf("value-mismatch", "%s: got %#v, reference %#v", what, v, r.V)
		}
	}
}

// TestC01_Eval: the implementation agrees with the reference interpreter.
func TestC01_Eval(t *testing.T) {
	hx.Run(t, "C01", "Eval", 30000,
		"AST from G-EXPR (type-directed, 1-in-6 ill-typed) + scope of known values, 2 layouts as stand-alone expression and 1 as attribute value, judged by the reference interpreter (ref.Eval); non-trivial = >=3 nodes with operator pair / conditional / splat / for / call / template / index and a specified outcome; distinct by (AST dump, scope types)",
		func(c *hx.Case) {
			t := c.T
			sc := gen.DrawScope(t, gen.ScopeOpts{Nulls: 12})
			g := gen.NewEG(t, sc, gen.ExprOpts{IllTyped: 6, HostileLits: true})
			n := g.Expr(cty.DynamicPseudoType)
			dump := ast.Dump(n)
			c.Set("ast", dump)
			c.Set("scope", scopeDump(sc))
			kinds := nodeKinds(n)
			featClasses(c, "node_", kinds)
			featClassesN(c, "gen_", g.Feat)
			env := refEnv(sc)
			r := ref.Eval(n, env)
			switch {
			case r.Unspec != "":
				c.Class("outcome_unspecified")
				c.Unspecified(r.Unspec)
			case r.Err:
				c.Class("outcome_error")
				c.Set("reference", "error")
			default:
				c.Class("outcome_value")
				c.Class("result_" + r.V.Type().FriendlyName())
				c.Set("reference", r.V.GoString())
			}
			ctx := evalCtx(sc)
			srcs, rfeat := drawLayouts(t, n, 1, 2)
			featClasses(c, "layout_", rfeat)
			for i, src := range srcs {
				c.Set("source", src)
				expr, diags := parseExprSrc(src)
				if diags.HasErrors() {
					c.Failf("parse-error", "layout %d does not parse: %s", i, diagStr(diags))
				}
				if r.Unspec != "" {
					// still total: no panic
					c.Guard("Value", func() { expr.Value(ctx) })
					continue
				}
				var v cty.Value
				c.Guard("Value", func() { v, diags = expr.Value(ctx) })
				judge(c, "expression", env, r, v, diags)
			}
			// embedded as an attribute value (newline-sensitive context)
			asrc, _ := render.AttrValue("attr", n, rchooser{t}, render.Opts{Wild: 2, CRLF: rapid.IntRange(0, 5).Draw(t, "crlf") == 0})
			c.Set("source", asrc)
			f, diags := hclsyntax.ParseConfig([]byte(asrc), "t.hcl", hcl.InitialPos)
			if diags.HasErrors() {
				c.Failf("attr-parse-error", "attribute form does not parse: %s", diagStr(diags))
			}
			attrs, diags := f.Body.JustAttributes()
			if diags.HasErrors() || len(attrs) != 1 || attrs["attr"] == nil {
				c.Failf("attr-structure", "attribute form: JustAttributes gave %d attributes: %s", len(attrs), diagStr(diags))
			}
			if r.Unspec == "" {
				var v cty.Value
				c.Guard("Value", func() { v, diags = attrs["attr"].Expr.Value(ctx) })
				judge(c, "attribute value", env, r, v, diags)
			}
			c.Done(r.Unspec == "" && c01Nontrivial(n, kinds, rfeat), dump+"|"+scopeTypes(sc))
		})
}

// TestC01_Heredoc: heredoc and flush-heredoc templates built from indented lines.
func TestC01_Heredoc(t *testing.T) {
	hx.Run(t, "C01", "Heredoc", 12000,
		"template in heredoc (1/3) or flush-heredoc (2/3) form whose literals are whole indented lines and line fragments, so that interpolations and directives stand at the start, in the middle and at the end of lines of differing indentation; no strip markers in 3 of 4 cases (flush heredocs with strip markers are an unspecified region); rendered as expression and as attribute value; judged by the reference interpreter (flush rule of the spec: minimum leading-space count over the lines, a line that starts with a sequence counts zero); non-trivial = flush form with >=2 lines and a sequence, specified outcome; distinct by (AST dump, scope types)",
		func(c *hx.Case) {
			t := c.T
			sc := gen.DrawScope(t, gen.ScopeOpts{Nulls: 12})
			nostrip := rapid.IntRange(0, 3).Draw(t, "nostrip") > 0
			g := gen.NewEG(t, sc, gen.ExprOpts{IllTyped: 12, HeredocLines: true, NoStrip: nostrip, Budget: 10})
			tn := g.HeredocTemplate()
			var n ast.Node = tn
			dump := ast.Dump(n)
			c.Set("ast", dump)
			c.Set("scope", scopeDump(sc))
			switch tn.Form {
			case ast.FlushHeredoc:
				c.Class("form_flush_heredoc")
			case ast.Heredoc:
				c.Class("form_heredoc")
			default:
				c.Class("form_quoted_fallback")
			}
			featClassesN(c, "gen_", g.Feat)
			env := refEnv(sc)
			r := ref.Eval(n, env)
			switch {
			case r.Unspec != "":
				c.Class("outcome_unspecified")
				c.Unspecified(r.Unspec)
			case r.Err:
				c.Class("outcome_error")
			default:
				c.Class("outcome_value")
				c.Set("reference", r.V.GoString())
			}
			ctx := evalCtx(sc)
			srcs, _ := drawLayouts(t, n, 1, 2)
			for i, src := range srcs {
				c.Set("source", src)
				expr, diags := parseExprSrc(src)
				if diags.HasErrors() {
					c.Failf("parse-error", "layout %d does not parse: %s", i, diagStr(diags))
				}
				var v cty.Value
				c.Guard("Value", func() { v, diags = expr.Value(ctx) })
				if r.Unspec == "" {
					judge(c, "expression", env, r, v, diags)
				}
			}
			asrc, _ := render.AttrValue("attr", n, rchooser{t}, render.Opts{Wild: 2, CRLF: rapid.IntRange(0, 5).Draw(t, "crlf") == 0})
			c.Set("source", asrc)
			f, diags := hclsyntax.ParseConfig([]byte(asrc), "t.hcl", hcl.InitialPos)
			if diags.HasErrors() {
				c.Failf("attr-parse-error", "attribute form does not parse: %s", diagStr(diags))
			}
			attrs, diags := f.Body.JustAttributes()
			if diags.HasErrors() || len(attrs) != 1 || attrs["attr"] == nil {
				c.Failf("attr-structure", "attribute form: JustAttributes gave %d attributes: %s", len(attrs), diagStr(diags))
			}
			if r.Unspec == "" {
				var v cty.Value
				c.Guard("Value", func() { v, diags = attrs["attr"].Expr.Value(ctx) })
				judge(c, "attribute value", env, r, v, diags)
			}
			lines := 0
			seq := false
			for _, p := range tn.Parts {
				if l, ok := p.(ast.TLit); ok {
					lines += strings.Count(l.Text, "\n")
				} else {
					seq = true
				}
			}
			c.Done(r.Unspec == "" && tn.Form == ast.FlushHeredoc && lines >= 2 && seq, dump+"|"+scopeTypes(sc))
		})
}

// TestC01_Template: stand-alone templates (ParseTemplate) agree with the reference.
func TestC01_Template(t *testing.T) {
	hx.Run(t, "C01", "Template", 12000,
		"template parts from G-TMPL (literals with whitespace next to sequences, interpolations, if/for directives, strip markers) parsed with ParseTemplate, judged by ref.EvalTemplate; non-trivial = >=2 parts with a strip marker or directive; distinct by (parts dump, scope types)",
		func(c *hx.Case) {
			t := c.T
			sc := gen.DrawScope(t, gen.ScopeOpts{Nulls: 12})
			g := gen.NewEG(t, sc, gen.ExprOpts{IllTyped: 8, HostileLits: true, NoHeredoc: true})
			parts := g.Parts()
			if !render.PartsHeredocSafe(parts) {
				c.Class("not_expressible_bare")
				c.Done(false, "")
				return
			}
			tn := ast.Template{Parts: parts, Form: ast.Heredoc}
			dump := ast.Dump(tn)
			c.Set("ast", dump)
			c.Set("scope", scopeDump(sc))
			featClassesN(c, "gen_", g.Feat)
			src, _ := render.BareTemplate(parts, rchooser{t}, render.Opts{Wild: 2})
			c.Set("source", src)
			env := refEnv(sc)
			r := ref.EvalTemplate(parts, env)
			expr, diags := hclsyntax.ParseTemplate([]byte(src), "t.tmpl", hcl.InitialPos)
			if diags.HasErrors() {
				c.Failf("parse-error", "template does not parse: %s", diagStr(diags))
			}
			ctx := evalCtx(sc)
			var v cty.Value
			c.Guard("Value", func() { v, diags = expr.Value(ctx) })
			switch {
			case r.Unspec != "":
				c.Class("outcome_unspecified")
				c.Unspecified(r.Unspec)
			case r.Err:
				c.Class("outcome_error")
				judge(c, "template", env, r, v, diags)
			default:
				c.Class("outcome_value")
				c.Set("reference", r.V.GoString())
				judge(c, "template", env, r, v, diags)
			}
			c.Done(r.Unspec == "" && len(parts) >= 2 && (g.Feat["tmpl_strip"] > 0 || g.Feat["tmpl_if"] > 0 || g.Feat["tmpl_for"] > 0), dump+"|"+scopeTypes(sc))
		})
}
