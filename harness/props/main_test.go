package props

import (
	"os"
	"testing"

	"verifharness/hx"
)

func TestMain(m *testing.M) {
	code := m.Run()
	hx.Flush()
	os.Exit(code)
}
