package props

import (
	"testing"

	"github.com/hashicorp/hcl/v2"
	"github.com/hashicorp/hcl/v2/ext/dynblock"
	"github.com/hashicorp/hcl/v2/hcldec"
	"github.com/hashicorp/hcl/v2/hclsyntax"
	"github.com/zclconf/go-cty/cty"

	"verifharness/hx"
)

// TestC07_TwoPhase: the flow that ext/dynblock/README.md documents for callers that build
// their scope on demand - ExpandVariablesHCLDec, Expand under that partial scope,
// hcldec.Variables of the expanded body, Decode - when some for_each collections are
// unknown at that point and turn into placeholder blocks.
func TestC07_TwoPhase(t *testing.T) {
	hx.Run(t, "C07", "TwoPhase", 5000,
		"directed family (shared with C18/UnknownForEach): 1..5 static and dynamic blocks of one type, dynamic ones over known or unknown collections, static ones reading variables nothing else reads, optionally nested; block-collection specs of every kind; R = roots of ExpandVariablesHCLDec(body, spec) united with hcldec.Variables(Expand(body, scope restricted to the former), spec); oracle: Decode(Expand(body, ctx), spec, ctx) with the scope restricted to R equals (value, error flag) the same under the full scope, and every variable read by a static block is in R; non-trivial = an unknown dynamic block next to a static block that reads a variable; distinct by (source, spec kind)",
		func(c *hx.Case) {
			t := c.T
			uc := drawUFECase(t)
			c.Set("source", uc.src)
			c.Set("spec", uc.kind)
			f, diags := hclsyntax.ParseConfig([]byte(uc.src), "t.hcl", hcl.InitialPos)
			if diags.HasErrors() {
				c.Failf("harness-generator", "%s", diagStr(diags))
			}
			full := &hcl.EvalContext{Variables: uc.abstract}
			restrict := func(keep map[string]bool) *hcl.EvalContext {
				out := &hcl.EvalContext{Variables: map[string]cty.Value{}}
				for n, v := range full.Variables {
					if keep[n] {
						out.Variables[n] = v
					}
				}
				return out
			}
			var ev, hv []hcl.Traversal
			c.Guard("ExpandVariablesHCLDec", func() { ev = dynblock.ExpandVariablesHCLDec(f.Body, uc.spec) })
			RE := rootNames(ev)
			c.Guard("hcldec.Variables(expanded)", func() { hv = hcldec.Variables(dynblock.Expand(f.Body, restrict(RE)), uc.spec) })
			R := map[string]bool{}
			for n := range RE {
				R[n] = true
			}
			for n := range rootNames(hv) {
				R[n] = true
			}
			c.Set("reported", setString(R))
			pruned := restrict(R)
			var v1, v2 cty.Value
			var d1, d2 hcl.Diagnostics
			c.Guard("Decode(Expand full)", func() { v1, d1 = hcldec.Decode(dynblock.Expand(f.Body, full), uc.spec, full) })
			c.Guard("Decode(Expand pruned)", func() { v2, d2 = hcldec.Decode(dynblock.Expand(f.Body, pruned), uc.spec, pruned) })
			if d1.HasErrors() != d2.HasErrors() || (!d1.HasErrors() && !v1.RawEquals(v2)) {
				c.Failf("two-phase-variables-insufficient", "with the scope restricted to the reported variables {%s}: %#v (err=%v: %s); with the full scope: %#v (err=%v: %s)", setString(R), v2, d2.HasErrors(), diagStr(d2), v1, d1.HasErrors(), diagStr(d1))
			}
			readsVar := false
			for _, n := range []string{"sv0", "sv1", "sv2", "sv3", "sv4"} {
				if containsWord(uc.src, n) {
					readsVar = true
				}
			}
			if uc.unknownPresent {
				c.Class("unknown_dynamic_present")
			}
			c.Done(uc.unknownPresent && readsVar, uc.src+"|"+uc.kind)
		})
}

func containsWord(s, w string) bool {
	for i := 0; i+len(w) <= len(s); i++ {
		if s[i:i+len(w)] == w {
			return true
		}
	}
	return false
}
