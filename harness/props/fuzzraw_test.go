package props

import (
	"bytes"
	"testing"
	"unicode/utf8"

	"github.com/hashicorp/hcl/v2"
	"github.com/hashicorp/hcl/v2/hclsyntax"
	"github.com/hashicorp/hcl/v2/hclwrite"
	"github.com/zclconf/go-cty/cty"

	"verifharness/hx"
)

// Raw-byte fuzz targets: the fuzzer's bytes are the input text itself. They complement the
// generator-driven targets (hx.Fuzz) for the properties whose domain is "every byte string".

var jsonSeeds = []string{`{}`, `[]`, `{"a":1,"b":[true,false,null],"c":{"d":"x\n\u00e9"}}`, `[1,2.5,-3e2,"${x}"]`, `"s"`, `0`, `-0.0`, `1e10`, ` [ 1 , 2 ] `, `{"a":{"b":[{"c":1}]}}`, `"\ud83d\ude00"`, `{"//":"c","a":"%{if x}y%{endif}"}`}

var hclSeeds = []string{"a = 1\n", "b \"l\" {\n  c = [1, 2, 3]\n}\n", "x = {a = 1, b = \"${y}\"}\n", "t = <<-EOT\n  a ${b}\n  EOT\n", "f = upper(\"a\")\n", "v = [for k, v in m : k => v if v]\n", "s = a.*.b[0]\n", "c = true ? 1 : 2 # c\n", "d = \"%{ for x in l }${x}%{ endfor }\"\n", "e = (1 + 2) * -3 /* c */\n", "\xef\xbb\xbfz = \"\u00e9\"\r\n",
	"d2 = \"%{ for k, v in l ~}${k}=${v}%{ endfor ~}%{ if c }y%{ else }n%{ endif }\"\n",
	"u = \"1\u20e3 a\u200db e\u0301 \U0001F468\u200d\U0001F469 \u0903x\" # \u65e5\u672c\n",
	"o = {for k, v in m : [k, 1][0] => v...}\n", "h = <<EOT\n${a}\n%{ if b }\n  x\n%{ endif }\nEOT\n",
	"dynamic \"b\" {\n  for_each = l\n  iterator = it\n  labels = [it.key]\n  content {\n    v = it.value\n  }\n}\n",
	"i = a[0].b[\"k\"].0.c[*].d\n", "n = 1e3 + 0x1 - 1.5E-2 % 7\n", "q = ns::fn(a, b...)\n", "w = a ? b : c ? d : e\n", "k = !a && b || c == d != e <= f\n"}

func FuzzRawC13_Accept(f *testing.F) {
	hx.FuzzBytes(f, "C13", "Accept", jsonSeeds, func(c *hx.Case, data []byte) {
		text := string(data)
		if hugeExponent.MatchString(text) {
			return
		}
		c.SetBytes("json", data)
		checkJSONAcceptance(c, text)
	})
}

func FuzzRawC14_Tiling(f *testing.F) {
	hx.FuzzBytes(f, "C14", "Tiling", hclSeeds, func(c *hx.Case, data []byte) {
		c.SetBytes("input", data)
		for _, m := range []struct {
			name string
			lex  func([]byte, string, hcl.Pos) (hclsyntax.Tokens, hcl.Diagnostics)
		}{{"LexConfig", hclsyntax.LexConfig}, {"LexExpression", hclsyntax.LexExpression}, {"LexTemplate", hclsyntax.LexTemplate}} {
			var toks hclsyntax.Tokens
			c.Guard(m.name, func() { toks, _ = m.lex(data, "t.hcl", hcl.InitialPos) })
			checkTiling(c, m.name, data, toks, hcl.InitialPos)
		}
	})
}

func FuzzRawC15_Native(f *testing.F) {
	hx.FuzzBytes(f, "C15", "Native", hclSeeds, func(c *hx.Case, src []byte) {
		if hugeExponent.Match(src) {
			return
		}
		c.SetBytes("input", src)
		var file *hcl.File
		var diags hcl.Diagnostics
		c.Guard("ParseConfig", func() { file, diags = hclsyntax.ParseConfig(src, "t.hcl", hcl.InitialPos) })
		if file == nil || file.Body == nil {
			c.Failf("nil-result", "ParseConfig returned a nil file or body")
		}
		checkDiags(c, "ParseConfig", diags, len(src), hcl.InitialPos)
		_, diags2 := hclsyntax.ParseConfig(append([]byte{}, src...), "t.hcl", hcl.InitialPos)
		if diagsDump(diags) != diagsDump(diags2) {
			c.Failf("nondeterministic", "ParseConfig returned different diagnostics for the same input")
		}
		body := file.Body.(*hclsyntax.Body)
		if !diags.HasErrors() {
			toks, _ := hclsyntax.LexConfig(src, "t.hcl", hcl.InitialPos)
			if bad, why := unusableByTokens(toks); bad && !(bytes.Contains([]byte(why), []byte("ill-formed UTF-8")) && c.Known("ident-swallows-illformed-utf8")) {
				c.Failf("unusable-without-error", "ParseConfig reported no error although %s", why)
			}
			if hasSyntaxError(body) {
				c.Failf("syntax-error-node-without-error", "ParseConfig returned an ExprSyntaxError node without an error diagnostic")
			}
			if utf8.Valid(src) {
				checkNoLostDiagnostics(c, src, body)
			}
		}
		// (as in the generator-driven check, a result is evaluated only when the parse was
		// error-free: after an error it is unusable by definition)
		exerciseLite(c, body, len(src), !diags.HasErrors())
		c.Guard("hclwrite.ParseConfig", func() {
			wf, wd := hclwrite.ParseConfig(src, "t.hcl", hcl.InitialPos)
			if !wd.HasErrors() {
				_ = wf.Bytes()
			}
		})
		c.Guard("hclwrite.Format", func() { _ = hclwrite.Format(src) })
	})
}

// exerciseLite applies schema-less processing and evaluation (nil context, and a context
// in which every referenced root is an unknown value) to a parsed body: no panic,
// well-formed diagnostics.
func exerciseLite(c *hx.Case, body *hclsyntax.Body, srcLen int, evaluate bool) {
	var attrs hcl.Attributes
	var d hcl.Diagnostics
	c.Guard("JustAttributes", func() { attrs, d = body.JustAttributes() })
	checkDiags(c, "JustAttributes", d, srcLen, hcl.InitialPos)
	for _, a := range attrs {
		if !evaluate {
			break
		}
		vars := map[string]cty.Value{}
		c.Guard("Variables", func() {
			for _, tr := range a.Expr.Variables() {
				if !tr.IsRelative() {
					vars[tr.RootName()] = cty.DynamicVal
				}
			}
		})
		for _, ctx := range []*hcl.EvalContext{nil, {Variables: vars, Functions: ctyFuncs}} {
			var vd hcl.Diagnostics
			c.Guard("Value", func() { _, vd = a.Expr.Value(ctx) })
			checkDiags(c, "Value", vd, srcLen, hcl.InitialPos)
		}
	}
	for _, bl := range body.Blocks {
		if bl.Body != nil {
			exerciseLite(c, bl.Body, srcLen, evaluate)
		}
	}
}

// errorFreeUTF8Config: the precondition of C09 / C10 ("every configuration that parses
// without errors"), restricted to well-formed UTF-8 (ill-formed input is accepted in
// places, which is a known finding of C14 / C15 and not the subject here).
func errorFreeUTF8Config(src []byte) bool {
	if hugeExponent.Match(src) || !utf8.Valid(src) {
		return false
	}
	_, diags := hclsyntax.ParseConfig(src, "t.hcl", hcl.InitialPos)
	return !diags.HasErrors()
}

func FuzzRawC09_Format(f *testing.F) {
	hx.FuzzBytes(f, "C09", "Format", hclSeeds, func(c *hx.Case, src []byte) {
		if !errorFreeUTF8Config(src) {
			return
		}
		c.SetBytes("source", src)
		checkFormat(c, src, &hcl.EvalContext{Functions: ctyFuncs})
	})
}

// checkWriterRoundTripRaw is the text-level part of the C10 oracle for an error-free source.
func checkWriterRoundTripRaw(c *hx.Case, src []byte) {
	var wf *hclwrite.File
	var diags hcl.Diagnostics
	c.Guard("hclwrite.ParseConfig", func() { wf, diags = hclwrite.ParseConfig(src, "t.hcl", hcl.InitialPos) })
	if diags.HasErrors() || wf == nil {
		c.Failf("writer-parse-error", "hclwrite.ParseConfig reports: %s", diagStr(diags))
	}
	var out []byte
	c.Guard("File.Bytes", func() { out = wf.Bytes() })
	inToks, _ := lexConfigToks(src)
	outToks, _ := lexConfigToks(out)
	if i := firstTokDiff(inToks, outToks); i >= 0 {
		c.Failf("token-sequence", "token %d differs: source %s, Bytes() %s", i, tokAt(inToks, i), tokAt(outToks, i))
	}
	var formatted []byte
	c.Guard("Format", func() { formatted = hclwrite.Format(src) })
	if !bytes.Equal(formatted, out) {
		c.Failf("bytes-vs-format", "File.Bytes() differs from Format(source)")
	}
	// every variable reference of the source is exposed by the writer tree
	sf, _ := hclsyntax.ParseConfig(src, "t.hcl", hcl.InitialPos)
	var walk func(sb *hclsyntax.Body, wb *hclwrite.Body, path string)
	walk = func(sb *hclsyntax.Body, wb *hclwrite.Body, path string) {
		wattrs := wb.Attributes()
		if len(wattrs) != len(sb.Attributes) {
			c.Failf("writer-attr-count", "%s: writer tree exposes %d attributes, source has %d", path, len(wattrs), len(sb.Attributes))
		}
		for name, a := range sb.Attributes {
			wa := wattrs[name]
			if wa == nil {
				c.Failf("writer-attr-missing", "%s: attribute %q is not exposed by the writer tree", path, name)
			}
			want := map[string]int{}
			for _, tr := range a.Expr.Variables() {
				want[tr.RootName()]++
			}
			got := map[string]int{}
			c.Guard("writer Variables", func() {
				for _, tr := range wa.Expr().Variables() {
					toks := tr.BuildTokens(nil)
					if len(toks) > 0 {
						got[string(toks[0].Bytes)]++
					}
				}
			})
			for n, k := range want {
				if got[n] != k {
					c.Failf("writer-variables", "%s.%s: the source refers to %q %d time(s), the writer tree exposes %d", path, name, n, k, got[n])
				}
			}
		}
		wblocks := wb.Blocks()
		if len(wblocks) != len(sb.Blocks) {
			c.Failf("writer-block-count", "%s: writer tree exposes %d blocks, source has %d", path, len(wblocks), len(sb.Blocks))
		}
		for i, bl := range sb.Blocks {
			if wblocks[i].Type() != bl.Type {
				c.Failf("writer-block-type", "%s: block %d Type() = %q, source %q", path, i, wblocks[i].Type(), bl.Type)
			}
			walk(bl.Body, wblocks[i].Body(), path+"/"+bl.Type)
		}
	}
	c.Guard("writer tree walk", func() { walk(sf.Body.(*hclsyntax.Body), wf.Body(), "") })
}

func FuzzRawC10_RoundTrip(f *testing.F) {
	hx.FuzzBytes(f, "C10", "RoundTrip", hclSeeds, func(c *hx.Case, src []byte) {
		if !errorFreeUTF8Config(src) {
			return
		}
		c.SetBytes("source", src)
		checkWriterRoundTripRaw(c, src)
	})
}
