package props

import (
	"fmt"
	"sort"
	"strings"
	"testing"

	"github.com/hashicorp/hcl/v2"
	"github.com/hashicorp/hcl/v2/hcldec"
	"github.com/hashicorp/hcl/v2/hclsyntax"
	hcljson "github.com/hashicorp/hcl/v2/json"
	"github.com/zclconf/go-cty/cty"
	"pgregory.net/rapid"

	"verifharness/ast"
	"verifharness/gen"
	"verifharness/hx"
	"verifharness/ref"
	"verifharness/render"
)

// structDump applies the exhaustive schema of the tree recursively and dumps what comes back.
func structDump(c *hx.Case, what string, body hcl.Body, tree *ast.Body, depth int, errs *bool) string {
	schema := toHCLSchema(exhaustiveSchemaOf(tree))
	var content *hcl.BodyContent
	var diags hcl.Diagnostics
	c.Guard(what+" Content", func() { content, diags = body.Content(schema) })
	if diags.HasErrors() {
		*errs = true
	}
	var sb strings.Builder
	var names []string
	for n := range content.Attributes {
		names = append(names, n)
	}
	sort.Strings(names)
	for _, n := range names {
		v, d := content.Attributes[n].Expr.Value(nil)
		if d.HasErrors() {
			fmt.Fprintf(&sb, "%s=ERR;", n)
		} else {
			fmt.Fprintf(&sb, "%s=%s;", n, v.GoString())
		}
	}
	byType := map[string][]*hcl.Block{}
	var types []string
	for _, b := range content.Blocks {
		if _, ok := byType[b.Type]; !ok {
			types = append(types, b.Type)
		}
		byType[b.Type] = append(byType[b.Type], b)
	}
	sort.Strings(types)
	tb := map[string][]ast.Block{}
	for _, b := range tree.Blocks() {
		tb[b.Type] = append(tb[b.Type], b)
	}
	for _, typ := range types {
		for i, b := range byType[typ] {
			fmt.Fprintf(&sb, "%s%q{", typ, b.Labels)
			if depth < 3 && i < len(tb[typ]) {
				sb.WriteString(structDump(c, what, b.Body, tb[typ][i].Body, depth+1, errs))
			}
			sb.WriteString("}")
		}
	}
	return sb.String()
}

// flatContent dumps one level of content: attribute names, the block sequence per type
// with labels, and the error flag.
func flatContent(cnt *hcl.BodyContent, d hcl.Diagnostics) string {
	if cnt == nil {
		return "nil"
	}
	var names []string
	for n := range cnt.Attributes {
		names = append(names, n)
	}
	sort.Strings(names)
	byType := map[string][]string{}
	var types []string
	for _, b := range cnt.Blocks {
		if _, ok := byType[b.Type]; !ok {
			types = append(types, b.Type)
		}
		byType[b.Type] = append(byType[b.Type], fmt.Sprintf("%q", b.Labels))
	}
	sort.Strings(types)
	var sb strings.Builder
	sb.WriteString(strings.Join(names, ","))
	for _, typ := range types {
		fmt.Fprintf(&sb, ";%s%s", typ, strings.Join(byType[typ], ""))
	}
	fmt.Fprintf(&sb, ";err=%v", d.HasErrors())
	return sb.String()
}

func TestC03_SameConfiguration(t *testing.T) {
	hx.Run(t, "C03", "SameConfiguration", 16000,
		"spec tree over every hcldec kind + a body built from it (literal, JSON-expressible values) and perturbed (missing required items, extra items, zero/one/many blocks, wrong literal types; label counts kept equal to the spec's, since JSON derives label levels from the schema); one native rendering and 4 admissible JSON encodings (object / array-of-objects bodies, label objects / arrays of label objects, arrays of bodies, duplicate property names, \"//\" properties); oracle: same Content (attributes, per-type block sequence with labels, recursively), RawEquals hcldec.Decode values with a nil context and with an empty non-nil context when no string contains a template introducer, equal error flags; non-trivial = a labelled block, two blocks of one type and an array form or duplicate property; distinct by (spec dump, body dump)",
		func(c *hx.Case) {
			t := c.T
			ms := gen.DrawSpec(t, gen.SpecOpts{Depth: 2, AttrNames: specAttrPool, BlockTypes: specBlockPool, BlockBias: 30})
			c.Set("spec", ms.Dump())
			kinds := map[string]bool{}
			specKinds(ms, kinds)
			featClasses(c, "spec_", kinds)
			noTemplates := rapid.Bool().Draw(t, "no_template_strings")
			body := gen.BodyFromSpec(t, ms, gen.BodyFromSpecOpts{Perturb: 25, Labels: sLabels, Expr: func(ty cty.Type) ast.Node {
				n := literalOfType(t, ty)
				if noTemplates {
					n = stripIntroducers(n)
				}
				return n
			}})
			if !jsonExpressible(ms, body) {
				c.Class("not_json_expressible")
				c.Done(false, "")
				return
			}
			dump := ast.DumpBody(body)
			c.Set("body", dump)
			spec := toHCLDec(ms)
			src, _ := render.File(body, rchooser{t}, drawBodyOpts(t))
			c.Set("native", src)
			nf, diags := hclsyntax.ParseConfig([]byte(src), "t.hcl", hcl.InitialPos)
			if diags.HasErrors() {
				c.Failf("parse-error", "%s", diagStr(diags))
			}
			var nErr bool
			nStruct := structDump(c, "native", nf.Body, body, 0, &nErr)
			var nVal cty.Value
			var nDiags hcl.Diagnostics
			c.Guard("native Decode", func() { nVal, nDiags = hcldec.Decode(nf.Body, spec, nil) })
			var nVal2 cty.Value
			var nDiags2 hcl.Diagnostics
			c.Guard("native Decode(ctx)", func() { nVal2, nDiags2 = hcldec.Decode(nf.Body, spec, &hcl.EvalContext{}) })
			devices := map[string]bool{}
			var jsons []string
			for k := 0; k < 4; k++ {
				js, feat, ok := render.JSONFile(body, rchooser{t}, true, false, blockAttrsTypes(ms)...)
				if !ok {
					c.Failf("harness-json", "body is not JSON-expressible")
				}
				jsons = append(jsons, js)
				c.Set("json", jsons)
				for f := range feat {
					devices[f] = true
				}
				jf, jd := hcljson.Parse([]byte(js), "t.json")
				if jd.HasErrors() {
					c.Failf("json-parse-error", "encoding %d does not parse: %s", k, diagStr(jd))
				}
				var jErr bool
				jStruct := structDump(c, "json", jf.Body, body, 0, &jErr)
				if jStruct != nStruct || jErr != nErr {
					c.Set("failing_json", js)
					c.Failf("content-differs", "encoding %d: Content differs.\n native (err=%v): %s\n json   (err=%v): %s", k, nErr, nStruct, jErr, jStruct)
				}
				// the same configuration processed in two steps (what gohcl's remain fields,
				// hcldec.PartialDecode and dynblock do): a partial request for some of the
				// names, then the rest asked of the remaining body - twice, it is a value
				if !nErr {
					full := exhaustiveSchemaOf(body)
					var first, second ref.Schema
					for _, a := range full.Attrs {
						if rapid.Bool().Draw(t, "first_step_attr") {
							first.Attrs = append(first.Attrs, a)
						} else {
							second.Attrs = append(second.Attrs, a)
						}
					}
					for _, b := range full.Blocks {
						if rapid.IntRange(0, 2).Draw(t, "first_step_block") == 0 {
							first.Blocks = append(first.Blocks, b)
						} else {
							second.Blocks = append(second.Blocks, b)
						}
					}
					twoStep := func(b hcl.Body) (string, string, string) {
						c1, rem, d1 := b.PartialContent(toHCLSchema(first))
						if rem == nil {
							return flatContent(c1, d1), "no remainder", ""
						}
						c2, d2 := rem.Content(toHCLSchema(second))
						c3, d3 := rem.Content(toHCLSchema(second))
						return flatContent(c1, d1), flatContent(c2, d2), flatContent(c3, d3)
					}
					var n1, n2, n3, j1, j2, j3 string
					c.Guard("two-step native", func() { n1, n2, n3 = twoStep(nf.Body) })
					c.Guard("two-step json", func() { j1, j2, j3 = twoStep(jf.Body) })
					if n1 != j1 || n2 != j2 || n3 != j3 || j2 != j3 {
						c.Set("failing_json", js)
						c.Failf("two-step-differs", "encoding %d, PartialContent(%+v) then twice Content(%+v) on the remainder:\n native: %s | %s | %s\n json:   %s | %s | %s", k, first, second, n1, n2, n3, j1, j2, j3)
					}
					if len(first.Attrs)+len(first.Blocks) > 0 && len(second.Blocks) > 0 {
						c.Class("two_step_compared")
					}
				}
				var jVal cty.Value
				var jDiags hcl.Diagnostics
				c.Guard("json Decode", func() { jVal, jDiags = hcldec.Decode(jf.Body, spec, nil) })
				if jDiags.HasErrors() != nDiags.HasErrors() {
					c.Set("failing_json", js)
					c.Failf("decode-error-flag", "encoding %d: native Decode error=%v (%s), JSON Decode error=%v (%s)", k, nDiags.HasErrors(), diagStr(nDiags), jDiags.HasErrors(), diagStr(jDiags))
				}
				if !nDiags.HasErrors() && !jVal.RawEquals(nVal) {
					c.Set("failing_json", js)
					c.Failf("decode-value", "encoding %d: native decodes to %#v, JSON to %#v", k, nVal, jVal)
				}
				// full-expression mode (non-nil context): strings are templates, so the JSON file
				// is written with "${" / "%{" escaped, as the native renderer escapes them
				js2, jf2 := js, jf
				if !noTemplates {
					var ok2 bool
					js2, _, ok2 = render.JSONFile(body, rchooser{t}, true, true, blockAttrsTypes(ms)...)
					if !ok2 {
						c.Failf("harness-json", "body is not JSON-expressible")
					}
					var jd2 hcl.Diagnostics
					jf2, jd2 = hcljson.Parse([]byte(js2), "t.json")
					if jd2.HasErrors() {
						c.Failf("json-parse-error", "escaped encoding %d does not parse: %s", k, diagStr(jd2))
					}
					c.Class("full_expression_mode_with_escapes")
				}
				var jVal2 cty.Value
				var jDiags2 hcl.Diagnostics
				c.Guard("json Decode(ctx)", func() { jVal2, jDiags2 = hcldec.Decode(jf2.Body, spec, &hcl.EvalContext{}) })
				if jDiags2.HasErrors() != nDiags2.HasErrors() || (!nDiags2.HasErrors() && !jVal2.RawEquals(nVal2)) {
					c.Set("failing_json", js2)
					c.Failf("decode-full-expression-mode", "encoding %d with an empty non-nil context: native %#v (err=%v), JSON %#v (err=%v: %s)", k, nVal2, nDiags2.HasErrors(), jVal2, jDiags2.HasErrors(), diagStr(jDiags2))
				}
			}
			// the block sequence, across types: a JSON encoding that writes every block as a
			// property (or array element) of its own keeps the order of the tree, and Content
			// with any ordering of the schema must return that order in both syntaxes
			if js, _, ok := render.JSONFileSeq(body, rchooser{t}, true, false, blockAttrsTypes(ms)...); ok && !nErr {
				jf, jd := hcljson.Parse([]byte(js), "t.json")
				if jd.HasErrors() {
					c.Failf("json-parse-error", "sequence-preserving encoding does not parse: %s", diagStr(jd))
				}
				schema := toHCLSchema(exhaustiveSchemaOf(body))
				if n := len(schema.Blocks); n > 1 {
					// rotate the schema's block list: its order is not the order of the result
					k := rapid.IntRange(0, n-1).Draw(t, "schema_rotation")
					schema.Blocks = append(append([]hcl.BlockHeaderSchema{}, schema.Blocks[k:]...), schema.Blocks[:k]...)
				}
				seq := func(b hcl.Body) string {
					var sb strings.Builder
					cnt, _ := b.Content(schema)
					for _, bl := range cnt.Blocks {
						fmt.Fprintf(&sb, "%s%q ", bl.Type, bl.Labels)
					}
					return sb.String()
				}
				var ns, jss string
				c.Guard("Content (sequence)", func() { ns, jss = seq(nf.Body), seq(jf.Body) })
				var want strings.Builder
				for _, bl := range body.Blocks() {
					lbls := []string{}
					for _, l := range bl.Labels {
						lbls = append(lbls, l.Text)
					}
					fmt.Fprintf(&want, "%s%q ", bl.Type, lbls)
				}
				if ns != jss || ns != want.String() {
					c.Set("failing_json", js)
					c.Failf("block-sequence", "block sequence written: %s\n native Content: %s\n JSON Content:   %s", want.String(), ns, jss)
				}
				if len(body.Blocks()) >= 3 {
					c.Class("sequence_compared")
				}
			}
			featClasses(c, "json_", devices)
			if nDiags.HasErrors() {
				c.Class("invalid")
			} else {
				c.Class("valid")
			}
			labelled, twoOfType := false, false
			var scan func(b *ast.Body)
			scan = func(b *ast.Body) {
				seen := map[string]int{}
				for _, bl := range b.Blocks() {
					if len(bl.Labels) > 0 {
						labelled = true
					}
					seen[bl.Type]++
					if seen[bl.Type] >= 2 {
						twoOfType = true
					}
					scan(bl.Body)
				}
			}
			scan(body)
			arrayish := devices["array_of_objects"] || devices["array_of_bodies"] || devices["duplicate_property"] || devices["merged_blocks"]
			c.Done(labelled && twoOfType && arrayish, ms.Dump()+"|"+dump)
		})
}

// stripIntroducers removes template introducers from string literals so that
// literal-only and full-expression mode must agree.
func stripIntroducers(n ast.Node) ast.Node {
	switch x := n.(type) {
	case ast.Template:
		var parts []ast.TPart
		for _, p := range x.Parts {
			if l, ok := p.(ast.TLit); ok {
				s := strings.NewReplacer("${", "$ {", "%{", "% {").Replace(l.Text)
				parts = append(parts, ast.TLit{Text: s})
			}
		}
		return ast.Template{Parts: parts}
	case ast.Tuple:
		out := ast.Tuple{}
		for _, e := range x.Elems {
			out.Elems = append(out.Elems, stripIntroducers(e))
		}
		return out
	case ast.Object:
		out := ast.Object{}
		for _, it := range x.Items {
			it.Val = stripIntroducers(it.Val)
			if it.Key != nil {
				it.Key = stripIntroducers(it.Key)
			}
			out.Items = append(out.Items, it)
		}
		return out
	}
	return n
}
