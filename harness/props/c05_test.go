package props

import (
	"fmt"
	"regexp"
	"strings"
	"testing"

	"github.com/hashicorp/hcl/v2"
	"github.com/hashicorp/hcl/v2/hclsyntax"
	"github.com/zclconf/go-cty/cty"
	"github.com/zclconf/go-cty/cty/convert"
	"pgregory.net/rapid"

	"verifharness/ast"
	"verifharness/gen"
	"verifharness/hx"
	"verifharness/render"
)

// consistent implements the C05 relation between an abstract and a concrete result.
// It returns a description of the first inconsistency, or "".
func consistent(abs, conc cty.Value, path string) string {
	abs, _ = abs.Unmark()
	conc, _ = conc.Unmark()
	if !abs.IsKnown() {
		if abs.Type() != cty.DynamicPseudoType {
			if _, err := convert.Convert(abs, conc.Type()); err != nil {
				return fmt.Sprintf("%s: unknown of type %s cannot stand for concrete %s", path, abs.Type().FriendlyName(), conc.Type().FriendlyName())
			}
		}
		r := abs.Range()
		if conc.IsNull() {
			if r.DefinitelyNotNull() {
				return fmt.Sprintf("%s: refined as not-null but the concrete result is null", path)
			}
			return ""
		}
		aty := abs.Type()
		switch {
		case aty == cty.String && conc.Type() == cty.String:
			if p := r.StringPrefix(); p != "" && !strings.HasPrefix(conc.AsString(), p) {
				return fmt.Sprintf("%s: refined with prefix %q but the concrete string is %q", path, p, conc.AsString())
			}
		case aty == cty.Number && conc.Type() == cty.Number:
			if lo, inc := r.NumberLowerBound(); lo.IsKnown() && !lo.IsNull() && !lo.AsBigFloat().IsInf() {
				if conc.LessThan(lo).True() || (!inc && conc.Equals(lo).True()) {
					return fmt.Sprintf("%s: lower bound %#v (inclusive=%v) violated by %#v", path, lo, inc, conc)
				}
			}
			if hi, inc := r.NumberUpperBound(); hi.IsKnown() && !hi.IsNull() && !hi.AsBigFloat().IsInf() {
				if conc.GreaterThan(hi).True() || (!inc && conc.Equals(hi).True()) {
					return fmt.Sprintf("%s: upper bound %#v (inclusive=%v) violated by %#v", path, hi, inc, conc)
				}
			}
		case aty.IsCollectionType() && (conc.Type().IsCollectionType() || conc.Type().IsTupleType() || conc.Type().IsObjectType()):
			l := conc.LengthInt()
			if l < r.LengthLowerBound() || l > r.LengthUpperBound() {
				return fmt.Sprintf("%s: length bounds [%d,%d] violated by concrete length %d", path, r.LengthLowerBound(), r.LengthUpperBound(), l)
			}
		}
		return ""
	}
	// known abstract part
	if abs.IsNull() {
		if !conc.IsNull() {
			return fmt.Sprintf("%s: abstract result is a known null but the concrete result is %#v", path, conc)
		}
		return ""
	}
	if conc.IsNull() {
		return fmt.Sprintf("%s: abstract result is known non-null %#v but the concrete result is null", path, abs)
	}
	aty, cty_ := abs.Type(), conc.Type()
	isCont := func(t cty.Type) bool { return t.IsCollectionType() || t.IsTupleType() || t.IsObjectType() }
	if !isCont(aty) || !isCont(cty_) {
		conv, err := convert.Convert(abs, cty_)
		if err != nil {
			return fmt.Sprintf("%s: abstract %#v cannot convert to the concrete type %s", path, abs, cty_.FriendlyName())
		}
		if !conv.RawEquals(conc) {
			return fmt.Sprintf("%s: known part %#v differs from the concrete %#v", path, abs, conc)
		}
		return ""
	}
	if aty.IsSetType() || cty_.IsSetType() {
		if abs.IsWhollyKnown() {
			conv, err := convert.Convert(abs, cty_)
			if err != nil || !conv.RawEquals(conc) {
				return fmt.Sprintf("%s: known set %#v differs from the concrete %#v", path, abs, conc)
			}
		}
		return ""
	}
	if abs.LengthInt() != conc.LengthInt() {
		return fmt.Sprintf("%s: known container of length %d but the concrete result has length %d", path, abs.LengthInt(), conc.LengthInt())
	}
	ai, ci := abs.ElementIterator(), conc.ElementIterator()
	for ai.Next() && ci.Next() {
		ak, av := ai.Element()
		ck, cv := ci.Element()
		if !ak.RawEquals(ck) {
			akc, err := convert.Convert(ak, ck.Type())
			if err != nil || !akc.RawEquals(ck) {
				return fmt.Sprintf("%s: key %#v of the abstract result vs key %#v of the concrete result", path, ak, ck)
			}
		}
		if msg := consistent(av, cv, fmt.Sprintf("%s[%s]", path, keyStr(ak))); msg != "" {
			return msg
		}
	}
	return ""
}

// condDynamicBranch reports whether the expression contains a conditional one of whose
// branches has an undetermined (dynamic) type under ctx while the other does not: the
// implementation then passes the selected branch through without converting it to the
// unified type (known finding cond-unconverted-when-other-branch-dynamic).
func condDynamicBranch(expr hclsyntax.Expression, ctxs ...*hcl.EvalContext) bool {
	found := false
	_ = hclsyntax.VisitAll(expr, func(n hclsyntax.Node) hcl.Diagnostics {
		ce, ok := n.(*hclsyntax.ConditionalExpr)
		if !ok || found {
			return nil
		}
		for _, ctx := range ctxs {
			func() {
				defer func() { _ = recover() }()
				tv, _ := ce.TrueResult.Value(ctx)
				fv, _ := ce.FalseResult.Value(ctx)
				td := tv.Type().HasDynamicTypes() && !tv.IsWhollyKnown()
				fd := fv.Type().HasDynamicTypes() && !fv.IsWhollyKnown()
				if td != fd {
					found = true
				}
			}()
		}
		return nil
	})
	return found
}

var negZero = regexp.MustCompile(`(^|[^0-9.])-0([^0-9.]|$)`)

// negativeZeroOnly reports whether the two results differ only in the sign of a zero:
// cty numbers compare -0 and 0 as equal (so a conditional on an unknown condition with
// the branches -0 and 0 is "decided"), but convert them to the strings "-0" and "0".
func negativeZeroOnly(a, b cty.Value) bool {
	norm := func(v cty.Value) string {
		u, _ := v.UnmarkDeep()
		s := u.GoString()
		for {
			t := negZero.ReplaceAllString(s, "${1}0${2}")
			if t == s {
				return s
			}
			s = t
		}
	}
	return norm(a) == norm(b)
}

func keyStr(k cty.Value) string {
	if k.Type() == cty.String {
		return fmt.Sprintf("%q", k.AsString())
	}
	return k.AsBigFloat().Text('f', -1)
}

func TestC05_Unknowns(t *testing.T) {
	hx.Run(t, "C05", "Unknowns", 20000,
		"expression from G-EXPR + concrete scope; a random non-empty subset of variables is abstracted (typed unknown, refined unknown with refinements true of the value, the dynamic value, or a known container with abstracted elements - never set members); one abstract run is compared with the original concrete run and 4 fresh concretisations; oracle = consistent(abs, conc) from the property text, plus: an error-free run without unknowns is wholly known; non-trivial = both runs error-free and the abstract result is not just the dynamic value; distinct by (AST dump, abstraction dump)",
		func(c *hx.Case) {
			t := c.T
			sc := gen.DrawScope(t, gen.ScopeOpts{Nulls: 14})
			g := gen.NewEG(t, sc, gen.ExprOpts{IllTyped: 14})
			n := g.Expr(cty.DynamicPseudoType)
			src, _ := render.Expression(n, render.Fixed{}, render.Opts{})
			dump := ast.Dump(n)
			c.Set("source", src)
			c.Set("scope", scopeDump(sc))
			featClassesN(c, "gen_", g.Feat)
			expr, diags := parseExprSrc(src)
			if diags.HasErrors() {
				c.Failf("parse-error", "%s", diagStr(diags))
			}
			// choose the abstracted subset among the variables that are actually used
			used := ast.FreeVars(n)
			var candidates []string
			for _, name := range sc.Names {
				if used[name] {
					candidates = append(candidates, name)
				}
			}
			absNodes := map[string]*gen.AbsNode{}
			for _, name := range candidates {
				if len(absNodes) == 0 || rapid.Bool().Draw(t, "abstract_more") {
					absNodes[name] = gen.DrawAbstraction(t, sc.Vals[name], 0)
				}
			}
			checkAbstraction(c, sc, expr, absNodes, dump)
		})
}

// checkAbstraction runs one abstract evaluation against the original scope and four fresh
// concretisations and judges each pair with the C05 relation.
func checkAbstraction(c *hx.Case, sc *gen.Scope, expr hclsyntax.Expression, absNodes map[string]*gen.AbsNode, dump string) {
	t := c.T
	absCtx := evalCtx(sc)
	var absDesc []string
	for name, an := range absNodes {
		absCtx.Variables[name] = an.Abstract()
	}
	for _, name := range sc.Names {
		if an, ok := absNodes[name]; ok {
			absDesc = append(absDesc, fmt.Sprintf("%s=%#v", name, an.Abstract()))
			c.Class(fmt.Sprintf("abskind_%d", an.Kind))
		}
	}
	c.Set("abstracted", absDesc)
	var absVal cty.Value
	var absDiags hcl.Diagnostics
	c.Guard("abstract Value", func() { absVal, absDiags = expr.Value(absCtx) })

	// the converse claim on the original concrete scope
	var concVal cty.Value
	var concDiags hcl.Diagnostics
	c.Guard("concrete Value", func() { concVal, concDiags = expr.Value(evalCtx(sc)) })
	if !concDiags.HasErrors() && !concVal.IsWhollyKnown() {
		c.Failf("unknown-from-known-scope", "evaluation without unknowns returned %#v", concVal)
	}
	nontrivial := false
	if len(absNodes) == 0 {
		c.Class("nothing_abstracted")
		c.Done(false, "")
		return
	}
	if absDiags.HasErrors() {
		c.Class("abstract_run_error")
		c.Done(false, "")
		return
	}
	c.Set("abstract_result", absVal.GoString())
	promises := absVal.IsKnown() || absVal.Type() != cty.DynamicPseudoType
	for k := 0; k < 5; k++ {
		ctx := evalCtx(sc)
		var concDesc []string
		if k > 0 {
			for _, name := range sc.Names {
				if an, ok := absNodes[name]; ok {
					ctx.Variables[name] = an.Sample(t)
					concDesc = append(concDesc, fmt.Sprintf("%s=%#v", name, ctx.Variables[name]))
				}
			}
		}
		var cv cty.Value
		var cd hcl.Diagnostics
		c.Guard("concrete Value", func() { cv, cd = expr.Value(ctx) })
		if cd.HasErrors() {
			c.Class("concrete_run_error")
			continue
		}
		c.Class("both_error_free")
		if !cv.IsWhollyKnown() {
			c.Set("concretisation", concDesc)
			c.Failf("unknown-from-known-scope", "evaluation without unknowns returned %#v", cv)
		}
		if msg := consistent(absVal, cv, "result"); msg != "" {
			if condDynamicBranch(expr, absCtx, ctx) && c.Known("cond-unconverted-when-other-branch-dynamic") {
				c.Class("excluded_known_cond_dynamic")
				continue
			}
			if negativeZeroOnly(absVal, cv) && c.Known("negative-zero-renders-differently") {
				c.Class("excluded_known_negative_zero")
				continue
			}
			c.Set("concretisation", concDesc)
			c.Set("concrete_result", cv.GoString())
			c.Failf("inconsistent", "%s", msg)
		}
		if promises {
			nontrivial = true
		}
	}
	if nontrivial {
		c.Class("nontrivial")
	}
	c.Done(nontrivial, dump+"|"+strings.Join(absDesc, ";"))
}
