package props

import (
	"fmt"
	"sort"
	"strings"
	"testing"

	"github.com/hashicorp/hcl/v2"
	hcljson "github.com/hashicorp/hcl/v2/json"
	"github.com/zclconf/go-cty/cty"
	"pgregory.net/rapid"

	"verifharness/ast"
	"verifharness/gen"
	"verifharness/hx"
	"verifharness/render"
)

// staticOps are the static-analysis and evaluation entry points applied to one expression.
var staticOpNames = []string{"AbsTraversalForExpr", "RelTraversalForExpr", "ExprAsKeyword", "Value", "Variables", "ExprList", "ExprMap", "ExprCall", "TraverseAbs"}

func diagFlag(d hcl.Diagnostics) string {
	if d.HasErrors() {
		return "error"
	}
	return "ok"
}

// applyStaticOp runs one operation on expr and renders its observable outcome.
func applyStaticOp(c *hx.Case, op string, expr hcl.Expression, ctx *hcl.EvalContext) string {
	out := ""
	c.Guard(op, func() {
		switch op {
		case "AbsTraversalForExpr":
			tr, d := hcl.AbsTraversalForExpr(expr)
			out = fmt.Sprintf("%s %s rel=%v", diagFlag(d), travString(tr), !d.HasErrors() && tr.IsRelative())
		case "RelTraversalForExpr":
			tr, d := hcl.RelTraversalForExpr(expr)
			out = fmt.Sprintf("%s %s", diagFlag(d), travString(tr))
		case "ExprAsKeyword":
			out = hcl.ExprAsKeyword(expr)
		case "Value":
			v, d := expr.Value(ctx)
			out = fmt.Sprintf("%s %#v", diagFlag(d), v)
		case "Variables":
			var vs []string
			for _, tr := range expr.Variables() {
				vs = append(vs, travString(tr))
			}
			sort.Strings(vs)
			out = strings.Join(vs, " ")
		case "ExprList":
			l, d := hcl.ExprList(expr)
			out = fmt.Sprintf("%s %d", diagFlag(d), len(l))
			for _, e := range l {
				v, vd := e.Value(ctx)
				out += fmt.Sprintf(" [%s %#v]", diagFlag(vd), v)
			}
		case "ExprMap":
			m, d := hcl.ExprMap(expr)
			out = fmt.Sprintf("%s %d", diagFlag(d), len(m))
			for _, kv := range m {
				k, kd := kv.Key.Value(ctx)
				v, vd := kv.Value.Value(ctx)
				out += fmt.Sprintf(" [%s %#v = %s %#v]", diagFlag(kd), k, diagFlag(vd), v)
			}
		case "ExprCall":
			call, d := hcl.ExprCall(expr)
			out = diagFlag(d)
			if call != nil {
				out += " " + call.Name
				for _, a := range call.Arguments {
					v, vd := a.Value(ctx)
					out += fmt.Sprintf(" [%s %#v]", diagFlag(vd), v)
				}
			}
		case "TraverseAbs":
			tr, d := hcl.AbsTraversalForExpr(expr)
			if d.HasErrors() || tr.IsRelative() {
				out = "not-absolute " + diagFlag(d)
				return
			}
			v, vd := tr.TraverseAbs(ctx)
			out = fmt.Sprintf("%s %#v", diagFlag(vd), v)
		}
	})
	return out
}

// TestC20_StaticOps: static analysis describes the expression and must leave it intact.
// A random sequence of static-analysis and evaluation calls on ONE expression object is
// compared, call by call, with the same call on a freshly parsed copy (the model).
func TestC20_StaticOps(t *testing.T) {
	hx.Run(t, "C20", "StaticOps", 12000,
		"history check: one parsed expression object (traversal-shaped 2-in-3, else tuple/object/call; native, or the same text as a JSON string) receives a random sequence of 3-7 calls from {AbsTraversalForExpr, RelTraversalForExpr, ExprAsKeyword, Value, Variables, ExprList, ExprMap, ExprCall, AbsTraversalForExpr+TraverseAbs}; oracle (model) = the same call on a freshly parsed copy of the same source: every outcome (traversal steps, relative/absolute, values, error flags, variable sets) must be identical, i.e. a static view never changes what later static views or evaluation see; non-trivial = the history has >=3 distinct operations, at least one static traversal view succeeded and a Value call follows it; distinct by (AST dump, form, history)",
		func(c *hx.Case) {
			t := c.T
			sc := gen.DrawScope(t, gen.ScopeOpts{Nulls: 12})
			g := gen.NewEG(t, sc, gen.ExprOpts{IllTyped: 8, Budget: 8, MaxDepth: 3})
			var n ast.Node
			switch rapid.IntRange(0, 5).Draw(t, "shape") {
			case 0, 1, 2, 3:
				n = g.TraversalExpr()
				c.Class("shape_traversal")
			case 4:
				n = g.Expr(rapid.SampledFrom([]cty.Type{cty.EmptyTuple, cty.EmptyObject}).Draw(t, "ty"))
				c.Class("shape_collection")
			default:
				n = g.Expr(rapid.SampledFrom([]cty.Type{cty.String, cty.Number, cty.Bool}).Draw(t, "callty"))
				c.Class("shape_other")
			}
			dump := ast.Dump(n)
			src, _ := render.Expression(n, rchooser{t}, render.Opts{Wild: rapid.SampledFrom([]int{0, 1}).Draw(t, "wild")})
			form := rapid.SampledFrom([]string{"native", "native", "json"}).Draw(t, "form")
			c.Class("form_" + form)
			parse := func() hcl.Expression {
				if form == "native" {
					e, d := parseExprSrc(src)
					if d.HasErrors() {
						c.Failf("parse-error", "%s", diagStr(d))
					}
					return e
				}
				canon, _ := render.Expression(n, render.Fixed{}, render.Opts{})
				js := gen.EncodeJSONString("${"+canon+"}", render.Fixed{}, false, map[string]bool{})
				e, d := hcljson.ParseExpression([]byte(js), "t.json")
				if d.HasErrors() {
					c.Failf("parse-error", "json: %s", diagStr(d))
				}
				return e
			}
			c.Set("source", src)
			c.Set("scope", scopeDump(sc))
			ctx := evalCtx(sc)
			subject := parse()
			nops := rapid.IntRange(3, 7).Draw(t, "nops")
			var history []string
			distinct := map[string]bool{}
			staticOK := false
			valueAfterStatic := false
			for i := 0; i < nops; i++ {
				op := rapid.SampledFrom(staticOpNames).Draw(t, "op")
				history = append(history, op)
				distinct[op] = true
				c.Set("history", history)
				got := applyStaticOp(c, op, subject, ctx)
				want := applyStaticOp(c, op, parse(), ctx)
				if got != want {
					c.Failf("static-view-changes-expression", "after the history %v, %s on the same expression object gives\n  %s\nbut on a freshly parsed copy\n  %s", history[:len(history)-1], op, got, want)
				}
				switch op {
				case "AbsTraversalForExpr", "RelTraversalForExpr":
					if strings.HasPrefix(got, "ok") {
						staticOK = true
					}
				case "Value", "TraverseAbs", "Variables":
					if staticOK {
						valueAfterStatic = true
					}
				}
			}
			c.Class(fmt.Sprintf("distinct_ops_%d", len(distinct)))
			if staticOK {
				c.Class("static_traversal_view")
			}
			c.Done(len(distinct) >= 3 && staticOK && valueAfterStatic, dump+"|"+form+"|"+strings.Join(history, ","))
		})
}
