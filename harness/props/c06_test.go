package props

import (
	"fmt"
	"strings"
	"testing"

	"github.com/hashicorp/hcl/v2"
	"github.com/hashicorp/hcl/v2/hclsyntax"
	hcljson "github.com/hashicorp/hcl/v2/json"
	"github.com/zclconf/go-cty/cty"
	"pgregory.net/rapid"

	"verifharness/ast"
	"verifharness/gen"
	"verifharness/hx"
	"verifharness/render"
)

const secretMark = "SECRET"
const otherMark = "OTHER"

// carriesMark reports whether m occurs anywhere in the structure of v.
func carriesMark(v cty.Value, m any) bool {
	_, pvms := v.UnmarkDeepWithPaths()
	for _, pvm := range pvms {
		if _, ok := pvm.Marks[m]; ok {
			return true
		}
	}
	return false
}

// objectIndexedByMarkedKey reports whether the expression contains an index operation
// whose collection is object-typed and whose key carries marks under one of the contexts
// (known finding object-index-drops-key-marks).
func objectIndexedByMarkedKey(expr hclsyntax.Expression, ctxs ...*hcl.EvalContext) bool {
	found := false
	_ = hclsyntax.VisitAll(expr, func(n hclsyntax.Node) hcl.Diagnostics {
		ie, ok := n.(*hclsyntax.IndexExpr)
		if !ok || found {
			return nil
		}
		for _, ctx := range ctxs {
			func() {
				defer func() { _ = recover() }()
				cv, _ := ie.Collection.Value(ctx)
				kv, _ := ie.Key.Value(ctx)
				if cv.Type().IsObjectType() && kv.ContainsMarked() {
					found = true
				}
			}()
		}
		return nil
	})
	return found
}

// hasMarkedNullNested reports whether v contains, below its top level, a null value that carries marks.
func hasMarkedNullNested(v cty.Value) bool { return nullUnderMark(v, false) }

// nullUnderMark reports whether v contains a null (v itself included) that carries a
// mark, either directly or through a container around it: indexing / attribute access
// transfers the container's marks to the null, and a later conversion of a constructor
// holding that null drops them (e.g. `c ? [secret.id] : list_of_strings`).
func nullUnderMark(v cty.Value, marked bool) bool {
	marked = marked || v.IsMarked()
	u, _ := v.Unmark()
	if u.IsNull() {
		return marked
	}
	if !u.IsKnown() || !u.CanIterateElements() {
		return false
	}
	for it := u.ElementIterator(); it.Next(); {
		_, ev := it.Element()
		if nullUnderMark(ev, marked) {
			return true
		}
	}
	return false
}

func unmarkedDeep(v cty.Value) cty.Value {
	u, _ := v.UnmarkDeep()
	return u
}

// constructKinds lists the constructs of an AST for the influence-path classes.
func constructKinds(n ast.Node) map[string]bool {
	m := map[string]bool{}
	for k := range nodeKinds(n) {
		switch k {
		case "Binary", "Unary", "Cond", "Index", "LegacyIndex", "GetAttr", "Splat", "For", "Template", "Call", "Object", "Tuple":
			m[k] = true
		}
	}
	return m
}

func TestC06_Expr(t *testing.T) {
	hx.Run(t, "C06", "Expr", 25000,
		"expression from G-EXPR; one used variable is the secret: its value carries mark M (top level / every leaf / every element) and is evaluated with two contents of the same type and mark placement; other variables may carry a different mark; oracle (two-run non-interference): both runs error-free and results differ (after deep unmarking, incl. known-ness/refinements) => both results carry M; non-trivial = both error-free and results differ; distinct by (AST dump, secret variable, placement)",
		func(c *hx.Case) {
			t := c.T
			sc := gen.DrawScope(t, gen.ScopeOpts{Nulls: 14})
			g := gen.NewEG(t, sc, gen.ExprOpts{IllTyped: 14})
			n := g.Expr(cty.DynamicPseudoType)
			src, _ := render.Expression(n, render.Fixed{}, render.Opts{})
			dump := ast.Dump(n)
			c.Set("source", src)
			used := ast.FreeVars(n)
			var candidates []string
			for _, name := range sc.Names {
				if used[name] {
					candidates = append(candidates, name)
				}
			}
			if len(candidates) == 0 {
				c.Class("no_variable_used")
				c.Done(false, "")
				return
			}
			secret := rapid.SampledFrom(candidates).Draw(t, "secretvar")
			placement := gen.MarkPlacement(rapid.IntRange(0, 2).Draw(t, "placement"))
			v1 := sc.Vals[secret]
			v2 := gen.VaryContent(t, v1, placement)
			if placement == gen.MarkTop && !v1.IsNull() && rapid.IntRange(0, 4).Draw(t, "nullflip") == 0 {
				// whether the secret is set at all is secret content too (it decides `x == null`,
				// coalescing, and the 0-or-1 element result of a splat over a non-collection)
				v2 = cty.NullVal(v1.Type())
				c.Class("secret_null_in_one_run")
			}
			ctx1, ctx2 := evalCtx(sc), evalCtx(sc)
			ctx1.Variables[secret] = gen.ApplyMark(v1, secretMark, placement)
			ctx2.Variables[secret] = gen.ApplyMark(v2, secretMark, placement)
			// other variables may carry an unrelated mark
			for _, name := range sc.Names {
				if name != secret && rapid.IntRange(0, 4).Draw(t, "othermark") == 0 {
					mv := sc.Vals[name].Mark(otherMark)
					ctx1.Variables[name] = mv
					ctx2.Variables[name] = mv
					c.Class("other_mark_present")
				}
			}
			c.Set("secret", fmt.Sprintf("%s placement=%d content1=%#v content2=%#v", secret, placement, ctx1.Variables[secret], ctx2.Variables[secret]))
			c.Set("scope", scopeDump(sc))
			c.Class(fmt.Sprintf("placement_%d", placement))
			expr, diags := parseExprSrc(src)
			if diags.HasErrors() {
				c.Failf("parse-error", "%s", diagStr(diags))
			}
			var r1, r2 cty.Value
			var d1, d2 hcl.Diagnostics
			c.Guard("Value(content1)", func() { r1, d1 = expr.Value(ctx1) })
			c.Guard("Value(content2)", func() { r2, d2 = expr.Value(ctx2) })
			if d1.HasErrors() || d2.HasErrors() {
				c.Class("some_run_error")
				c.Done(false, "")
				return
			}
			if unmarkedDeep(r1).RawEquals(unmarkedDeep(r2)) {
				c.Class("no_influence")
				c.Done(false, "")
				return
			}
			c.Class("influence")
			featClasses(c, "via_", constructKinds(n))
			c.Set("result1", r1.GoString())
			c.Set("result2", r2.GoString())
			if !carriesMark(r1, secretMark) || !carriesMark(r2, secretMark) {
				if condDynamicBranch(expr, ctx1, ctx2) && c.Known("cond-unconverted-when-other-branch-dynamic") {
					c.Class("excluded_known_cond_dynamic")
					c.Done(false, "")
					return
				}
				if objectIndexedByMarkedKey(expr, ctx1, ctx2) && c.Known("object-index-drops-key-marks") {
					c.Class("excluded_known_object_index_marked_key")
					c.Done(false, "")
					return
				}
				if (hasMarkedNullNested(ctx1.Variables[secret]) || hasMarkedNullNested(ctx2.Variables[secret])) && c.Known("conversion-drops-mark-of-null-element") {
					c.Class("excluded_known_marked_null_conversion")
					c.Done(false, "")
					return
				}
				c.Failf("mark-lost", "changing the marked variable %q changes the result (%#v vs %#v) but the mark is not carried by both results", secret, r1, r2)
			}
			// the same expression in JSON syntax (constructors as JSON arrays / objects with "${...}"
			// property names and values): the marks must flow there as well
			if js, _ := render.ExprJSON(n); !strings.Contains(js, "<<") {
				jexpr, jd := hcljson.ParseExpression([]byte(js), "t.json")
				if !jd.HasErrors() {
					var j1, j2 cty.Value
					var jd1, jd2 hcl.Diagnostics
					c.Guard("json Value(content1)", func() { j1, jd1 = jexpr.Value(ctx1) })
					c.Guard("json Value(content2)", func() { j2, jd2 = jexpr.Value(ctx2) })
					if !jd1.HasErrors() && !jd2.HasErrors() && !unmarkedDeep(j1).RawEquals(unmarkedDeep(j2)) {
						c.Class("json_influence")
						if !carriesMark(j1, secretMark) || !carriesMark(j2, secretMark) {
							known := (condDynamicBranch(expr, ctx1, ctx2) && c.Known("cond-unconverted-when-other-branch-dynamic")) ||
								(objectIndexedByMarkedKey(expr, ctx1, ctx2) && c.Known("object-index-drops-key-marks")) ||
								((hasMarkedNullNested(ctx1.Variables[secret]) || hasMarkedNullNested(ctx2.Variables[secret])) && c.Known("conversion-drops-mark-of-null-element"))
							if !known {
								c.Set("json", js)
								c.Failf("mark-lost-json", "JSON form %s: changing the marked variable %q changes the result (%#v vs %#v) but the mark is not carried by both results", js, secret, j1, j2)
							}
						}
					}
				}
			}
			c.Done(true, fmt.Sprintf("%s|%s|%d", dump, secret, placement))
		})
}
