package props

import (
	stdjson "encoding/json"
	"strings"
	"testing"

	"github.com/hashicorp/hcl/v2"
	hcljson "github.com/hashicorp/hcl/v2/json"
	"github.com/zclconf/go-cty/cty"
	"pgregory.net/rapid"

	"verifharness/gen"
	"verifharness/hx"
	"verifharness/ref"
)

// C14 for the JSON syntax (json/scanner.go is one of the property's anchors): every range
// that the JSON front end records for a property name, a value, a block definition or a
// label slices the source to exactly that construct, and its line / column are the ones
// obtained by counting from the start of the text with the JSON syntax's stated
// conventions (ref.JSONPosTable). The oracle is an independent span reader (ref.JSONSpans).

type jsonRangeChecker struct {
	c     *hx.Case
	src   []byte
	pt    *ref.PosTable
	count map[string]int
}

func (jc *jsonRangeChecker) expect(r hcl.Range, what string, start, end int) {
	jc.count[strings.SplitN(what, " ", 2)[0]]++
	if r.Start.Byte != start || r.End.Byte != end {
		got := "<out of bounds>"
		if r.Start.Byte >= 0 && r.End.Byte <= len(jc.src) && r.Start.Byte <= r.End.Byte {
			got = string(jc.src[r.Start.Byte:r.End.Byte])
		}
		jc.c.Failf("json-range-slice", "%s: range %s (bytes %d-%d) slices to %q, expected bytes %d-%d = %q", what, r, r.Start.Byte, r.End.Byte, got, start, end, string(jc.src[start:end]))
	}
	jc.pos(r.Start, what+" (start)")
	jc.pos(r.End, what+" (end)")
}

func (jc *jsonRangeChecker) pos(p hcl.Pos, what string) {
	if p.Byte < 0 || p.Byte > len(jc.src) {
		jc.c.Failf("json-pos-out-of-bounds", "%s: byte offset %d outside the source (len %d)", what, p.Byte, len(jc.src))
	}
	if p.Line != jc.pt.Line[p.Byte]+1 {
		jc.c.Failf("json-pos-line", "%s: line %d at byte %d, counting line feeds gives %d", what, p.Line, p.Byte, jc.pt.Line[p.Byte]+1)
	}
	if jc.pt.Boundary[p.Byte] && jc.pt.ColOK[p.Byte] {
		jc.count["column"]++
		if p.Column != jc.pt.Col[p.Byte]+1 {
			jc.c.Failf("json-pos-column", "%s: column %d at byte %d (line %d), counting gives %d", what, p.Column, p.Byte, p.Line, jc.pt.Col[p.Byte]+1)
		}
	}
}

// value compares the ranges of an expression with the span tree, descending through the
// static list / map views.
func (jc *jsonRangeChecker) value(e hcl.Expression, sp *ref.JSpan, v *gen.JVal, path string) {
	jc.expect(e.Range(), "value "+path, sp.Start, sp.End)
	switch sp.Kind {
	case 'o', 'a':
		jc.expect(e.StartRange(), "open "+path, sp.Start, sp.Start+1)
	default:
		jc.expect(e.StartRange(), "start "+path, sp.Start, sp.End)
	}
	switch sp.Kind {
	case 'a':
		var elems []hcl.Expression
		var diags hcl.Diagnostics
		jc.c.Guard("ExprList", func() { elems, diags = hcl.ExprList(e) })
		if diags.HasErrors() || len(elems) != len(sp.Vals) {
			jc.c.Failf("json-exprlist", "%s: ExprList of an array with %d elements gave %d (%s)", path, len(sp.Vals), len(elems), diagStr(diags))
		}
		for i, el := range elems {
			jc.value(el, sp.Vals[i], v.Arr[i], path+"["+itoaP(i)+"]")
		}
	case 'o':
		var pairs []hcl.KeyValuePair
		var diags hcl.Diagnostics
		jc.c.Guard("ExprMap", func() { pairs, diags = hcl.ExprMap(e) })
		if diags.HasErrors() || len(pairs) != len(sp.Vals) {
			jc.c.Failf("json-exprmap", "%s: ExprMap of an object with %d members gave %d (%s)", path, len(sp.Vals), len(pairs), diagStr(diags))
		}
		for i, p := range pairs {
			jc.expect(p.Key.Range(), "name "+path+"."+v.Obj[i].Key, sp.Keys[i].Start, sp.Keys[i].End)
			jc.value(p.Value, sp.Vals[i], v.Obj[i].Val, path+"."+v.Obj[i].Key)
		}
	case 's':
		jc.templateRefs(e, sp, v, path)
	}
}

// templateRefs: a string written without escapes is handed to the template parser at the
// position after its opening quote, so the references inside it have exact ranges.
func (jc *jsonRangeChecker) templateRefs(e hcl.Expression, sp *ref.JSpan, v *gen.JVal, path string) {
	inner := string(jc.src[sp.Start+1 : sp.End-1])
	if inner != v.Str || len(v.Refs) == 0 {
		return
	}
	var travs []hcl.Traversal
	jc.c.Guard("Variables", func() { travs = e.Variables() })
	if len(travs) != len(v.Refs) {
		jc.c.Failf("json-template-refs", "%s: string %q has %d references, Variables() reports %d", path, inner, len(v.Refs), len(travs))
	}
	jc.c.Class("template_refs_checked")
	// The template scanner counts columns token by token; its counts are comparable with a
	// count over the whole string only where the sequence boundaries are grapheme-cluster
	// boundaries (the property's own caveat), i.e. no combining character follows a "}".
	colsOK := true
	for off := sp.Start + 1; off < sp.End-1; off++ {
		if (jc.src[off] == '}' || jc.src[off] == '{') && !jc.pt.Boundary[off+1] {
			colsOK = false
		}
		if jc.src[off] == '$' && !jc.pt.Boundary[off] {
			colsOK = false
		}
	}
	// byte offset of every reference
	refStarts := make([]int, len(v.Refs))
	at := 0
	for i, r := range v.Refs {
		k := strings.Index(inner[at:], "${"+r+"}")
		refStarts[i] = sp.Start + 1 + at + k + 2
		at += k + 3 + len(r)
	}
	// evaluation-time ranges: with no variables defined every reference is reported as
	// unknown at the range of its root name
	var vdiags hcl.Diagnostics
	jc.c.Guard("Value(empty scope)", func() { _, vdiags = e.Value(&hcl.EvalContext{Variables: map[string]cty.Value{}}) })
	nUnknown := 0
	for _, d := range vdiags {
		if d.Summary != "Unknown variable" || d.Subject == nil {
			continue
		}
		idx := -1
		for i, st := range refStarts {
			if st == d.Subject.Start.Byte {
				idx = i
			}
		}
		if idx < 0 {
			jc.c.Failf("json-template-diag-range", "%s: 'Unknown variable' at %s (byte %d) is not at any reference of %q (reference offsets %v)", path, d.Subject, d.Subject.Start.Byte, inner, refStarts)
		}
		root := v.Refs[idx]
		if k := strings.IndexAny(root, ".["); k >= 0 {
			root = root[:k]
		}
		if got := string(jc.src[d.Subject.Start.Byte:d.Subject.End.Byte]); got != root {
			jc.c.Failf("json-template-diag-range", "%s: 'Unknown variable' range %s slices to %q, expected %q", path, d.Subject, got, root)
		}
		if colsOK {
			jc.pos(d.Subject.Start, "unknown-variable subject (start)")
			jc.pos(d.Subject.End, "unknown-variable subject (end)")
		}
		jc.count["diagnostic"]++
		nUnknown++
	}
	if nUnknown != len(v.Refs) {
		jc.c.Failf("json-template-diag-range", "%s: %d references in %q, %d 'Unknown variable' diagnostics: %s", path, len(v.Refs), inner, nUnknown, diagStr(vdiags))
	}
	for i, tr := range travs {
		r := tr.SourceRange()
		jc.count["reference"]++
		if r.Start.Byte < sp.Start || r.End.Byte > sp.End || r.Start.Byte > r.End.Byte {
			jc.c.Failf("json-template-ref-range", "%s: reference %d has range %s outside its string %d-%d", path, i, r, sp.Start, sp.End)
		}
		if got := string(jc.src[r.Start.Byte:r.End.Byte]); got != v.Refs[i] {
			jc.c.Failf("json-template-ref-range", "%s: reference %d range %s slices to %q, expected %q", path, i, r, got, v.Refs[i])
		}
		if want := refStarts[i]; r.Start.Byte != want {
			jc.c.Failf("json-template-ref-range", "%s: reference %d starts at byte %d, expected %d", path, i, r.Start.Byte, want)
		}
		if colsOK {
			jc.pos(r.Start, "reference (start)")
			jc.pos(r.End, "reference (end)")
		} else {
			jc.c.Class("template_refs_columns_not_comparable")
		}
	}
}

func itoaP(i int) string {
	return string(rune('0' + i%10))
}

var jsonTplLits = []string{"a", " ", "-", "é", "é", "日本", "👍🏽", "x=", "/", "#", "'", "e", "‍", "🇩🇪"}
var jsonTplRefs = []string{"a", "b.c", "x[0]", "é.y", "v_1", "k.l.m", "a[\"k\"]"}

// drawJSONRangeDoc draws a document whose root is an object without duplicate names.
func drawJSONRangeDoc(t *rapid.T) *gen.JVal {
	tpl := rapid.Custom(func(t *rapid.T) string {
		n := rapid.IntRange(1, 5).Draw(t, "tplparts")
		var sb strings.Builder
		for i := 0; i < n; i++ {
			if rapid.Bool().Draw(t, "isref") {
				sb.WriteString("${" + rapid.SampledFrom(jsonTplRefs).Draw(t, "ref") + "}")
			} else {
				sb.WriteString(rapid.SampledFrom(jsonTplLits).Draw(t, "lit"))
			}
		}
		return sb.String()
	})
	strs := rapid.OneOf(gen.HostileString(), tpl, tpl)
	keys := append(append([]string{}, gen.KeyPool...), "é", "👍🏽x", "ab", "abc", "tab\tkey")
	doc := gen.DrawJSON(t, gen.JSONOpts{Depth: 3, NoDup: true, Strings: strs, Keys: keys})
	for doc.Kind != gen.JObj {
		doc = &gen.JVal{Kind: gen.JObj, Obj: []gen.JMember{{Key: "root", Val: doc}}}
	}
	if rapid.IntRange(0, 2).Draw(t, "labelled_member") == 0 {
		// a member with the shape of labelled blocks
		blk := &gen.JVal{Kind: gen.JObj}
		seen := map[string]bool{"//": true}
		for _, m := range doc.Obj {
			seen[m.Key] = true
		}
		body := func() *gen.JVal {
			b := gen.DrawJSON(t, gen.JSONOpts{Depth: 1, NoDup: true, Strings: strs, Keys: keys})
			if b.Kind != gen.JObj {
				b = &gen.JVal{Kind: gen.JObj, Obj: []gen.JMember{{Key: "v", Val: b}}}
			}
			return b
		}
		n := rapid.IntRange(1, 3).Draw(t, "nlabels")
		lseen := map[string]bool{"//": true}
		for i := 0; i < n; i++ {
			k := rapid.SampledFrom(keys).Draw(t, "label")
			if lseen[k] {
				continue
			}
			lseen[k] = true
			if rapid.IntRange(0, 2).Draw(t, "label_array") == 0 {
				arr := &gen.JVal{Kind: gen.JArr}
				for j := rapid.IntRange(1, 3).Draw(t, "nblocks"); j > 0; j-- {
					arr.Arr = append(arr.Arr, body())
				}
				blk.Obj = append(blk.Obj, gen.JMember{Key: k, Val: arr})
			} else {
				blk.Obj = append(blk.Obj, gen.JMember{Key: k, Val: body()})
			}
		}
		name := rapid.SampledFrom([]string{"blk", "resource", "é"}).Draw(t, "blocktype")
		if !seen[name] && len(blk.Obj) > 0 {
			at := rapid.IntRange(0, len(doc.Obj)).Draw(t, "blk_at")
			objs := append([]gen.JMember{}, doc.Obj[:at]...)
			objs = append(objs, gen.JMember{Key: name, Val: blk})
			doc.Obj = append(objs, doc.Obj[at:]...)
		}
	}
	var fix func(v *gen.JVal)
	fix = func(v *gen.JVal) {
		v.LoneSurrogate = false
		if v.Kind == gen.JStr {
			v.Refs = nil
			s := v.Str
			for {
				i := strings.Index(s, "${")
				if i < 0 {
					break
				}
				j := strings.Index(s[i:], "}")
				if j < 0 {
					v.Refs = nil
					break
				}
				v.Refs = append(v.Refs, s[i+2:i+j])
				s = s[i+j+1:]
			}
			rest := v.Str
			for _, r := range v.Refs {
				known := false
				for _, k := range jsonTplRefs {
					known = known || k == r
				}
				if !known {
					v.Refs = nil
					break
				}
				rest = strings.Replace(rest, "${"+r+"}", "", 1)
			}
			if strings.ContainsAny(rest, "$%") {
				v.Refs = nil
			}
		}
		for _, e := range v.Arr {
			fix(e)
		}
		for _, m := range v.Obj {
			fix(m.Val)
		}
	}
	fix(doc)
	return doc
}

func TestC14_JSONRanges(t *testing.T) {
	hx.Run(t, "C14", "JSONRanges", 12000,
		"grammar-generated JSON document with an object root (nesting <= 3, names and strings from the hostile pools incl. combining marks, ZWJ sequences, regional indicators, every escape form, template strings with references) in every whitespace form (spaces, tabs, LF, CRLF, lone CR); oracle = an independent span reader of RFC 8259 plus the JSON syntax's documented counting conventions: NameRange / attribute range / value Range / StartRange through JustAttributes, ExprList and ExprMap at every depth, block TypeRange / DefRange / LabelRanges through PartialContent, references inside unescaped template strings, each compared byte-exactly and in line / column; non-trivial = multi-line text with a multi-byte string and >= 8 ranges compared; distinct by text",
		caseC14JSONRanges)
}

func caseC14JSONRanges(c *hx.Case) {
	t := c.T
	doc := drawJSONRangeDoc(t)
	wild := rapid.IntRange(0, 3).Draw(t, "wild") > 0
	text, feat := gen.RenderJSON(doc, rchooser{t}, wild)
	c.Set("json", text)
	featClasses(c, "", feat)
	src := []byte(text)
	spans, ok := ref.JSONSpans(src)
	if !ok || spans.Kind != 'o' || len(spans.Vals) != len(doc.Obj) {
		c.Failf("harness-generator", "span reader does not accept the generated document")
	}
	var f *hcl.File
	var diags hcl.Diagnostics
	c.Guard("json.Parse", func() { f, diags = hcljson.Parse(src, "t.json") })
	if diags.HasErrors() {
		c.Failf("valid-json-rejected", "valid JSON object rejected: %s", diagStr(diags))
	}
	jc := &jsonRangeChecker{c: c, src: src, pt: ref.JSONPosTable(src), count: map[string]int{}}
	var attrs hcl.Attributes
	c.Guard("JustAttributes", func() { attrs, diags = f.Body.JustAttributes() })
	if diags.HasErrors() {
		c.Failf("json-just-attributes", "JustAttributes of an object without duplicate names failed: %s", diagStr(diags))
	}
	nattrs := 0
	for i, m := range doc.Obj {
		if m.Key == "//" {
			if _, has := attrs["//"]; has {
				c.Failf("json-comment-property", "the // property is reported as an attribute")
			}
			continue
		}
		nattrs++
		a, has := attrs[m.Key]
		if !has {
			c.Failf("json-attribute-missing", "property %q is not among the attributes", m.Key)
		}
		ks, vs := spans.Keys[i], spans.Vals[i]
		jc.expect(a.NameRange, "name "+m.Key, ks.Start, ks.End)
		jc.expect(a.Range, "attribute "+m.Key, ks.Start, vs.End)
		var dec string
		if err := stdjson.Unmarshal(src[ks.Start:ks.End], &dec); err != nil || dec != m.Key || a.Name != m.Key {
			c.Failf("json-name-text", "name range of %q slices to %s (attribute name %q)", m.Key, string(src[ks.Start:ks.End]), a.Name)
		}
		jc.value(a.Expr, vs, m.Val, m.Key)
	}
	// the same attributes through a schema
	{
		var sch hcl.BodySchema
		for _, m := range doc.Obj {
			if m.Key != "//" {
				sch.Attributes = append(sch.Attributes, hcl.AttributeSchema{Name: m.Key})
			}
		}
		var content *hcl.BodyContent
		c.Guard("Content", func() { content, diags = f.Body.Content(&sch) })
		if diags.HasErrors() || len(content.Attributes) != nattrs {
			c.Failf("json-content-attributes", "Content with every property as an attribute: %d of %d attributes, %s", len(content.Attributes), nattrs, diagStr(diags))
		}
		for i, m := range doc.Obj {
			if a, has := content.Attributes[m.Key]; has {
				ks, vs := spans.Keys[i], spans.Vals[i]
				jc.expect(a.NameRange, "name "+m.Key+" (Content)", ks.Start, ks.End)
				jc.expect(a.Range, "attribute "+m.Key+" (Content)", ks.Start, vs.End)
				jc.expect(a.Expr.Range(), "value "+m.Key+" (Content)", vs.Start, vs.End)
			}
		}
		jc.expect(content.MissingItemRange, "missing-item range (Content)", spans.End-1, spans.End)
	}
	if len(attrs) != nattrs {
		c.Failf("json-attribute-count", "%d properties, %d attributes", nattrs, len(attrs))
	}
	// the empty-body range
	var mir hcl.Range
	c.Guard("MissingItemRange", func() { mir = f.Body.MissingItemRange() })
	jc.expect(mir, "missing-item range", spans.End-1, spans.End)

	// block views of the members that have block shape
	for i, m := range doc.Obj {
		if m.Key == "//" {
			continue
		}
		ks, vs := spans.Keys[i], spans.Vals[i]
		shape := jsonBlockShape(m.Val)
		if shape == "" {
			continue
		}
		labelled := shape == "labelled" && rapid.Bool().Draw(t, "use_labels")
		bs := hcl.BlockHeaderSchema{Type: m.Key}
		if labelled {
			bs.LabelNames = []string{"name"}
		}
		var content *hcl.BodyContent
		c.Guard("PartialContent", func() {
			content, _, diags = f.Body.PartialContent(&hcl.BodySchema{Blocks: []hcl.BlockHeaderSchema{bs}})
		})
		if diags.HasErrors() {
			c.Failf("json-block-content", "block view of property %q failed: %s", m.Key, diagStr(diags))
		}
		type want struct {
			def      int
			label    *ref.JSpan
			labelTxt string
		}
		var wants []want
		switch {
		case labelled:
			for j := range m.Val.Obj {
				lk, lv := vs.Keys[j], vs.Vals[j]
				n := 1
				if lv.Kind == 'a' {
					n = len(lv.Vals)
				}
				for k := 0; k < n; k++ {
					wants = append(wants, want{def: lv.Start, label: &lk, labelTxt: m.Val.Obj[j].Key})
				}
			}
		case vs.Kind == 'a':
			for range vs.Vals {
				wants = append(wants, want{def: vs.Start})
			}
		default:
			wants = append(wants, want{def: vs.Start})
		}
		if len(content.Blocks) != len(wants) {
			c.Failf("json-block-count", "property %q (%s): %d blocks, expected %d", m.Key, shape, len(content.Blocks), len(wants))
		}
		c.Class("block_view_" + shape)
		for j, b := range content.Blocks {
			w := wants[j]
			jc.expect(b.TypeRange, "blocktype "+m.Key, ks.Start, ks.End)
			jc.expect(b.DefRange, "blockdef "+m.Key, w.def, w.def+1)
			if w.label != nil {
				if len(b.LabelRanges) != 1 || len(b.Labels) != 1 || b.Labels[0] != w.labelTxt {
					c.Failf("json-block-labels", "block %q #%d: labels %q ranges %v, expected label %q", m.Key, j, b.Labels, b.LabelRanges, w.labelTxt)
				}
				jc.expect(b.LabelRanges[0], "label "+w.labelTxt, w.label.Start, w.label.End)
			} else if len(b.LabelRanges) != 0 {
				c.Failf("json-block-labels", "block %q #%d has label ranges %v without labels", m.Key, j, b.LabelRanges)
			}
		}
	}
	featClassesN(c, "checked_", jc.count)
	total := 0
	for _, n := range jc.count {
		total += n
	}
	multibyte := false
	for _, b := range src {
		if b >= 0x80 {
			multibyte = true
			break
		}
	}
	c.Done(total >= 8 && multibyte && strings.Contains(text, "\n"), text)
}

// jsonBlockShape: "single" (an object), "array" (a non-empty array of objects) or
// "labelled" (an object all of whose members are objects or non-empty arrays of objects,
// none named "//"); "" otherwise.
func jsonBlockShape(v *gen.JVal) string {
	isBody := func(v *gen.JVal) bool {
		if v.Kind == gen.JObj {
			return true
		}
		if v.Kind != gen.JArr || len(v.Arr) == 0 {
			return false
		}
		for _, e := range v.Arr {
			if e.Kind != gen.JObj {
				return false
			}
		}
		return true
	}
	if !isBody(v) {
		return ""
	}
	if v.Kind == gen.JArr {
		return "array"
	}
	if len(v.Obj) == 0 {
		return "single"
	}
	for _, m := range v.Obj {
		if m.Key == "//" || !isBody(m.Val) {
			return "single"
		}
	}
	return "labelled"
}

func FuzzC14_JSONRanges(f *testing.F) { hx.Fuzz(f, "C14", "JSONRanges", caseC14JSONRanges) }
