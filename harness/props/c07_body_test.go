package props

import (
	"fmt"
	"os"
	"sort"
	"strings"
	"testing"

	"github.com/hashicorp/hcl/v2"
	"github.com/hashicorp/hcl/v2/ext/dynblock"
	"github.com/hashicorp/hcl/v2/hcldec"
	"github.com/hashicorp/hcl/v2/hclsyntax"
	hcljson "github.com/hashicorp/hcl/v2/json"
	"github.com/zclconf/go-cty/cty"
	"pgregory.net/rapid"

	"verifharness/ast"
	"verifharness/gen"
	"verifharness/hx"
	"verifharness/render"
)

// diagSet renders diagnostics as a sorted set of lines (hcldec visits ObjectSpec
// attributes in map order, so the order of diagnostics is not part of the outcome).
func diagSet(diags hcl.Diagnostics) string {
	lines := strings.Split(normDiags(diags), "\n")
	sort.Strings(lines)
	return strings.Join(lines, "\n")
}

// bodyVarsRelation checks the C07 relation for a body under a spec: decoding in a scope
// restricted to the reported roots, and in a scope where every other variable is changed,
// gives the identical value and diagnostics as decoding in the full scope.
func bodyVarsRelation(c *hx.Case, what string, sc *gen.Scope, R map[string]bool, decode func(ctx *hcl.EvalContext) (cty.Value, hcl.Diagnostics)) (proper bool) {
	t := c.T
	full := evalCtx(sc)
	restricted := &hcl.EvalContext{Variables: map[string]cty.Value{}, Functions: ctyFuncs}
	changed := &hcl.EvalContext{Variables: map[string]cty.Value{}, Functions: ctyFuncs}
	for _, n := range sc.Names {
		v := sc.Vals[n]
		if R[n] {
			restricted.Variables[n] = v
			changed.Variables[n] = v
		} else {
			proper = true
			changed.Variables[n] = otherValue(v, t)
		}
	}
	var v1, v2, v3 cty.Value
	var d1, d2, d3 hcl.Diagnostics
	c.Guard(what+" decode(full)", func() { v1, d1 = decode(full) })
	c.Guard(what+" decode(restricted)", func() { v2, d2 = decode(restricted) })
	c.Guard(what+" decode(changed)", func() { v3, d3 = decode(changed) })
	if !v1.RawEquals(v2) || diagSet(d1) != diagSet(d2) {
		c.Failf("restricted-scope-differs", "%s: full scope gives %#v [%s]; scope restricted to the reported names {%s} gives %#v [%s]", what, v1, diagSet(d1), setString(R), v2, diagSet(d2))
	}
	if !v1.RawEquals(v3) || diagSet(d1) != diagSet(d3) {
		c.Failf("unreported-variable-matters", "%s: changing variables outside {%s} changed the outcome: %#v [%s] vs %#v [%s]", what, setString(R), v1, diagSet(d1), v3, diagSet(d3))
	}
	if d1.HasErrors() {
		c.Class("outcome_error")
	} else {
		c.Class("outcome_value")
	}
	return proper
}

// parseForms parses the body tree in native syntax and, when it can be written so, as JSON.
func parseForms(c *hx.Case, tree *ast.Body, plain []string, jsonOK bool) map[string]hcl.Body {
	t := c.T
	out := map[string]hcl.Body{}
	src, _ := render.File(tree, rchooser{t}, drawBodyOpts(t))
	c.Set("source", src)
	f, diags := hclsyntax.ParseConfig([]byte(src), "t.hcl", hcl.InitialPos)
	if diags.HasErrors() {
		c.Failf("parse-error", "%s", diagStr(diags))
	}
	out["native"] = f.Body
	if !jsonOK {
		// JSON derives the number of label levels from the schema: a tree whose label counts
		// differ from the spec's denotes another configuration there
		return out
	}
	if js, _, ok := render.JSONFileExprs(tree, rchooser{t}, true, plain...); ok {
		c.Set("json", js)
		jf, jd := hcljson.Parse([]byte(js), "t.json")
		if jd.HasErrors() {
			c.Failf("parse-error", "json: %s", diagStr(jd))
		}
		out["json"] = jf.Body
	}
	return out
}

func blockAttrsNames(ms *gen.SpecM) []string {
	var out []string
	var walk func(s *gen.SpecM)
	walk = func(s *gen.SpecM) {
		if s == nil {
			return
		}
		if s.Kind == gen.SBlockAttrs {
			out = append(out, s.Name)
		}
		walk(s.Nested)
		walk(s.Primary)
		walk(s.Default)
		for _, f := range s.Fields {
			walk(f)
		}
		for _, e := range s.Elems {
			walk(e)
		}
	}
	walk(ms)
	sort.Strings(out)
	return out
}

func TestC07_HCLDec(t *testing.T) {
	hx.Run(t, "C07", "HCLDec", 5000,
		"spec tree (every hcldec spec kind) + body built from it whose attribute values are expressions over the scope (for expressions and template for directives binding names that also exist as root variables); native syntax and the same body as JSON (expressions as \"${...}\" strings); R = roots of hcldec.Variables(body, spec); oracle: R is a subset of the free variables of the tree's expressions (no bound name reported), and hcldec.Decode in the scope restricted to R, and in a scope where every variable outside R is replaced by a value of another type, gives the identical value and diagnostics as in the full scope; non-trivial = some variable is outside R, some is inside, and the tree has a block; distinct by (spec dump, body dump)",
		func(c *hx.Case) {
			t := c.T
			sc := gen.DrawScope(t, gen.ScopeOpts{Nulls: 10})
			var exprVars []string
			for _, n := range sc.Names {
				if plainIdent.MatchString(n) && !reservedName[n] {
					exprVars = append(exprVars, n)
				}
			}
			ms := gen.DrawSpec(t, gen.SpecOpts{Depth: 2, AttrNames: specAttrPool, BlockTypes: specBlockPool, BlockBias: 20, ExprVars: exprVars})
			c.Set("spec", ms.Dump())
			kinds := map[string]bool{}
			specKinds(ms, kinds)
			featClasses(c, "spec_", kinds)
			g := &dynGen{t: t, sc: sc, feat: map[string]bool{}, dynRate: 2, clean: rapid.Bool().Draw(t, "clean")}
			perturb := 40
			if g.clean {
				perturb = 0
			}
			tree := gen.BodyFromSpec(t, ms, gen.BodyFromSpecOpts{Perturb: perturb, Labels: []string{"a", "b", "x y", "l"}, Expr: g.bodyExpr})
			dump := ast.DumpBody(tree)
			c.Set("body", dump)
			c.Set("scope", scopeDump(sc))
			free := ast.FreeVarsBody(tree)
			// (an ExprSpec brings its own expression, evaluated in the caller's context)
			var exprSpecVars func(s *gen.SpecM)
			exprSpecVars = func(s *gen.SpecM) {
				if s == nil {
					return
				}
				if s.Kind == gen.SExpr {
					free[s.ExprVar] = true
					c.Class("spec_has_ExprSpec")
				}
				exprSpecVars(s.Nested)
				exprSpecVars(s.Primary)
				exprSpecVars(s.Default)
				for _, f := range s.Fields {
					exprSpecVars(f)
				}
				for _, e := range s.Elems {
					exprSpecVars(e)
				}
			}
			exprSpecVars(ms)
			c.Set("free_vars_of_tree", setString(free))
			spec := toHCLDec(ms)
			proper, some := false, false
			forms := parseForms(c, tree, blockAttrsNames(ms), jsonExpressible(ms, tree))
			for _, form := range []string{"native", "json"} {
				body, have := forms[form]
				if !have {
					continue
				}
				c.Class("form_" + form)
				var vars []hcl.Traversal
				c.Guard("hcldec.Variables", func() { vars = hcldec.Variables(body, spec) })
				R := rootNames(vars)
				c.Set("reported_"+form, setString(R))
				for n := range R {
					some = true
					if !free[n] {
						c.Failf("bound-or-spurious-name-reported", "%s: hcldec.Variables reports %q, which does not occur free in any expression of the body (free: %s)", form, n, setString(free))
					}
				}
				if bodyVarsRelation(c, form, sc, R, func(ctx *hcl.EvalContext) (cty.Value, hcl.Diagnostics) { return hcldec.Decode(body, spec, ctx) }) {
					proper = true
				}
			}
			c.Done(proper && some && len(tree.Blocks()) > 0, ms.Dump()+"|"+dump)
		})
}

func TestC07_Dynblock(t *testing.T) {
	hx.Run(t, "C07", "Dynblock", 4500,
		"spec tree + body with `dynamic` blocks (nested, custom iterator names, an inner iterator shadowing an outer one, an iterator named like the root variable its own for_each reads, labels and content using iterators); native and JSON; R = roots of dynblock.ExpandVariablesHCLDec(body, spec) united with dynblock.VariablesHCLDec(body, spec); oracle: R is a subset of the free variables of the tree computed with iterator scoping (an iterator name is reported only where it really denotes a root variable), and Decode(Expand(body, ctx), spec, ctx) with ctx restricted to R, and with every variable outside R changed, gives the identical value and diagnostics as with the full scope; also ExpandVariablesHCLDec alone is sufficient for Expand; non-trivial = a dynamic block whose content or labels use an iterator, with some variable outside R and some inside; distinct by (spec dump, body dump)",
		func(c *hx.Case) {
			t := c.T
			sc := gen.DrawScope(t, gen.ScopeOpts{Nulls: 10})
			ms := gen.DrawSpec(t, gen.SpecOpts{Depth: 3, AttrNames: specAttrPool, BlockTypes: specBlockPool, BlockBias: 30})
			g := &dynGen{t: t, sc: sc, feat: map[string]bool{}, dynRate: 2, clean: rapid.IntRange(0, 2).Draw(t, "clean") != 0}
			perturb := 40
			if g.clean {
				perturb = 0
				relaxCounts(ms)
			}
			c.Set("spec", ms.Dump())
			tree := gen.BodyFromSpec(t, ms, gen.BodyFromSpecOpts{Perturb: perturb, Labels: []string{"a", "b", "x y", "l"}, Expr: g.expr, Dyn: g.dyn})
			dump := ast.DumpBody(tree)
			c.Set("body", dump)
			c.Set("scope", scopeDump(sc))
			featClasses(c, "dyn_", g.feat)
			if g.nDyn == 0 {
				c.Class("no_dynamic_block")
			}
			free := ast.FreeVarsBody(tree)
			c.Set("free_vars_of_tree", setString(free))
			spec := toHCLDec(ms)
			proper, some := false, false
			baTypes := map[string]bool{}
			for _, n := range blockAttrsNames(ms) {
				baTypes[n] = true
			}
			baFree := ast.FreeVarsBodyIn(tree, baTypes)
			forms := parseForms(c, ast.DynSyntax(tree), blockAttrsNames(ms), jsonExpressible(ms, tree))
			for _, form := range []string{"native", "json"} {
				body, have := forms[form]
				if !have {
					continue
				}
				c.Class("form_" + form)
				var ev, vv []hcl.Traversal
				c.Guard("ExpandVariablesHCLDec", func() { ev = dynblock.ExpandVariablesHCLDec(body, spec) })
				c.Guard("VariablesHCLDec", func() { vv = dynblock.VariablesHCLDec(body, spec) })
				RE := rootNames(ev)
				R := rootNames(append(append([]hcl.Traversal{}, ev...), vv...))
				c.Set("reported_"+form, fmt.Sprintf("expand={%s} all={%s}", setString(RE), setString(R)))
				// known finding: the walkers do not look inside blocks decoded by BlockAttrsSpec
				for n := range baFree {
					if !R[n] && c.Known("dynblock-walkers-skip-blockattrs") {
						R[n] = true
					}
				}
				for n := range R {
					some = true
					if !free[n] {
						where := ""
						for _, tr := range append(append([]hcl.Traversal{}, ev...), vv...) {
							if !tr.IsRelative() && tr.RootName() == n {
								where += " " + tr.SourceRange().String()
							}
						}
						if os.Getenv("VERIF_DEBUG_PRUNE") != "" {
							debugPrune(tree, ms, n)
						}
						c.Failf("bound-or-spurious-name-reported", "%s: the dynblock variable walkers report %q (at%s), which does not occur free in the body once iterators are scoped (free: %s)", form, n, where, setString(free))
					}
				}
				if bodyVarsRelation(c, form, sc, R, func(ctx *hcl.EvalContext) (cty.Value, hcl.Diagnostics) {
					return hcldec.Decode(dynblock.Expand(body, ctx), spec, ctx)
				}) {
					proper = true
				}
				// the expansion-only variables suffice for the expansion itself
				full := evalCtx(sc)
				onlyExpand := &hcl.EvalContext{Variables: map[string]cty.Value{}, Functions: ctyFuncs}
				for n, v := range full.Variables {
					if RE[n] {
						onlyExpand.Variables[n] = v
					}
				}
				var v1, v2 cty.Value
				var d1, d2 hcl.Diagnostics
				c.Guard("Decode(Expand full)", func() { v1, d1 = hcldec.Decode(dynblock.Expand(body, full), spec, full) })
				c.Guard("Decode(Expand expand-only)", func() { v2, d2 = hcldec.Decode(dynblock.Expand(body, onlyExpand), spec, full) })
				if d1.HasErrors() != d2.HasErrors() || (!d1.HasErrors() && !v1.RawEquals(v2)) {
					c.Failf("expand-variables-insufficient", "%s: expanding with only the variables reported by ExpandVariablesHCLDec {%s} gives %#v (err=%v: %s), with the full context %#v (err=%v)", form, setString(RE), v2, d2.HasErrors(), diagStr(d2), v1, d1.HasErrors())
				}
			}
			usesIter := g.feat["label_from_iterator"] || g.outer || g.usedIter
			// the documented two-phase flow (ext/dynblock/README.md): expansion variables ->
			// Expand -> hcldec.Variables of the expanded body -> Decode; some collections may be
			// unknown at that point, which turns their dynamic blocks into placeholder blocks
			if nativeBody, have := forms["native"]; have {
				nativeSpec := spec
				fullU := evalCtx(sc)
				for _, name := range sc.Names {
					v := sc.Vals[name]
					if v.IsKnown() && !v.IsNull() && v.Type().IsCollectionType() && rapid.IntRange(0, 1).Draw(t, "unknown_collection") == 0 {
						fullU.Variables[name] = cty.UnknownVal(v.Type())
						c.Class("two_phase_with_unknown_collection")
					}
				}
				restrict := func(keep map[string]bool) *hcl.EvalContext {
					out := &hcl.EvalContext{Variables: map[string]cty.Value{}, Functions: ctyFuncs}
					for n, v := range fullU.Variables {
						if keep[n] {
							out.Variables[n] = v
						}
					}
					return out
				}
				var ev, hv []hcl.Traversal
				c.Guard("ExpandVariablesHCLDec", func() { ev = dynblock.ExpandVariablesHCLDec(nativeBody, nativeSpec) })
				RE := rootNames(ev)
				c.Guard("hcldec.Variables(expanded)", func() { hv = hcldec.Variables(dynblock.Expand(nativeBody, restrict(RE)), nativeSpec) })
				R2 := map[string]bool{}
				for n := range RE {
					R2[n] = true
				}
				for n := range rootNames(hv) {
					R2[n] = true
				}
				pruned := restrict(R2)
				var v1, v2 cty.Value
				var d1, d2 hcl.Diagnostics
				c.Guard("Decode(Expand full)", func() { v1, d1 = hcldec.Decode(dynblock.Expand(nativeBody, fullU), nativeSpec, fullU) })
				c.Guard("Decode(Expand pruned)", func() { v2, d2 = hcldec.Decode(dynblock.Expand(nativeBody, pruned), nativeSpec, pruned) })
				if d1.HasErrors() != d2.HasErrors() || (!d1.HasErrors() && !v1.RawEquals(v2)) {
					c.Failf("two-phase-variables-insufficient", "with the context restricted to ExpandVariablesHCLDec + hcldec.Variables(expanded) {%s}: %#v (err=%v: %s); with the full context: %#v (err=%v: %s)", setString(R2), v2, d2.HasErrors(), diagStr(d2), v1, d1.HasErrors(), diagStr(d1))
				}
			}
			c.Done(proper && some && g.nDyn > 0 && usesIter, ms.Dump()+"|"+dump)
		})
}

// debugPrune greedily removes items from the tree while the JSON form (plain encoding)
// still reports name, and prints the minimal tree.
func debugPrune(tree *ast.Body, ms *gen.SpecM, name string) {
	spec := toHCLDec(ms)
	fails := func(b *ast.Body) bool {
		js, _, ok := render.JSONFileExprs(ast.DynSyntax(b), render.Fixed{}, false, blockAttrsNames(ms)...)
		if !ok {
			return false
		}
		f, d := hcljson.Parse([]byte(js), "t.json")
		if d.HasErrors() {
			return false
		}
		free := ast.FreeVarsBody(b)
		R := rootNames(append(dynblock.ExpandVariablesHCLDec(f.Body, spec), dynblock.VariablesHCLDec(f.Body, spec)...))
		return R[name] && !free[name]
	}
	if !fails(tree) {
		fmt.Println("DEBUGPRUNE: plain encoding does not fail")
		return
	}
	var prune func(b *ast.Body, root *ast.Body)
	prune = func(b *ast.Body, root *ast.Body) {
		for i := 0; i < len(b.Items); {
			saved := b.Items
			b.Items = append(append([]ast.Item{}, saved[:i]...), saved[i+1:]...)
			if fails(root) {
				continue
			}
			b.Items = saved
			switch x := b.Items[i].(type) {
			case ast.Block:
				prune(x.Body, root)
			case ast.Dyn:
				prune(x.Content, root)
			}
			i++
		}
	}
	prune(tree, tree)
	js, _, _ := render.JSONFileExprs(ast.DynSyntax(tree), render.Fixed{}, false, blockAttrsNames(ms)...)
	fmt.Println("DEBUGPRUNE tree:", ast.DumpBody(tree))
	fmt.Println("DEBUGPRUNE json:", js)
	fmt.Println("DEBUGPRUNE spec:", ms.Dump())
	f, _ := hcljson.Parse([]byte(js), "t.json")
	for _, tr := range dynblock.ExpandVariablesHCLDec(f.Body, spec) {
		fmt.Println("DEBUGPRUNE json expandvars:", travString(tr), tr.SourceRange())
	}
	for _, tr := range dynblock.VariablesHCLDec(f.Body, spec) {
		fmt.Println("DEBUGPRUNE json vars:", travString(tr), tr.SourceRange())
	}
	src, _ := render.File(ast.DynSyntax(tree), render.Fixed{}, render.BodyOpts{})
	nf, _ := hclsyntax.ParseConfig([]byte(src), "t.hcl", hcl.InitialPos)
	for _, tr := range dynblock.ExpandVariablesHCLDec(nf.Body, spec) {
		fmt.Println("DEBUGPRUNE native expandvars:", travString(tr), tr.SourceRange())
	}
	for _, tr := range dynblock.VariablesHCLDec(nf.Body, spec) {
		fmt.Println("DEBUGPRUNE native vars:", travString(tr), tr.SourceRange())
	}
	fmt.Println("DEBUGPRUNE native src:", src)
}
