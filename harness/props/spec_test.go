package props

import (
	"fmt"

	"github.com/hashicorp/hcl/v2"
	"github.com/hashicorp/hcl/v2/hcldec"
	"github.com/hashicorp/hcl/v2/hclsyntax"
	"github.com/zclconf/go-cty/cty"
	"github.com/zclconf/go-cty/cty/function"

	"verifharness/gen"
	"verifharness/ref"
)

// transformFn is the harness transform function of TransformFuncSpec (reference: ref.TransformUpper).
var transformFn = function.New(&function.Spec{
	Params: []function.Parameter{{Name: "v", Type: cty.DynamicPseudoType, AllowNull: true, AllowUnknown: true, AllowDynamicType: true, AllowMarked: true}},
	Type:   func(args []cty.Value) (cty.Type, error) { return args[0].Type(), nil },
	Impl: func(args []cty.Value, rt cty.Type) (cty.Value, error) {
		v, marks := args[0].Unmark()
		return ref.TransformUpper(v).WithMarks(marks), nil
	},
})

// toNumberFn is the type-changing harness transform (reference: ref.TransformToNumber).
var toNumberFn = function.New(&function.Spec{
	Params: []function.Parameter{{Name: "v", Type: cty.DynamicPseudoType, AllowNull: true, AllowUnknown: true, AllowDynamicType: true, AllowMarked: true}},
	Type:   function.StaticReturnType(cty.Number),
	Impl: func(args []cty.Value, rt cty.Type) (cty.Value, error) {
		v, marks := args[0].Unmark()
		return ref.TransformToNumber(v).WithMarks(marks), nil
	},
})

// transformSpec builds the hcldec transform for a harness transform description.
func transformSpec(s *gen.SpecM) hcldec.Spec {
	fn := transformFn
	if s.Func == "to_number" {
		fn = toNumberFn
	}
	if !s.ViaExpr {
		return &hcldec.TransformFuncSpec{Wrapped: toHCLDec(s.Nested), Func: fn}
	}
	expr, diags := hclsyntax.ParseExpression([]byte("xform(v)"), "transform.hcl", hcl.InitialPos)
	if diags.HasErrors() {
		panic(diags.Error())
	}
	return &hcldec.TransformExprSpec{
		Wrapped:      toHCLDec(s.Nested),
		Expr:         expr,
		TransformCtx: &hcl.EvalContext{Functions: map[string]function.Function{"xform": fn}},
		VarName:      "v",
	}
}

func validateFn(v cty.Value) hcl.Diagnostics {
	u, _ := v.Unmark()
	if ref.ValidateRejects(u) {
		return hcl.Diagnostics{{Severity: hcl.DiagError, Summary: "Rejected by validation", Detail: "The harness validation function rejects this value."}}
	}
	// warnings are not errors: they must not change the value or the error flag (an unset
	// argument is the typical case: "not set, the default applies")
	if u.IsNull() || !u.IsKnown() || (u.Type() == cty.String && len(u.AsString())%2 == 0) {
		return hcl.Diagnostics{{Severity: hcl.DiagWarning, Summary: "Harness validation warning", Detail: "The harness validation function accepts this value with a warning."}}
	}
	return nil
}

// toHCLDec converts the harness spec description into hcldec specs.
func toHCLDec(s *gen.SpecM) hcldec.Spec {
	switch s.Kind {
	case gen.SObject:
		o := hcldec.ObjectSpec{}
		for n, f := range s.Fields {
			o[n] = toHCLDec(f)
		}
		return o
	case gen.STuple:
		t := hcldec.TupleSpec{}
		for _, e := range s.Elems {
			t = append(t, toHCLDec(e))
		}
		return t
	case gen.SAttr:
		return &hcldec.AttrSpec{Name: s.Name, Type: s.Type, Required: s.Required}
	case gen.SLiteral:
		return &hcldec.LiteralSpec{Value: s.Literal}
	case gen.SBlockLabel:
		return &hcldec.BlockLabelSpec{Index: s.Index, Name: s.Name}
	case gen.SBlock:
		return &hcldec.BlockSpec{TypeName: s.Name, Nested: toHCLDec(s.Nested), Required: s.Required}
	case gen.SBlockList:
		return &hcldec.BlockListSpec{TypeName: s.Name, Nested: toHCLDec(s.Nested), MinItems: s.MinItems, MaxItems: s.MaxItems}
	case gen.SBlockTuple:
		return &hcldec.BlockTupleSpec{TypeName: s.Name, Nested: toHCLDec(s.Nested), MinItems: s.MinItems, MaxItems: s.MaxItems}
	case gen.SBlockSet:
		return &hcldec.BlockSetSpec{TypeName: s.Name, Nested: toHCLDec(s.Nested), MinItems: s.MinItems, MaxItems: s.MaxItems}
	case gen.SBlockMap:
		names := make([]string, len(s.LabelNames), len(s.LabelNames)+4) // spare capacity on purpose (C17)
		copy(names, s.LabelNames)
		return &hcldec.BlockMapSpec{TypeName: s.Name, LabelNames: names, Nested: toHCLDec(s.Nested)}
	case gen.SBlockObject:
		names := make([]string, len(s.LabelNames), len(s.LabelNames)+4)
		copy(names, s.LabelNames)
		return &hcldec.BlockObjectSpec{TypeName: s.Name, LabelNames: names, Nested: toHCLDec(s.Nested)}
	case gen.SBlockAttrs:
		return &hcldec.BlockAttrsSpec{TypeName: s.Name, ElementType: s.Type, Required: s.Required}
	case gen.SDefault:
		return &hcldec.DefaultSpec{Primary: toHCLDec(s.Primary), Default: toHCLDec(s.Default)}
	case gen.STransformFunc:
		return transformSpec(s)
	case gen.SValidate:
		return &hcldec.ValidateSpec{Wrapped: toHCLDec(s.Nested), Func: validateFn}
	case gen.SExpr:
		expr, diags := hclsyntax.ParseExpression([]byte(s.ExprVar), "spec.hcl", hcl.InitialPos)
		if diags.HasErrors() {
			panic(diags.Error())
		}
		return &hcldec.ExprSpec{Expr: expr}
	case gen.SRefine:
		return &hcldec.RefineValueSpec{Wrapped: toHCLDec(s.Nested), Refine: func(b *cty.RefinementBuilder) *cty.RefinementBuilder { return b }}
	}
	panic(fmt.Sprintf("unknown spec kind %v", s.Kind))
}

// specKinds collects the kinds used in a spec tree.
func specKinds(s *gen.SpecM, m map[string]bool) {
	if s == nil {
		return
	}
	m[s.Kind.String()] = true
	for _, f := range s.Fields {
		specKinds(f, m)
	}
	for _, e := range s.Elems {
		specKinds(e, m)
	}
	specKinds(s.Nested, m)
	specKinds(s.Primary, m)
	specKinds(s.Default, m)
}
