package props

import (
	stdjson "encoding/json"
	"math/big"
	"regexp"
	"strings"
	"testing"
	"unicode/utf8"

	"github.com/hashicorp/hcl/v2"
	"github.com/hashicorp/hcl/v2/hclsyntax"
	hcljson "github.com/hashicorp/hcl/v2/json"
	"github.com/zclconf/go-cty/cty"
	"pgregory.net/rapid"

	"verifharness/gen"
	"verifharness/hx"
	"verifharness/ref"
	"verifharness/render"
)

// jsonExpected maps an abstract JSON value to the HCL value json/spec.md prescribes in
// literal-only mode. dup: an object defines a name twice (error at evaluation);
// unspec: a string with an unpaired surrogate escape.
func jsonExpected(v *gen.JVal) (val cty.Value, dup bool, unspec bool) {
	switch v.Kind {
	case gen.JNull:
		return cty.NullVal(cty.DynamicPseudoType), false, false
	case gen.JBool:
		return cty.BoolVal(v.B), false, false
	case gen.JNum:
		f, _, err := big.ParseFloat(v.Num, 10, 512, big.ToNearestEven)
		if err != nil {
			return cty.NilVal, false, true
		}
		return cty.NumberVal(f), false, false
	case gen.JStr:
		return cty.StringVal(v.Str), false, v.LoneSurrogate
	case gen.JArr:
		vals := make([]cty.Value, len(v.Arr))
		for i, e := range v.Arr {
			var d, u bool
			vals[i], d, u = jsonExpected(e)
			dup = dup || d
			unspec = unspec || u
		}
		if dup || unspec {
			return cty.NilVal, dup, unspec
		}
		return cty.TupleVal(vals), false, false
	default:
		m := map[string]cty.Value{}
		for _, mem := range v.Obj {
			ev, d, u := jsonExpected(mem.Val)
			dup = dup || d
			unspec = unspec || u
			k := cty.StringVal(mem.Key).AsString()
			if _, seen := m[k]; seen {
				dup = true
			}
			m[k] = ev
		}
		if dup || unspec {
			return cty.NilVal, dup, unspec
		}
		return cty.ObjectVal(m), false, false
	}
}

// numbersMatch: JSON numbers must be kept at full decimal precision. Both sides are
// 512-bit floats; compare exactly.
func jsonAcceptance(c *hx.Case, text string) (ref.JSONVerdict, ref.RootKind) {
	verdict, root := ref.RecogniseJSON([]byte(text))
	std := stdjson.Valid([]byte(text))
	switch verdict {
	case ref.JSONValid:
		if !std {
			c.Failf("harness-recogniser-disagreement", "recogniser accepts but encoding/json rejects %q", text)
		}
	case ref.JSONInvalid:
		if std {
			c.Failf("harness-recogniser-disagreement", "recogniser rejects but encoding/json accepts %q", text)
		}
	}
	return verdict, root
}

func TestC13_Literal(t *testing.T) {
	hx.Run(t, "C13", "Literal", 15000,
		"grammar-generated JSON document (every escape form, surrogate pairs, numbers with long mantissas/exponents up to 4 digits, nesting<=4, all whitespace forms, duplicate names) parsed with json.ParseExpression and evaluated with a nil context; oracle = the abstract value the generator built; non-trivial = >=1 escape and >=1 non-integer number; distinct by text",
		func(c *hx.Case) {
			t := c.T
			doc := gen.DrawJSON(t, gen.JSONOpts{Depth: 4})
			text, feat := gen.RenderJSON(doc, rchooser{t}, rapid.IntRange(0, 3).Draw(t, "wild") > 0)
			c.Set("json", text)
			featClasses(c, "", feat)
			verdict, _ := jsonAcceptance(c, text)
			if verdict == ref.JSONInvalid {
				c.Failf("harness-generator", "generated document is not valid JSON")
			}
			var expr hcl.Expression
			var diags hcl.Diagnostics
			c.Guard("json.ParseExpression", func() { expr, diags = hcljson.ParseExpression([]byte(text), "t.json") })
			if diags.HasErrors() {
				c.Failf("valid-json-rejected", "valid JSON rejected: %s", diagStr(diags))
			}
			want, dup, unspec := jsonExpected(doc)
			var got cty.Value
			c.Guard("Value(nil)", func() { got, diags = expr.Value(nil) })
			switch {
			case unspec:
				c.Class("unspecified_mapping")
				c.Unspecified("lone-surrogate-escape")
			case dup:
				c.Class("duplicate_names")
				if !diags.HasErrors() {
					c.Failf("duplicate-names-accepted", "object with duplicate names evaluated without error to %#v", got)
				}
			default:
				if diags.HasErrors() {
					c.Failf("literal-eval-error", "evaluation of a literal document failed: %s", diagStr(diags))
				}
				if !got.RawEquals(want) {
					c.Failf("literal-value", "got %#v want %#v", got, want)
				}
			}
			hasEsc := false
			for k := range feat {
				if strings.HasPrefix(k, "esc_") || k == "surrogate_pair" {
					hasEsc = true
				}
			}
			c.Done(hasEsc && feat["non_integer_number"] && !unspec, text)
		})
}

func TestC13_Accept(t *testing.T) {
	hx.Run(t, "C13", "Accept", 20000,
		"near-miss mutations (trailing commas, bare words, +1/.5/01/1., unterminated strings, raw control characters, invalid UTF-8, trailing garbage, two documents, BOM, byte edits, truncation) of valid documents; oracle = strict RFC 8259 recogniser cross-checked against encoding/json.Valid: json.ParseExpression errors iff rejected, json.Parse additionally needs an object/array root; non-trivial = the mutation changed the recogniser's verdict; distinct by text",
		caseC13Accept)
}

func caseC13Accept(c *hx.Case) {
	t := c.T
	doc := gen.DrawJSON(t, gen.JSONOpts{Depth: 3})
	base, _ := gen.RenderJSON(doc, rchooser{t}, rapid.Bool().Draw(t, "wild"))
	text, kinds := gen.MutateJSON(t, base)
	c.Set("json", text)
	c.Set("base", base)
	if hugeExponent.MatchString(text) {
		// U5: number literals with exponents beyond 4 digits are excluded (known slow path)
		c.Class("excluded_huge_exponent")
		c.Done(false, "")
		return
	}
	for _, k := range kinds {
		c.Class("mut_" + k)
	}
	verdict := checkJSONAcceptance(c, text)
	c.Done(verdict == ref.JSONInvalid, text)
}

// checkJSONAcceptance compares the parser's verdict on text with the reference recogniser's.
func checkJSONAcceptance(c *hx.Case, text string) ref.JSONVerdict {
	verdict, root := jsonAcceptance(c, text)
	var diags, fdiags hcl.Diagnostics
	var file *hcl.File
	c.Guard("json.ParseExpression", func() { _, diags = hcljson.ParseExpression([]byte(text), "t.json") })
	c.Guard("json.Parse", func() { file, fdiags = hcljson.Parse([]byte(text), "t.json") })
	if file == nil || file.Body == nil {
		c.Failf("nil-file", "json.Parse returned a nil file/body")
	}
	switch verdict {
	case ref.JSONValid:
		c.Class("accept")
		if diags.HasErrors() {
			c.Failf("valid-json-rejected", "valid JSON rejected by ParseExpression: %s", diagStr(diags))
		}
		if root == ref.RootObject || root == ref.RootArray {
			if fdiags.HasErrors() {
				c.Failf("valid-json-file-rejected", "valid JSON with object/array root rejected by Parse: %s", diagStr(fdiags))
			}
		} else if !fdiags.HasErrors() {
			c.Failf("scalar-root-accepted", "json.Parse accepted a root that is neither object nor array")
		}
	case ref.JSONInvalid:
		c.Class("reject")
		if !diags.HasErrors() {
			c.Failf("invalid-json-accepted", "ParseExpression accepted text that is not valid JSON")
		}
		if !fdiags.HasErrors() {
			c.Failf("invalid-json-file-accepted", "Parse accepted text that is not valid JSON")
		}
	default:
		c.Class("unspecified_acceptance")
		c.Unspecified("bom-or-illformed-utf8-in-string")
	}
	return verdict
}

func FuzzC13_Accept(f *testing.F) { hx.Fuzz(f, "C13", "Accept", caseC13Accept) }

// TestC13_FullExpr: in full-expression mode a JSON string denotes what the native
// template parser assigns to its content; property names are templates too.
func TestC13_FullExpr(t *testing.T) {
	hx.Run(t, "C13", "FullExpr", 10000,
		"template text (rendered from G-TMPL parts, or hostile strings) placed in a JSON string / property name, evaluated with a non-nil context; oracle (differential inside hcl, as the property states) = hclsyntax.ParseTemplate(text).Value(ctx); non-trivial = the template contains a sequence; distinct by text",
		caseC13FullExpr)
}

func caseC13FullExpr(c *hx.Case) {
	t := c.T
	sc := gen.DrawScope(t, gen.ScopeOpts{Nulls: 12})
	var tmpl string
	hasSeq := false
	if rapid.IntRange(0, 3).Draw(t, "hostile") == 0 {
		tmpl = gen.HostileString().Draw(t, "str")
	} else {
		g := gen.NewEG(t, sc, gen.ExprOpts{IllTyped: 8, HostileLits: true, NoHeredoc: true, Budget: 12, MaxDepth: 3})
		parts := g.Parts()
		if !render.PartsHeredocSafe(parts) {
			c.Done(false, "")
			return
		}
		tmpl, _ = render.BareTemplate(parts, rchooser{t}, render.Opts{Wild: 1})
		hasSeq = strings.Contains(tmpl, "${") || strings.Contains(tmpl, "%{")
	}
	if !utf8.ValidString(tmpl) {
		c.Done(false, "")
		return
	}
	c.Set("template", tmpl)
	c.Set("scope", scopeDump(sc))
	ctx := evalCtx(sc)
	feat := map[string]bool{}
	js := gen.EncodeJSONString(tmpl, rchooser{t}, true, feat)
	asKey := rapid.IntRange(0, 3).Draw(t, "askey") == 0
	// the content of a string starts after its opening quote, never at the beginning of a
	// file, so a leading U+FEFF is content and not a byte order mark
	nat, ndiags := hclsyntax.ParseTemplate([]byte(tmpl), "t.tmpl", hcl.Pos{Line: 1, Column: 2, Byte: 1})
	var want cty.Value
	var wdiags hcl.Diagnostics
	c.Guard("native template Value", func() { want, wdiags = nat.Value(ctx) })
	wantErr := ndiags.HasErrors() || wdiags.HasErrors()
	if asKey {
		c.Class("as_property_name")
		text := "{" + js + ": 1}"
		c.Set("json", text)
		expr, diags := hcljson.ParseExpression([]byte(text), "t.json")
		if diags.HasErrors() {
			c.Failf("valid-json-rejected", "%s", diagStr(diags))
		}
		var got cty.Value
		c.Guard("json Value(ctx)", func() { got, diags = expr.Value(ctx) })
		// the name must be the template's result converted to string; null/unconvertible = error
		var wantKey string
		keyErr := wantErr
		if !keyErr {
			if want.IsNull() || !want.IsKnown() {
				keyErr = true
			} else if s, err := convertToString(want); err != nil {
				keyErr = true
			} else {
				wantKey = s
			}
		}
		if keyErr != diags.HasErrors() {
			c.Failf("key-error-flag", "property-name template: native error=%v, json error=%v (%s)", keyErr, diags.HasErrors(), diagStr(diags))
		}
		if !keyErr {
			exp := cty.ObjectVal(map[string]cty.Value{wantKey: cty.NumberIntVal(1)})
			if !got.RawEquals(exp) {
				c.Failf("key-value", "got %#v want %#v", got, exp)
			}
		}
	} else {
		c.Set("json", js)
		expr, diags := hcljson.ParseExpression([]byte(js), "t.json")
		if diags.HasErrors() {
			c.Failf("valid-json-rejected", "%s", diagStr(diags))
		}
		var got cty.Value
		c.Guard("json Value(ctx)", func() { got, diags = expr.Value(ctx) })
		if wantErr != diags.HasErrors() {
			c.Failf("error-flag", "native template error=%v, json string error=%v (%s | %s)", wantErr, diags.HasErrors(), diagStr(wdiags), diagStr(diags))
		}
		if !wantErr && !got.RawEquals(want) {
			c.Failf("value", "json string evaluates to %#v, native template to %#v", got, want)
		}
		// and in literal-only mode the same string is verbatim
		var lit cty.Value
		c.Guard("json Value(nil)", func() { lit, diags = expr.Value(nil) })
		if diags.HasErrors() || !lit.RawEquals(cty.StringVal(tmpl)) {
			c.Failf("literal-mode", "literal-only mode gives %#v, want the verbatim string %q", lit, tmpl)
		}
	}
	c.Done(hasSeq, tmpl)
}

func FuzzC13_FullExpr(f *testing.F) { hx.Fuzz(f, "C13", "FullExpr", caseC13FullExpr) }

var hugeExponent = regexp.MustCompile(`[0-9][eE][+-]?[0-9]{5,}`)

func convertToString(v cty.Value) (string, error) {
	s, err := convertTo(v, cty.String)
	if err != nil {
		return "", err
	}
	return s.AsString(), nil
}
