package props

import (
	"fmt"
	"testing"

	"github.com/hashicorp/hcl/v2"
	"github.com/hashicorp/hcl/v2/ext/dynblock"
	"github.com/hashicorp/hcl/v2/hcldec"
	"github.com/hashicorp/hcl/v2/hclsyntax"
	"github.com/zclconf/go-cty/cty"
	"pgregory.net/rapid"

	"verifharness/ast"
	"verifharness/gen"
	"verifharness/hx"
	"verifharness/render"
)

// treeHas reports whether any expression of the body tree contains a node accepted by f.
func treeHas(b *ast.Body, f func(ast.Node) bool) bool {
	found := false
	visit := func(n ast.Node) {
		ast.Walk(n, func(x ast.Node) {
			if f(x) {
				found = true
			}
		})
	}
	var walk func(b *ast.Body)
	walk = func(b *ast.Body) {
		for _, it := range b.Items {
			switch x := it.(type) {
			case ast.Attr:
				visit(x.Expr)
			case ast.Block:
				walk(x.Body)
			case ast.Dyn:
				visit(x.ForEach)
				for _, l := range x.Labels {
					visit(l)
				}
				walk(x.Content)
			}
		}
	}
	walk(b)
	return found
}

// TestC06_Bodies: marks survive decoding, with and without dynamic blocks.
func TestC06_Bodies(t *testing.T) {
	hx.Run(t, "C06", "Bodies", 8000,
		"spec tree + body (5-in-6 cases without deliberate errors) with `dynamic` blocks whose for_each, labels and content read scope variables; one variable read by the body is the secret: marked (whole value / every leaf / every element) and given two contents of the same type and placement; both runs decode with Decode(Expand(body, ctx), spec, ctx); oracle (non-interference): both error-free and the decoded values differ after deep unmarking => both carry the mark somewhere; non-trivial = both error-free and the results differ; distinct by (spec dump, body dump, secret, placement)",
		func(c *hx.Case) {
			t := c.T
			sc := gen.DrawScope(t, gen.ScopeOpts{Nulls: 40})
			ms := gen.DrawSpec(t, gen.SpecOpts{Depth: 2, AttrNames: specAttrPool, BlockTypes: specBlockPool, BlockBias: 30})
			g := &dynGen{t: t, sc: sc, feat: map[string]bool{}, dynRate: 2, clean: rapid.IntRange(0, 5).Draw(t, "clean") != 0}
			perturb := 40
			if g.clean {
				perturb = 0
				relaxCounts(ms)
			}
			for _, name := range sc.Names {
				v := sc.Vals[name]
				if v.IsKnown() && !v.IsNull() && v.CanIterateElements() && plainIdent.MatchString(name) && !reservedName[name] {
					g.preferForEach = append(g.preferForEach, name)
				}
			}
			c.Set("spec", ms.Dump())
			tree := gen.BodyFromSpec(t, ms, gen.BodyFromSpecOpts{Perturb: perturb, Labels: []string{"a", "b", "x y", "l"}, Expr: g.expr, Dyn: g.dyn})
			dump := ast.DumpBody(tree)
			c.Set("body", dump)
			featClasses(c, "dyn_", g.feat)
			used := ast.FreeVarsBody(tree)
			var candidates []string
			for _, name := range sc.Names {
				if used[name] {
					candidates = append(candidates, name)
				}
			}
			if len(candidates) == 0 {
				c.Class("no_variable_used")
				c.Done(false, "")
				return
			}
			secret := rapid.SampledFrom(candidates).Draw(t, "secretvar")
			placement := gen.MarkPlacement(rapid.IntRange(0, 2).Draw(t, "placement"))
			v1 := sc.Vals[secret]
			v2 := gen.VaryContent(t, v1, placement)
			ctx1, ctx2 := evalCtx(sc), evalCtx(sc)
			ctx1.Variables[secret] = gen.ApplyMark(v1, secretMark, placement)
			ctx2.Variables[secret] = gen.ApplyMark(v2, secretMark, placement)
			// other variables may carry an unrelated mark (so that two different marks meet where a
			// block is generated inside another generated block)
			for _, name := range sc.Names {
				if name != secret && used[name] && rapid.IntRange(0, 2).Draw(t, "othermark") == 0 {
					mv := sc.Vals[name].Mark(otherMark)
					ctx1.Variables[name] = mv
					ctx2.Variables[name] = mv
					c.Class("other_mark_present")
				}
			}
			c.Set("secret", fmt.Sprintf("%s placement=%d content1=%#v content2=%#v", secret, placement, ctx1.Variables[secret], ctx2.Variables[secret]))
			c.Set("scope", scopeDump(sc))
			c.Class(fmt.Sprintf("placement_%d", placement))
			src, _ := render.File(ast.DynSyntax(tree), rchooser{t}, drawBodyOpts(t))
			c.Set("source", src)
			f, diags := hclsyntax.ParseConfig([]byte(src), "t.hcl", hcl.InitialPos)
			if diags.HasErrors() {
				c.Failf("parse-error", "%s", diagStr(diags))
			}
			spec := toHCLDec(ms)
			var r1, r2 cty.Value
			var d1, d2 hcl.Diagnostics
			c.Guard("Decode(content1)", func() { r1, d1 = hcldec.Decode(dynblock.Expand(f.Body, ctx1), spec, ctx1) })
			c.Guard("Decode(content2)", func() { r2, d2 = hcldec.Decode(dynblock.Expand(f.Body, ctx2), spec, ctx2) })
			if d1.HasErrors() || d2.HasErrors() {
				c.Class("some_run_error")
				for _, d := range append(append(hcl.Diagnostics{}, d1...), d2...) {
					if d.Severity == hcl.DiagError {
						c.Class("err:" + d.Summary)
						break
					}
				}
				c.Done(false, "")
				return
			}
			if unmarkedDeep(r1).RawEquals(unmarkedDeep(r2)) {
				c.Class("no_influence")
				c.Done(false, "")
				return
			}
			c.Class("influence")
			c.Set("result1", r1.GoString())
			c.Set("result2", r2.GoString())
			if !carriesMark(r1, secretMark) || !carriesMark(r2, secretMark) {
				hasCond := treeHas(tree, func(n ast.Node) bool { _, ok := n.(ast.Cond); return ok })
				hasIndex := treeHas(tree, func(n ast.Node) bool {
					switch n.(type) {
					case ast.Index, ast.LegacyIndex:
						return true
					}
					return false
				})
				// the number of blocks a dynamic block generates is part of the decoded value's
				// structure, and no value exists that could carry the marks of a for_each
				// collection marked as a whole (zero blocks, or blocks without attributes)
				dynOverSecret := false
				var scanDyn func(b *ast.Body)
				scanDyn = func(b *ast.Body) {
					for _, it := range b.Items {
						switch x := it.(type) {
						case ast.Block:
							scanDyn(x.Body)
						case ast.Dyn:
							if ast.FreeVars(x.ForEach)[secret] {
								dynOverSecret = true
							}
							scanDyn(x.Content)
						}
					}
				}
				scanDyn(tree)
				// (the for_each collection may be the variable itself or a container inside it
				// that carries the mark as a whole, e.g. secret.tags with element-level placement)
				// (... or a collection computed in the for_each expression from a value marked as a
				// whole, e.g. {for k, v in xs : k => v if secret}: the result of such an expression
				// carries the mark as a whole)
				wholeMarkedIterable := placement == gen.MarkTop || hasMarkedContainer(ctx1.Variables[secret]) || hasMarkedContainer(ctx2.Variables[secret])
				switch {
				case dynOverSecret && wholeMarkedIterable && c.Known("dynblock-marked-for-each-block-count-unmarked"):
					c.Class("excluded_known_dynamic_block_count")
					c.Done(false, "")
					return
				case hasCond && c.Known("cond-unconverted-when-other-branch-dynamic"):
					c.Class("excluded_known_cond_dynamic")
					c.Done(false, "")
					return
				case hasIndex && c.Known("object-index-drops-key-marks"):
					c.Class("excluded_known_object_index_marked_key")
					c.Done(false, "")
					return
				case (hasMarkedNullNested(ctx1.Variables[secret]) || hasMarkedNullNested(ctx2.Variables[secret])) && c.Known("conversion-drops-mark-of-null-element"):
					c.Class("excluded_known_marked_null_conversion")
					c.Done(false, "")
					return
				}
				c.Failf("mark-lost", "changing the marked variable %q changes the decoded value (%#v vs %#v) but the mark is not carried by both results", secret, r1, r2)
			}
			c.Done(true, fmt.Sprintf("%s|%s|%s|%d", ms.Dump(), dump, secret, placement))
		})
}
