package props

import (
	"fmt"
	"testing"

	"github.com/zclconf/go-cty/cty"
	"pgregory.net/rapid"

	"verifharness/gen"
	"verifharness/hx"
)

// TestC05_Elements: a known collection some of whose elements are unknown, consumed by a
// construct that visits the elements one after the other (template for directive, for
// expression, splat, argument expansion, join): every position of the unknown elements -
// first, middle, last, several - must leave an abstract result that stands for all the
// concrete ones.
func TestC05_Elements(t *testing.T) {
	hx.Run(t, "C05", "Elements", 12000,
		"directed family: xs is a list / tuple / map / set-free collection of 2..4 strings or numbers (ys: objects with an attribute) whose elements are individually kept or replaced by typed / refined / dynamic unknowns (at least one unknown and, mostly, one known; the unknown first, in the middle or last); expression = an element-visiting construct (template `%{ for }` with and without key and strip markers, quoted and heredoc, tuple / object / grouping `for` with and without `if`, full and attribute splat, `cat(xs...)`, joinl, index, len) optionally embedded in a template, a tuple, a conditional or a comparison; oracle = consistent(abs, conc) against the original scope and 4 fresh concretisations of the unknown elements; non-trivial = both runs error-free and the abstract result is not just the dynamic value; distinct by (source, abstraction)",
		func(c *hx.Case) {
			t := c.T
			n := rapid.IntRange(2, 4).Draw(t, "len")
			kind := rapid.SampledFrom([]string{"list", "list", "tuple", "map", "numlist"}).Draw(t, "collkind")
			var elems []cty.Value
			m := map[string]cty.Value{}
			var objs []cty.Value
			for i := 0; i < n; i++ {
				var e cty.Value
				if kind == "numlist" || (kind == "tuple" && rapid.Bool().Draw(t, "num_elem")) {
					e = cty.NumberIntVal(int64(rapid.IntRange(0, 3).Draw(t, "num")))
				} else {
					e = cty.StringVal(rapid.SampledFrom([]string{"a", "b", "c", "", "a b"}).Draw(t, "str"))
				}
				elems = append(elems, e)
				m[fmt.Sprintf("k%d", i)] = e
				objs = append(objs, cty.ObjectVal(map[string]cty.Value{"id": cty.NumberIntVal(int64(i)), "name": e}))
			}
			var xs cty.Value
			switch kind {
			case "list", "numlist":
				xs = cty.ListVal(elems)
			case "tuple":
				xs = cty.TupleVal(elems)
			default:
				if len(elems) > 0 && !elems[0].Type().Equals(cty.String) {
					xs = cty.ListVal(elems)
				} else {
					xs = cty.MapVal(m)
				}
			}
			if xs.Type().IsListType() || xs.Type().IsMapType() {
				// homogeneous collections need elements of one type
				ty := elems[0].Type()
				for _, e := range elems {
					if !e.Type().Equals(ty) {
						xs = cty.TupleVal(elems)
					}
				}
			}
			ys := cty.TupleVal(objs)
			sc := &gen.Scope{Names: []string{"c1", "xs", "ys"}, Vals: map[string]cty.Value{"c1": cty.True, "xs": xs, "ys": ys}}
			bases := []string{
				`"%{ for x in xs }${x},%{ endfor }"`,
				`"<%{ for x in xs ~}  ${x}  %{~ endfor }>"`,
				`"%{ for i, x in xs }${i}=${x};%{ endfor }end"`,
				"<<EOT\n%{ for x in xs }\n  ${x}\n%{ endfor }\nEOT\n",
				`"%{ for y in ys }${y.name}-%{ endfor }"`,
				`[for x in xs : x]`, `[for x in xs : "${x}!"]`, `{for i, x in xs : "k${i}" => x}`, `{for x in xs : "g" => x...}`,
				`[for x in xs : x if x != "a"]`, `[for i, x in xs : i if x == "b"]`,
				`xs[*]`, `ys[*].name`, `ys.*.name`, `cat(xs...)`, `cat("p", xs...)`, `len(xs)`, `xs[0]`, `len([for x in xs : x if x != ""])`,
				`"%{ for x in xs }%{ if x != "a" }${x}%{ else }-%{ endif }%{ endfor }"`,
				`"%{ for y in ys }%{ for x in xs }${y.id}${x} %{ endfor }%{ endfor }"`,
			}
			if xs.Type().IsListType() && xs.Type().ElementType().Equals(cty.String) {
				bases = append(bases, `joinl(",", xs)`, `"[${joinl("|", xs)}]"`)
			}
			base := rapid.SampledFrom(bases).Draw(t, "base")
			wraps := []string{"%s", "%s", "[%s, 1]", "c1 ? %s : null", "{k = %s}", "(%s)"}
			if base[0] == '"' {
				wraps = append(wraps, `"pre ${%s} post"`, `upper(%s)`, `%s == "x"`)
			}
			if base[0] == '<' {
				wraps = []string{"%s"}
			}
			src := fmt.Sprintf(rapid.SampledFrom(wraps).Draw(t, "wrap"), base)
			c.Set("source", src)
			c.Set("scope", scopeDump(sc))
			expr, diags := parseExprSrc(src)
			if diags.HasErrors() {
				c.Failf("harness-generator", "directed source does not parse: %s", diagStr(diags))
			}
			// element-wise abstraction with at least one unknown element
			mk := func(v cty.Value, label string) *gen.AbsNode {
				an := &gen.AbsNode{Kind: gen.AbsContainer, Orig: v}
				cnt := v.LengthInt()
				forced := rapid.IntRange(0, cnt-1).Draw(t, label+"_unknown_at")
				i := 0
				for it := v.ElementIterator(); it.Next(); i++ {
					k, ev := it.Element()
					an.Keys = append(an.Keys, k)
					if i == forced || rapid.IntRange(0, 3).Draw(t, label+"_more") == 0 {
						child := gen.DrawAbstraction(t, ev, 2)
						if (v.Type().IsListType() || v.Type().IsMapType()) && child.Kind == gen.AbsDynamic {
							child.Kind = gen.AbsTyped
						}
						an.Elems = append(an.Elems, child)
						switch {
						case i == 0:
							c.Class("unknown_first")
						case i == cnt-1:
							c.Class("unknown_last")
						default:
							c.Class("unknown_middle")
						}
					} else {
						an.Elems = append(an.Elems, &gen.AbsNode{Kind: gen.AbsKeep, Orig: ev})
					}
				}
				return an
			}
			absNodes := map[string]*gen.AbsNode{}
			which := rapid.IntRange(0, 2).Draw(t, "abstract_which")
			if which != 1 {
				absNodes["xs"] = mk(xs, "xs")
			}
			if which != 0 {
				absNodes["ys"] = mk(ys, "ys")
			}
			checkAbstraction(c, sc, expr, absNodes, src)
		})
}
