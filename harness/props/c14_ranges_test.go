package props

import (
	"bytes"
	"fmt"
	"strconv"
	"strings"
	"testing"

	"github.com/hashicorp/hcl/v2"
	"github.com/hashicorp/hcl/v2/hclsyntax"
	"pgregory.net/rapid"

	"github.com/zclconf/go-cty/cty"

	"verifharness/ast"
	"verifharness/gen"
	"verifharness/hx"
	"verifharness/ref"
	"verifharness/render"
)

// rangeChecker verifies, for one error-free parse, that every recorded range slices the
// source to the construct it names (C14, second half).
type rangeChecker struct {
	c     *hx.Case
	src   []byte
	count map[string]int
	// lostDiagsOnly: only report sub-expressions whose text does not parse although the
	// whole input parsed without error (C15: an error went unreported)
	lostDiagsOnly bool
	// collect: only gather the ranges of the nodes that stand where an expression stands
	collect *[]hcl.Range
	// pt, tainted: reference positions and the lines on which some token boundary is not a
	// grapheme-cluster boundary (columns are not comparable there: the property's caveat)
	pt      *ref.PosTable
	tainted map[int]bool
}

// pos compares a recorded position with the reference count.
func (rc *rangeChecker) pos(p hcl.Pos, what string) {
	if rc.pt == nil || rc.lostDiagsOnly || p.Byte < 0 || p.Byte > len(rc.src) {
		return
	}
	if p.Line != rc.pt.Line[p.Byte]+1 {
		rc.c.Failf("range-position", "%s: line %d recorded for byte %d, counting newlines gives %d", what, p.Line, p.Byte, rc.pt.Line[p.Byte]+1)
	}
	if rc.pt.Boundary[p.Byte] && rc.pt.ColOK[p.Byte] && !rc.tainted[rc.pt.Line[p.Byte]] {
		rc.count["column"]++
		if p.Column != rc.pt.Col[p.Byte]+1 {
			rc.c.Failf("range-position", "%s: column %d recorded for byte %d (line %d), counting grapheme clusters gives %d", what, p.Column, p.Byte, p.Line, rc.pt.Col[p.Byte]+1)
		}
	}
}

func (rc *rangeChecker) failf(sig, format string, args ...any) {
	if rc.lostDiagsOnly {
		return
	}
	rc.c.Failf(sig, format, args...)
}

func (rc *rangeChecker) slice(r hcl.Range, what string) (string, bool) {
	if r.Start.Byte < 0 || r.End.Byte > len(rc.src) || r.Start.Byte > r.End.Byte {
		if rc.lostDiagsOnly {
			return "", false
		}
		rc.c.Failf("range-out-of-bounds", "%s: range %s is not within the source (len %d)", what, r, len(rc.src))
	}
	rc.pos(r.Start, what+" (start)")
	rc.pos(r.End, what+" (end)")
	return string(rc.src[r.Start.Byte:r.End.Byte]), true
}

func (rc *rangeChecker) expect(r hcl.Range, what, want string) {
	if rc.lostDiagsOnly {
		return
	}
	got, _ := rc.slice(r, what)
	rc.count[strings.SplitN(what, " ", 2)[0]]++
	if got != want {
		rc.failf("range-slice", "%s: range %s slices to %q, expected %q", what, r, got, want)
	}
}

func (rc *rangeChecker) within(inner, outer hcl.Range, what string) {
	if rc.lostDiagsOnly {
		return
	}
	if inner.Start.Byte < outer.Start.Byte || inner.End.Byte > outer.End.Byte {
		rc.c.Failf("range-containment", "%s: range %s is not inside the range %s of its parent", what, inner, outer)
	}
}

// labelText decodes the source text of a block label: an identifier, or a quoted string
// literal without template sequences.
func labelText(s string) (string, bool) {
	if strings.HasPrefix(s, `"`) && strings.HasSuffix(s, `"`) && len(s) >= 2 {
		// HCL string escapes are Go-compatible for the subset \n \r \t \" \\ \uXXXX \UXXXXXXXX
		inner := s[1 : len(s)-1]
		inner = strings.ReplaceAll(inner, "$${", "${")
		inner = strings.ReplaceAll(inner, "%%{", "%{")
		u, err := strconv.Unquote(`"` + inner + `"`)
		if err != nil {
			return "", false
		}
		return u, true
	}
	return s, true
}

func (rc *rangeChecker) body(b *hclsyntax.Body) {
	for name, a := range b.Attributes {
		rc.expect(a.NameRange, "name of attribute", name)
		rc.expect(a.EqualsRange, "operator = of attribute "+name, "=")
		rc.within(a.NameRange, a.SrcRange, "attribute name")
		rc.within(a.Expr.Range(), a.SrcRange, "attribute value")
		if a.SrcRange.Start != a.NameRange.Start {
			rc.failf("range-extent", "attribute %s: its range %s does not start at its name %s", name, a.SrcRange, a.NameRange)
		}
		if a.SrcRange.End != a.Expr.Range().End {
			rc.failf("range-extent", "attribute %s: its range %s does not end where its value ends (%s)", name, a.SrcRange, a.Expr.Range())
		}
		rc.within(a.SrcRange, b.SrcRange, "attribute")
		rc.expr(a.Expr, true)
	}
	for _, bl := range b.Blocks {
		rc.expect(bl.TypeRange, "name of block", bl.Type)
		if len(bl.LabelRanges) != len(bl.Labels) {
			rc.failf("range-labels", "block %s has %d labels but %d label ranges", bl.Type, len(bl.Labels), len(bl.LabelRanges))
		}
		for i, lr := range bl.LabelRanges {
			txt, _ := rc.slice(lr, "label")
			got, ok := labelText(txt)
			rc.count["label"]++
			if !ok || cty.StringVal(got).AsString() != bl.Labels[i] {
				rc.failf("range-slice", "label %d of block %s: range %s slices to %s, which does not denote the label %q", i, bl.Type, lr, strconv.Quote(txt), bl.Labels[i])
			}
		}
		rc.expect(bl.OpenBraceRange, "brace open of block "+bl.Type, "{")
		rc.expect(bl.CloseBraceRange, "brace close of block "+bl.Type, "}")
		rc.within(bl.Range(), b.SrcRange, "block")
		if bl.Body != nil {
			rc.body(bl.Body)
		}
	}
}

// expr checks one expression node; reparse says whether its text is a stand-alone expression.
func (rc *rangeChecker) expr(e hclsyntax.Expression, reparse bool) {
	r := e.Range()
	text, _ := rc.slice(r, fmt.Sprintf("%T", e))
	if reparse && rc.collect != nil {
		*rc.collect = append(*rc.collect, r)
	} else if reparse {
		rc.count["expression"]++
		// (a line end is appended: a heredoc's closing marker must be followed by one, and it
		// belongs to the enclosing line structure rather than to the expression)
		re, diags := hclsyntax.ParseExpression([]byte(text+"\n"), "sub.hcl", hcl.InitialPos)
		if diags.HasErrors() {
			if rc.lostDiagsOnly {
				rc.c.Failf("error-not-reported", "the input parsed without any error diagnostic, but the source text %q of its sub-expression %T (range %s) is rejected on its own: %s", text, e, r, diagStr(diags))
			}
			rc.c.Failf("range-reparse", "%T: its range %s slices to %q, which does not parse as an expression: %s", e, r, text, diagStr(diags))
		}
		if a, b := dumpSyntax(re), dumpSyntax(e); a != b && !rc.lostDiagsOnly {
			rc.c.Failf("range-reparse", "%T: its range %s slices to %q, which parses to a different expression:\n  %s\nvs\n  %s", e, r, text, a, b)
		}
	}
	switch x := e.(type) {
	case *hclsyntax.FunctionCallExpr:
		// a namespaced name may be written with blanks and comments around its "::" separators
		fn, _ := rc.slice(x.NameRange, "name of function")
		rc.count["name"]++
		if strings.Join(strings.Fields(stripComments(fn)), "") != x.Name {
			rc.failf("range-slice", "name of function: range %s slices to %q, expected %q", x.NameRange, fn, x.Name)
		}
		rc.expect(x.OpenParenRange, "brace ( of call", "(")
		rc.expect(x.CloseParenRange, "brace ) of call", ")")
		for _, a := range x.Args {
			rc.within(a.Range(), r, "call argument")
			rc.expr(a, true)
		}
	case *hclsyntax.TupleConsExpr:
		rc.expect(x.OpenRange, "brace [ of tuple", "[")
		for _, el := range x.Exprs {
			rc.within(el.Range(), r, "tuple element")
			rc.expr(el, true)
		}
	case *hclsyntax.ObjectConsExpr:
		rc.expect(x.OpenRange, "brace { of object", "{")
		for _, it := range x.Items {
			rc.within(it.KeyExpr.Range(), r, "object key")
			rc.within(it.ValueExpr.Range(), r, "object value")
			if k, ok := it.KeyExpr.(*hclsyntax.ObjectConsKeyExpr); ok {
				// a bare identifier key is a string here but a variable on its own
				rc.expr(k.Wrapped, !isBareKey(k))
			} else {
				rc.expr(it.KeyExpr, true)
			}
			rc.expr(it.ValueExpr, true)
		}
	case *hclsyntax.ParenthesesExpr:
		if !strings.HasPrefix(text, "(") || !strings.HasSuffix(text, ")") {
			rc.failf("range-slice", "parentheses: range %s slices to %q", r, text)
		}
		rc.within(x.Expression.Range(), r, "parenthesised expression")
		rc.expr(x.Expression, true)
	case *hclsyntax.UnaryOpExpr:
		sym, _ := rc.slice(x.SymbolRange, "operator")
		rc.count["operator"]++
		if sym != "-" && sym != "!" {
			rc.failf("range-slice", "unary operator: symbol range %s slices to %q", x.SymbolRange, sym)
		}
		rc.within(x.Val.Range(), r, "operand")
		rc.expr(x.Val, true)
	case *hclsyntax.BinaryOpExpr:
		rc.within(x.LHS.Range(), r, "left operand")
		rc.within(x.RHS.Range(), r, "right operand")
		if x.LHS.Range().End.Byte > x.RHS.Range().Start.Byte {
			rc.failf("range-order", "binary operation: left operand %s overlaps right operand %s", x.LHS.Range(), x.RHS.Range())
		}
		between := strings.TrimSpace(stripComments(string(rc.src[x.LHS.Range().End.Byte:x.RHS.Range().Start.Byte])))
		rc.count["operator"]++
		if !isBinaryOperator(strings.Trim(between, "()\r\n\t ")) {
			rc.failf("range-slice", "binary operation: the text between its operands is %q", between)
		}
		rc.expr(x.LHS, true)
		rc.expr(x.RHS, true)
	case *hclsyntax.ConditionalExpr:
		for _, sub := range []hclsyntax.Expression{x.Condition, x.TrueResult, x.FalseResult} {
			rc.within(sub.Range(), r, "conditional part")
			rc.expr(sub, true)
		}
	case *hclsyntax.IndexExpr:
		rc.expect(x.OpenRange, "brace [ of index", "[")
		if !strings.HasSuffix(text, "]") {
			rc.failf("range-slice", "index: range %s slices to %q (no closing bracket)", r, text)
		}
		rc.within(x.Collection.Range(), r, "indexed collection")
		rc.within(x.Key.Range(), r, "index key")
		rc.expr(x.Collection, true)
		rc.expr(x.Key, true)
	case *hclsyntax.SplatExpr:
		m, _ := rc.slice(x.MarkerRange, "splat marker")
		rc.count["operator"]++
		mm := strings.Join(strings.Fields(stripComments(m)), "")
		if mm != "[*]" && mm != ".*" {
			rc.failf("range-slice", "splat: marker range %s slices to %q", x.MarkerRange, m)
		}
		rc.within(x.Source.Range(), r, "splat source")
		rc.expr(x.Source, true)
	case *hclsyntax.ForExpr:
		if x.KeyExpr != nil {
			rc.expect(x.OpenRange, "brace { of for", "{")
			rc.expect(x.CloseRange, "brace } of for", "}")
		} else {
			rc.expect(x.OpenRange, "brace [ of for", "[")
			rc.expect(x.CloseRange, "brace ] of for", "]")
		}
		for _, sub := range []hclsyntax.Expression{x.CollExpr, x.KeyExpr, x.ValExpr, x.CondExpr} {
			if sub != nil {
				rc.within(sub.Range(), r, "for part")
				rc.expr(sub, true)
			}
		}
	case *hclsyntax.TemplateExpr:
		for _, p := range x.Parts {
			rc.within(p.Range(), r, "template part")
			if _, lit := p.(*hclsyntax.LiteralValueExpr); lit {
				rc.slice(p.Range(), "literal part of a template")
				rc.count["template-literal"]++
				continue
			}
			rc.templatePart(p)
		}
	case *hclsyntax.TemplateWrapExpr:
		rc.within(x.Wrapped.Range(), r, "wrapped interpolation")
		rc.templatePart(x.Wrapped)
	case *hclsyntax.ScopeTraversalExpr:
		root, _ := rc.slice(x.Traversal[0].SourceRange(), "traversal root")
		rc.count["name"]++
		if root != x.Traversal.RootName() {
			rc.failf("range-slice", "variable %q: its root range %s slices to %q", x.Traversal.RootName(), x.Traversal[0].SourceRange(), root)
		}
		rc.steps(x.Traversal[1:], r)
	case *hclsyntax.RelativeTraversalExpr:
		rc.within(x.Source.Range(), r, "traversal source")
		rc.expr(x.Source, true)
		rc.steps(x.Traversal, r)
	}
}

func (rc *rangeChecker) steps(tr hcl.Traversal, parent hcl.Range) {
	for _, st := range tr {
		sr := st.SourceRange()
		rc.within(sr, parent, "traversal step")
		txt, _ := rc.slice(sr, "traversal step")
		if a, ok := st.(hcl.TraverseAttr); ok {
			rc.count["name"]++
			t := strings.Join(strings.Fields(stripComments(txt)), "")
			if t != "."+a.Name {
				rc.failf("range-slice", "attribute step .%s: its range %s slices to %q", a.Name, sr, txt)
			}
		}
	}
}

// templatePart descends into the sub-expressions of template constructs, whose own text
// is not a stand-alone expression.
func (rc *rangeChecker) templatePart(p hclsyntax.Expression) {
	switch x := p.(type) {
	case *hclsyntax.ConditionalExpr:
		// %{if}: the condition is an expression, the branches are templates
		rc.expr(x.Condition, true)
		rc.templatePart(x.TrueResult)
		rc.templatePart(x.FalseResult)
	case *hclsyntax.TemplateJoinExpr:
		rc.templatePart(x.Tuple)
	case *hclsyntax.ForExpr:
		rc.expr(x.CollExpr, true)
		rc.templatePart(x.ValExpr)
	case *hclsyntax.TemplateExpr:
		for _, q := range x.Parts {
			if _, lit := q.(*hclsyntax.LiteralValueExpr); !lit {
				rc.templatePart(q)
			}
		}
	case *hclsyntax.LiteralValueExpr:
	default:
		rc.expr(p, true)
	}
}

func isBareKey(k *hclsyntax.ObjectConsKeyExpr) bool {
	_, isTrav := k.Wrapped.(*hclsyntax.ScopeTraversalExpr)
	return isTrav && !k.ForceNonLiteral
}

func isBinaryOperator(s string) bool {
	switch s {
	case "+", "-", "*", "/", "%", "==", "!=", "<", "<=", ">", ">=", "&&", "||":
		return true
	}
	return false
}

// stripComments removes /* */, // and # comments from a piece of source that contains
// no string literals (the gaps between operands).
func stripComments(s string) string {
	var sb strings.Builder
	for i := 0; i < len(s); {
		switch {
		case strings.HasPrefix(s[i:], "/*"):
			j := strings.Index(s[i+2:], "*/")
			if j < 0 {
				return sb.String()
			}
			i += j + 4
		case strings.HasPrefix(s[i:], "//") || s[i] == '#':
			j := strings.IndexByte(s[i:], '\n')
			if j < 0 {
				return sb.String()
			}
			i += j
		default:
			sb.WriteByte(s[i])
			i++
		}
	}
	return sb.String()
}

// checkNoLostDiagnostics re-parses the text of every sub-expression of an error-free parse.
func checkNoLostDiagnostics(c *hx.Case, src []byte, body *hclsyntax.Body) {
	rc := &rangeChecker{c: c, src: src, count: map[string]int{}, lostDiagsOnly: true}
	c.Guard("sub-expression walk", func() { rc.bodyExprs(body) })
}

func (rc *rangeChecker) bodyExprs(b *hclsyntax.Body) {
	for _, a := range b.Attributes {
		rc.expr(a.Expr, true)
	}
	for _, bl := range b.Blocks {
		if bl.Body != nil {
			rc.bodyExprs(bl.Body)
		}
	}
}

// expressionRanges lists the source ranges of all nodes that stand in expression position.
func expressionRanges(c *hx.Case, src []byte, body *hclsyntax.Body) []hcl.Range {
	var out []hcl.Range
	rc := &rangeChecker{c: c, src: src, count: map[string]int{}, lostDiagsOnly: true, collect: &out}
	c.Guard("sub-expression walk", func() { rc.bodyExprs(body) })
	return out
}

// checkRanges runs the range-fidelity checks over an error-free parse.
func checkRanges(c *hx.Case, src []byte, f *hcl.File) map[string]int {
	rc := &rangeChecker{c: c, src: src, count: map[string]int{}}
	body, ok := f.Body.(*hclsyntax.Body)
	if !ok {
		return rc.count
	}
	skip := 0
	if bytes.HasPrefix(src, []byte("\xef\xbb\xbf")) {
		skip = 3
	}
	rc.pt = ref.NewPosTable(src, skip)
	rc.tainted = map[int]bool{}
	toks, _ := hclsyntax.LexConfig(src, "t.hcl", hcl.InitialPos)
	for _, tok := range toks {
		for _, b := range []int{tok.Range.Start.Byte, tok.Range.End.Byte} {
			if b >= 0 && b <= len(src) && !rc.pt.Boundary[b] {
				rc.tainted[rc.pt.Line[b]] = true
			}
		}
	}
	c.Guard("range walk", func() { rc.body(body) })
	return rc.count
}

func TestC14_Ranges(t *testing.T) {
	hx.Run(t, "C14", "Ranges", 8000,
		"error-free configuration (body tree with attributes over G-EXPR, blocks with bare / quoted / escaped labels, templates, heredocs) rendered in a random layout (comments, newlines inside brackets, CRLF, BOM); oracle = the source itself: NameRange / TypeRange / function and variable names slice to the name, label ranges to text denoting the label, brace / bracket / parenthesis ranges to that character, operator ranges (=, unary symbol, splat marker, the text between binary operands) to the operator, child ranges lie inside parent ranges, attribute range = name start .. value end, and every expression's range slices to text that re-parses (ParseExpression) without error to the same AST modulo ranges; non-trivial = >=3 nested expression levels and a block with labels; distinct by source",
		caseC14Ranges)
}

func caseC14Ranges(c *hx.Case) {
	t := c.T
	sc := gen.DrawScope(t, gen.ScopeOpts{Nulls: 10})
	tree := drawConfig(t, sc, 2, gen.ExprOpts{HostileLits: true, Budget: 12})
	src, _ := render.File(tree, rchooser{t}, drawBodyOpts(t))
	c.Set("source", src)
	f, diags := hclsyntax.ParseConfig([]byte(src), "t.hcl", hcl.InitialPos)
	if diags.HasErrors() {
		c.Failf("parse-error", "%s", diagStr(diags))
	}
	counts := checkRanges(c, []byte(src), f)
	featClassesN(c, "checked_", counts)
	labelled := false
	var scan func(b *ast.Body)
	scan = func(b *ast.Body) {
		for _, bl := range b.Blocks() {
			if len(bl.Labels) > 0 {
				labelled = true
			}
			scan(bl.Body)
		}
	}
	scan(tree)
	c.Done(labelled && counts["expression"] >= 6, src)
}

func FuzzC14_Ranges(f *testing.F) { hx.Fuzz(f, "C14", "Ranges", caseC14Ranges) }

var _ = rapid.Bool
