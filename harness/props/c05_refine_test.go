package props

import (
	"fmt"
	"strings"
	"testing"

	"github.com/zclconf/go-cty/cty"
	"pgregory.net/rapid"

	"verifharness/ast"
	"verifharness/gen"
	"verifharness/hx"
	"verifharness/render"
)

// refPool is the small pool from which numbers, literals and refinement bounds of the
// Refinements sub-check are drawn.
var refPool = []cty.Value{cty.NumberIntVal(-1), cty.NumberIntVal(0), cty.NumberIntVal(1), cty.NumberFloatVal(1.5), cty.NumberIntVal(2), cty.NumberIntVal(3), cty.NumberIntVal(5), cty.NumberIntVal(10)}
var refPoolText = []string{"-1", "0", "1", "1.5", "2", "3", "5", "10"}
var refStrings = []string{"", "a", "ab", "abc", "b", "ba"}

// refGen is a small typed expression grammar over the refinement scope: every operator
// whose result carries refinements derived from its operands (conditional, comparison,
// arithmetic, equality, logic, template concatenation, for over a list of bounded length, length).
type refGen struct {
	t    *rapid.T
	feat map[string]bool
}

func (g *refGen) lit() ast.Node {
	i := rapid.IntRange(0, len(refPoolText)-1).Draw(g.t, "lit")
	if strings.HasPrefix(refPoolText[i], "-") {
		return ast.Paren{X: ast.Unary{Op: "-", X: ast.Num{Text: refPoolText[i][1:]}}}
	}
	return ast.Num{Text: refPoolText[i]}
}

func (g *refGen) num(d int) ast.Node {
	t := g.t
	k := rapid.IntRange(0, 9).Draw(t, "numkind")
	if d <= 0 && k > 3 {
		k = k % 4
	}
	switch k {
	case 0, 1:
		return ast.Var{Name: rapid.SampledFrom([]string{"n1", "n2", "n3"}).Draw(t, "nv")}
	case 2, 3:
		return g.lit()
	case 4, 5:
		g.feat["cond_number"] = true
		return ast.Paren{X: ast.Cond{P: g.boolean(d - 1), T: g.num(d - 1), F: g.num(d - 1)}}
	case 6, 7:
		g.feat["arith"] = true
		return ast.Paren{X: ast.Binary{Op: rapid.SampledFrom([]string{"+", "-", "*"}).Draw(t, "aop"), L: g.num(d - 1), R: g.num(d - 1)}}
	case 8:
		g.feat["negate"] = true
		return ast.Paren{X: ast.Unary{Op: "-", X: g.num(d - 1)}}
	default:
		g.feat["len_call"] = true
		return ast.Call{Name: "len", Args: []ast.Node{g.list(d - 1)}}
	}
}

func (g *refGen) boolean(d int) ast.Node {
	t := g.t
	k := rapid.IntRange(0, 9).Draw(t, "boolkind")
	if d <= 0 && k > 4 {
		k = k % 5
	}
	switch k {
	case 0, 1, 2:
		return ast.Var{Name: rapid.SampledFrom([]string{"c1", "c2"}).Draw(t, "bv")}
	case 3:
		return ast.Bool{V: rapid.Bool().Draw(t, "b")}
	case 4, 5, 6:
		g.feat["compare"] = true
		return ast.Paren{X: ast.Binary{Op: rapid.SampledFrom([]string{"<", "<=", ">", ">=", "==", "!="}).Draw(t, "cop"), L: g.num(d - 1), R: g.num(d - 1)}}
	case 7:
		g.feat["logic"] = true
		return ast.Paren{X: ast.Binary{Op: rapid.SampledFrom([]string{"&&", "||"}).Draw(t, "lop"), L: g.boolean(d - 1), R: g.boolean(d - 1)}}
	case 8:
		g.feat["not"] = true
		return ast.Paren{X: ast.Unary{Op: "!", X: g.boolean(d - 1)}}
	default:
		if rapid.Bool().Draw(t, "tuple_index") {
			// an element of a tuple of mixed types selected by a (possibly unknown) index and
			// compared with a literal: the type of the selection is not known before the index is
			g.feat["tuple_index_equality"] = true
			elems := []ast.Node{g.lit(), g.str(0), ast.Bool{V: rapid.Bool().Draw(t, "tb")}, g.lit()}[:rapid.IntRange(2, 4).Draw(t, "ntuple")]
			var other ast.Node
			if rapid.Bool().Draw(t, "other_num") {
				other = g.lit()
			} else {
				other = g.str(0)
			}
			return ast.Paren{X: ast.Binary{Op: rapid.SampledFrom([]string{"==", "!="}).Draw(t, "sop"), L: ast.Index{Coll: ast.Tuple{Elems: elems}, Key: ast.Var{Name: rapid.SampledFrom([]string{"n1", "n2", "n3"}).Draw(t, "iv")}}, R: other}}
		}
		g.feat["string_equality"] = true
		return ast.Paren{X: ast.Binary{Op: rapid.SampledFrom([]string{"==", "!="}).Draw(t, "sop"), L: g.str(d - 1), R: g.str(d - 1)}}
	}
}

func (g *refGen) str(d int) ast.Node {
	t := g.t
	k := rapid.IntRange(0, 7).Draw(t, "strkind")
	if d <= 0 && k > 3 {
		k = k % 4
	}
	lit := func() ast.Node {
		return ast.Template{Parts: []ast.TPart{ast.TLit{Text: rapid.SampledFrom(refStrings).Draw(t, "slit")}}}
	}
	switch k {
	case 0, 1:
		return ast.Var{Name: rapid.SampledFrom([]string{"s1", "s2"}).Draw(t, "sv")}
	case 2, 3:
		return lit()
	case 4, 5:
		g.feat["template_concat"] = true
		var parts []ast.TPart
		for i, n := 0, rapid.IntRange(1, 3).Draw(t, "nparts"); i < n; i++ {
			if rapid.Bool().Draw(t, "interp") {
				var x ast.Node
				if rapid.IntRange(0, 3).Draw(t, "numinterp") == 0 {
					x = g.num(d - 1)
				} else {
					x = g.str(d - 1)
				}
				parts = append(parts, ast.TInterp{X: x})
			} else if len(parts) == 0 || !isLit(parts[len(parts)-1]) {
				parts = append(parts, ast.TLit{Text: rapid.SampledFrom([]string{"a", "b", "-", "ab"}).Draw(t, "tl")})
			}
		}
		return ast.Template{Parts: parts}
	case 6:
		g.feat["cond_string"] = true
		return ast.Paren{X: ast.Cond{P: g.boolean(d - 1), T: g.str(d - 1), F: g.str(d - 1)}}
	default:
		g.feat["upper_call"] = true
		return ast.Call{Name: "upper", Args: []ast.Node{g.str(d - 1)}}
	}
}

func isLit(p ast.TPart) bool { _, ok := p.(ast.TLit); return ok }

func (g *refGen) list(d int) ast.Node {
	t := g.t
	k := rapid.IntRange(0, 5).Draw(t, "listkind")
	if d <= 0 && k > 1 {
		k = k % 2
	}
	switch k {
	case 0, 1:
		return ast.Var{Name: rapid.SampledFrom([]string{"l1", "l2"}).Draw(t, "lv")}
	case 2, 3:
		g.feat["cond_list"] = true
		return ast.Paren{X: ast.Cond{P: g.boolean(d - 1), T: g.list(d - 1), F: g.list(d - 1)}}
	case 4:
		g.feat["for_list"] = true
		return ast.For{ValVar: "e", Coll: g.list(d - 1), Val: ast.Template{Parts: []ast.TPart{ast.TInterp{X: ast.Var{Name: "e"}}, ast.TLit{Text: "!"}}}}
	default:
		g.feat["splat_list"] = true
		return ast.For{ValVar: "e", Coll: g.list(d - 1), Val: ast.Var{Name: "e"}, Cond: g.boolean(d - 1)}
	}
}

func (g *refGen) top() ast.Node {
	switch rapid.IntRange(0, 5).Draw(g.t, "topkind") {
	case 0, 1:
		return g.num(3)
	case 2:
		return g.boolean(3)
	case 3:
		return g.str(3)
	case 4:
		return g.list(2)
	default:
		return ast.Tuple{Elems: []ast.Node{g.num(2), g.boolean(2), g.str(2)}}
	}
}

func TestC05_Refinements(t *testing.T) {
	hx.Run(t, "C05", "Refinements", 15000,
		"directed family for refinement merging: scope of numbers/strings/lists/bools whose values, the literals in the expression and the refinement bounds of the abstracted variables all come from one small pool (so equal bounds with different inclusivity, touching and nested ranges are frequent); expression from a typed grammar of the operators that derive refinements from operands (conditional on an unknown, comparison, arithmetic, negation, equality, logic, template concatenation, for over bounded lists, length); every used variable abstracted with probability 3/4 (refined unknown with pool bounds / prefix / length bounds, or typed unknown); same oracle and 1+4 concrete runs as Unknowns; non-trivial = both runs error-free and the abstract result is not just the dynamic value; distinct by (AST dump, abstraction dump)",
		func(c *hx.Case) {
			t := c.T
			sc := &gen.Scope{Vals: map[string]cty.Value{}}
			add := func(name string, v cty.Value) {
				sc.Names = append(sc.Names, name)
				sc.Vals[name] = v
			}
			add("c1", cty.BoolVal(rapid.Bool().Draw(t, "c1")))
			add("c2", cty.BoolVal(rapid.Bool().Draw(t, "c2")))
			drawList := func(label string) cty.Value {
				n := rapid.IntRange(0, 3).Draw(t, label+"_len")
				if n == 0 {
					return cty.ListValEmpty(cty.String)
				}
				var vs []cty.Value
				for i := 0; i < n; i++ {
					vs = append(vs, cty.StringVal(rapid.SampledFrom(refStrings).Draw(t, label)))
				}
				return cty.ListVal(vs)
			}
			add("l1", drawList("l1"))
			add("l2", drawList("l2"))
			for _, n := range []string{"n1", "n2", "n3"} {
				add(n, rapid.SampledFrom(refPool).Draw(t, n))
			}
			add("s1", cty.StringVal(rapid.SampledFrom(refStrings).Draw(t, "s1")))
			add("s2", cty.StringVal(rapid.SampledFrom(refStrings).Draw(t, "s2")))
			g := &refGen{t: t, feat: map[string]bool{}}
			n := g.top()
			src, _ := render.Expression(n, render.Fixed{}, render.Opts{})
			dump := ast.Dump(n)
			c.Set("source", src)
			c.Set("scope", scopeDump(sc))
			featClasses(c, "gen_", g.feat)
			expr, diags := parseExprSrc(src)
			if diags.HasErrors() {
				c.Failf("parse-error", "%s", diagStr(diags))
			}
			used := ast.FreeVars(n)
			absNodes := map[string]*gen.AbsNode{}
			for _, name := range sc.Names {
				if used[name] && (len(absNodes) == 0 || rapid.IntRange(0, 3).Draw(t, "abstract_more") > 0) {
					absNodes[name] = gen.DrawPoolRefinement(t, sc.Vals[name], refPool)
				}
			}
			if len(absNodes) > 0 {
				c.Class(fmt.Sprintf("abstracted_%d", len(absNodes)))
			}
			checkAbstraction(c, sc, expr, absNodes, dump)
		})
}
