// Package ast is the harness's own expression/template/body syntax tree. It is
// independent of hashicorp/hcl (it imports only go-cty) so that reference
// models written over it cannot accidentally reuse the code under test.
package ast

import (
	"fmt"
	"strings"

	"github.com/zclconf/go-cty/cty"
)

// Node is an expression node.
type Node interface{ node() }

// Num is a number literal as written (non-negative decimal text).
type Num struct{ Text string }

// Bool is `true` / `false`.
type Bool struct{ V bool }

// Null is the `null` keyword.
type Null struct{}

// Var is a variable reference.
type Var struct{ Name string }

// Tuple is `[a, b, ...]`.
type Tuple struct{ Elems []Node }

// KeyKind says how an object-constructor key is written.
type KeyKind int

const (
	KeyIdent  KeyKind = iota // bare identifier: literal attribute name
	KeyExpr                  // any other expression form (quoted template, number, parenthesised expr, ...)
	KeyParens                // parenthesised expression: always evaluated
)

// ObjItem is one `key = value` item.
type ObjItem struct {
	Kind  KeyKind
	Name  string // KeyIdent
	Key   Node   // KeyExpr / KeyParens
	Val   Node
	Colon bool // written with ':' instead of '='
}

// Object is `{k = v, ...}`.
type Object struct{ Items []ObjItem }

// Call is a function call; Expand marks a trailing `...`.
type Call struct {
	Name   string
	Args   []Node
	Expand bool
}

// For is a for expression; Key == nil for the tuple form.
type For struct {
	KeyVar, ValVar string
	Coll           Node
	Key, Val       Node
	Cond           Node
	Group          bool
}

// Index is `coll[key]`.
type Index struct{ Coll, Key Node }

// LegacyIndex is `coll.N`.
type LegacyIndex struct {
	Coll Node
	N    int
}

// GetAttr is `obj.name`.
type GetAttr struct {
	Obj  Node
	Name string
}

// Step is a traversal step following a splat marker.
type Step struct {
	Kind StepKind
	Name string // StepAttr
	Key  Node   // StepIndex
	N    int    // StepLegacy
}

type StepKind int

const (
	StepAttr StepKind = iota
	StepIndex
	StepLegacy
)

// Splat is `src.*<steps>` (Full=false) or `src[*]<steps>` (Full=true). The
// steps are exactly those the grammar attaches to the splat.
type Splat struct {
	Src   Node
	Full  bool
	Steps []Step
}

// Unary is `-x` or `!x`.
type Unary struct {
	Op string
	X  Node
}

// Binary is `l op r`.
type Binary struct {
	Op   string
	L, R Node
}

// Cond is `p ? t : f`.
type Cond struct{ P, T, F Node }

// Paren is an explicit `( x )`.
type Paren struct{ X Node }

// Exact marks an expression that is subject to static analysis (a dynamic block's
// labels list or iterator name): it is written without redundant parentheses around it.
type Exact struct{ X Node }

// TemplateForm says how a template expression is written.
type TemplateForm int

const (
	Quoted TemplateForm = iota
	Heredoc
	FlushHeredoc
)

// Template is a quoted or heredoc template expression.
type Template struct {
	Parts []TPart
	Form  TemplateForm
}

// TPart is a template part.
type TPart interface{ tpart() }

// TLit is literal text (logical content, after escape processing).
type TLit struct{ Text string }

// TInterp is `${ x }` with optional strip markers.
type TInterp struct {
	X              Node
	StripL, StripR bool
}

// Strip holds the strip markers of one directive bracket pair `%{~ ... ~}`.
type Strip struct{ L, R bool }

// TIf is `%{if c}then%{else}else%{endif}`.
type TIf struct {
	Cond       Node
	Then, Else []TPart
	HasElse    bool
	SIf, SElse Strip
	SEnd       Strip
}

// TFor is `%{for k, v in coll}body%{endfor}`.
type TFor struct {
	KeyVar, ValVar string
	Coll           Node
	Body           []TPart
	SFor, SEnd     Strip
}

func (Num) node()         {}
func (Bool) node()        {}
func (Null) node()        {}
func (Var) node()         {}
func (Tuple) node()       {}
func (Object) node()      {}
func (Call) node()        {}
func (For) node()         {}
func (Index) node()       {}
func (LegacyIndex) node() {}
func (GetAttr) node()     {}
func (Splat) node()       {}
func (Unary) node()       {}
func (Binary) node()      {}
func (Cond) node()        {}
func (Paren) node()       {}
func (Exact) node()       {}
func (Template) node()    {}

func (TLit) tpart()    {}
func (TInterp) tpart() {}
func (TIf) tpart()     {}
func (TFor) tpart()    {}

// Prec returns the binary operator precedence level (hclsyntax/spec.md §Operations).
func Prec(op string) int {
	switch op {
	case "*", "/", "%":
		return 6
	case "+", "-":
		return 5
	case ">", ">=", "<", "<=":
		return 4
	case "==", "!=":
		return 3
	case "&&":
		return 2
	case "||":
		return 1
	}
	return 0
}

// BinaryOps lists all binary operators.
var BinaryOps = []string{"*", "/", "%", "+", "-", ">", ">=", "<", "<=", "==", "!=", "&&", "||"}

// Dump is a canonical, layout-free S-expression of a node (used for
// fingerprints and samples).
func Dump(n Node) string {
	var sb strings.Builder
	dump(&sb, n)
	return sb.String()
}

func dump(sb *strings.Builder, n Node) {
	switch x := n.(type) {
	case Num:
		sb.WriteString(x.Text)
	case Bool:
		fmt.Fprintf(sb, "%v", x.V)
	case Null:
		sb.WriteString("null")
	case Var:
		sb.WriteString("$" + x.Name)
	case Tuple:
		sb.WriteString("[")
		for i, e := range x.Elems {
			if i > 0 {
				sb.WriteString(" ")
			}
			dump(sb, e)
		}
		sb.WriteString("]")
	case Object:
		sb.WriteString("{")
		for i, it := range x.Items {
			if i > 0 {
				sb.WriteString(" ")
			}
			switch it.Kind {
			case KeyIdent:
				sb.WriteString(it.Name)
			case KeyExpr:
				sb.WriteString("k:")
				dump(sb, it.Key)
			default:
				sb.WriteString("(")
				dump(sb, it.Key)
				sb.WriteString(")")
			}
			sb.WriteString("=")
			dump(sb, it.Val)
		}
		sb.WriteString("}")
	case Call:
		sb.WriteString("(call " + x.Name)
		for _, a := range x.Args {
			sb.WriteString(" ")
			dump(sb, a)
		}
		if x.Expand {
			sb.WriteString("...")
		}
		sb.WriteString(")")
	case For:
		sb.WriteString("(for " + x.KeyVar + "," + x.ValVar + " in ")
		dump(sb, x.Coll)
		sb.WriteString(" : ")
		if x.Key != nil {
			dump(sb, x.Key)
			sb.WriteString(" => ")
		}
		dump(sb, x.Val)
		if x.Group {
			sb.WriteString("...")
		}
		if x.Cond != nil {
			sb.WriteString(" if ")
			dump(sb, x.Cond)
		}
		sb.WriteString(")")
	case Index:
		sb.WriteString("(idx ")
		dump(sb, x.Coll)
		sb.WriteString(" ")
		dump(sb, x.Key)
		sb.WriteString(")")
	case LegacyIndex:
		sb.WriteString("(lidx ")
		dump(sb, x.Coll)
		fmt.Fprintf(sb, " %d)", x.N)
	case GetAttr:
		sb.WriteString("(attr ")
		dump(sb, x.Obj)
		sb.WriteString(" " + x.Name + ")")
	case Splat:
		if x.Full {
			sb.WriteString("(splat[*] ")
		} else {
			sb.WriteString("(splat.* ")
		}
		dump(sb, x.Src)
		for _, s := range x.Steps {
			switch s.Kind {
			case StepAttr:
				sb.WriteString(" ." + s.Name)
			case StepIndex:
				sb.WriteString(" [")
				dump(sb, s.Key)
				sb.WriteString("]")
			default:
				fmt.Fprintf(sb, " .%d", s.N)
			}
		}
		sb.WriteString(")")
	case Unary:
		sb.WriteString("(" + x.Op + " ")
		dump(sb, x.X)
		sb.WriteString(")")
	case Binary:
		sb.WriteString("(" + x.Op + " ")
		dump(sb, x.L)
		sb.WriteString(" ")
		dump(sb, x.R)
		sb.WriteString(")")
	case Cond:
		sb.WriteString("(? ")
		dump(sb, x.P)
		sb.WriteString(" ")
		dump(sb, x.T)
		sb.WriteString(" ")
		dump(sb, x.F)
		sb.WriteString(")")
	case Paren:
		sb.WriteString("(paren ")
		dump(sb, x.X)
		sb.WriteString(")")
	case Exact:
		dump(sb, x.X)
	case Template:
		fmt.Fprintf(sb, "(tmpl%d", int(x.Form))
		dumpParts(sb, x.Parts)
		sb.WriteString(")")
	default:
		fmt.Fprintf(sb, "?%T", n)
	}
}

func dumpStrip(s Strip) string {
	r := ""
	if s.L {
		r += "<"
	}
	if s.R {
		r += ">"
	}
	return r
}

func dumpParts(sb *strings.Builder, parts []TPart) {
	for _, p := range parts {
		sb.WriteString(" ")
		switch x := p.(type) {
		case TLit:
			fmt.Fprintf(sb, "%q", x.Text)
		case TInterp:
			sb.WriteString("${")
			if x.StripL {
				sb.WriteString("~")
			}
			dump(sb, x.X)
			if x.StripR {
				sb.WriteString("~")
			}
			sb.WriteString("}")
		case TIf:
			sb.WriteString("(if" + dumpStrip(x.SIf) + " ")
			dump(sb, x.Cond)
			sb.WriteString(" then")
			dumpParts(sb, x.Then)
			if x.HasElse {
				sb.WriteString(" else" + dumpStrip(x.SElse))
				dumpParts(sb, x.Else)
			}
			sb.WriteString(" endif" + dumpStrip(x.SEnd) + ")")
		case TFor:
			sb.WriteString("(tfor" + dumpStrip(x.SFor) + " " + x.KeyVar + "," + x.ValVar + " in ")
			dump(sb, x.Coll)
			sb.WriteString(" :")
			dumpParts(sb, x.Body)
			sb.WriteString(" endfor" + dumpStrip(x.SEnd) + ")")
		}
	}
}

// Count returns the number of expression nodes (template parts count as nodes).
func Count(n Node) int {
	c := 0
	Walk(n, func(Node) { c++ })
	return c
}

// Walk visits every expression node (pre-order), descending into templates.
func Walk(n Node, f func(Node)) {
	if n == nil {
		return
	}
	f(n)
	switch x := n.(type) {
	case Tuple:
		for _, e := range x.Elems {
			Walk(e, f)
		}
	case Object:
		for _, it := range x.Items {
			if it.Key != nil {
				Walk(it.Key, f)
			}
			Walk(it.Val, f)
		}
	case Call:
		for _, a := range x.Args {
			Walk(a, f)
		}
	case For:
		Walk(x.Coll, f)
		if x.Key != nil {
			Walk(x.Key, f)
		}
		Walk(x.Val, f)
		if x.Cond != nil {
			Walk(x.Cond, f)
		}
	case Index:
		Walk(x.Coll, f)
		Walk(x.Key, f)
	case LegacyIndex:
		Walk(x.Coll, f)
	case GetAttr:
		Walk(x.Obj, f)
	case Splat:
		Walk(x.Src, f)
		for _, s := range x.Steps {
			if s.Kind == StepIndex {
				Walk(s.Key, f)
			}
		}
	case Unary:
		Walk(x.X, f)
	case Binary:
		Walk(x.L, f)
		Walk(x.R, f)
	case Cond:
		Walk(x.P, f)
		Walk(x.T, f)
		Walk(x.F, f)
	case Paren:
		Walk(x.X, f)
	case Exact:
		Walk(x.X, f)
	case Template:
		walkParts(x.Parts, f)
	}
}

func walkParts(parts []TPart, f func(Node)) {
	for _, p := range parts {
		switch x := p.(type) {
		case TInterp:
			Walk(x.X, f)
		case TIf:
			Walk(x.Cond, f)
			walkParts(x.Then, f)
			walkParts(x.Else, f)
		case TFor:
			Walk(x.Coll, f)
			walkParts(x.Body, f)
		}
	}
}

// ---------------------------------------------------------------------------
// bodies

// Body is a sequence of attributes and blocks in source order.
type Body struct{ Items []Item }

// Item is Attr or Block.
type Item interface{ item() }

// Attr is `name = expr`.
type Attr struct {
	Name string
	Expr Node
}

// Label is a block label; Bare labels are written as identifiers.
type Label struct {
	Text string
	Bare bool
}

// Block is `type labels... { body }`.
type Block struct {
	Type    string
	Labels  []Label
	Body    *Body
	OneLine bool // written as a one-line block (body has at most one attribute and no blocks)
	// Bind holds extra variables visible to the expressions inside the block's body
	// (set by the reference dynamic-block expander: the iterator objects).
	Bind map[string]cty.Value
	// Unknown marks a block that stands for the result of a dynamic block with an unknown
	// for_each (set by reference expanders; never rendered).
	Unknown bool
	// Phantom marks a block-typed item that yields no block (a dynamic block whose for_each
	// is empty): it is consumed, left over and label-checked like a block of its type.
	Phantom bool
}

// Dyn is a `dynamic "Type" { for_each, iterator, labels, content {} }` block.
type Dyn struct {
	Type     string
	ForEach  Node
	Iterator string // "" = the default iterator name (the block type)
	Labels   []Node
	Content  *Body
}

func (Attr) item()  {}
func (Block) item() {}
func (Dyn) item()   {}

// DynSyntax rewrites every Dyn item into the `dynamic` block that denotes it.
func DynSyntax(b *Body) *Body {
	out := &Body{}
	for _, it := range b.Items {
		switch x := it.(type) {
		case Block:
			x.Body = DynSyntax(x.Body)
			out.Items = append(out.Items, x)
		case Dyn:
			inner := &Body{}
			inner.Items = append(inner.Items, Attr{Name: "for_each", Expr: x.ForEach})
			if x.Iterator != "" {
				inner.Items = append(inner.Items, Attr{Name: "iterator", Expr: Exact{X: Var{Name: x.Iterator}}})
			}
			if x.Labels != nil {
				inner.Items = append(inner.Items, Attr{Name: "labels", Expr: Exact{X: Tuple{Elems: x.Labels}}})
			}
			inner.Items = append(inner.Items, Block{Type: "content", Body: DynSyntax(x.Content)})
			out.Items = append(out.Items, Block{Type: "dynamic", Labels: []Label{{Text: x.Type}}, Body: inner})
		default:
			out.Items = append(out.Items, it)
		}
	}
	return out
}

// Attrs returns the attributes of a body in order.
func (b *Body) Attrs() []Attr {
	var out []Attr
	for _, it := range b.Items {
		if a, ok := it.(Attr); ok {
			out = append(out, a)
		}
	}
	return out
}

// Blocks returns the blocks of a body in order.
func (b *Body) Blocks() []Block {
	var out []Block
	for _, it := range b.Items {
		if bl, ok := it.(Block); ok {
			out = append(out, bl)
		}
	}
	return out
}

// DumpBody is a canonical dump of a body tree.
func DumpBody(b *Body) string {
	var sb strings.Builder
	dumpBody(&sb, b)
	return sb.String()
}

func dumpBody(sb *strings.Builder, b *Body) {
	sb.WriteString("{")
	for i, it := range b.Items {
		if i > 0 {
			sb.WriteString("; ")
		}
		switch x := it.(type) {
		case Attr:
			sb.WriteString(x.Name + "=")
			dump(sb, x.Expr)
		case Dyn:
			sb.WriteString("dynamic " + x.Type + " for_each=")
			dump(sb, x.ForEach)
			if x.Iterator != "" {
				sb.WriteString(" iterator=" + x.Iterator)
			}
			for _, l := range x.Labels {
				sb.WriteString(" label=")
				dump(sb, l)
			}
			sb.WriteString(" ")
			dumpBody(sb, x.Content)
		case Block:
			sb.WriteString(x.Type)
			for _, l := range x.Labels {
				fmt.Fprintf(sb, " %q", l.Text)
			}
			if x.OneLine {
				sb.WriteString(" 1L")
			}
			sb.WriteString(" ")
			dumpBody(sb, x.Body)
		}
	}
	sb.WriteString("}")
}

// FreeVars returns the set of variable names that occur free in n (names bound by
// enclosing for expressions / template for directives are excluded; the collection
// expression of a for is evaluated in the enclosing scope).
func FreeVars(n Node) map[string]bool {
	out := map[string]bool{}
	freeVars(n, map[string]int{}, out)
	return out
}

func withBound(bound map[string]int, names []string, f func()) {
	for _, n := range names {
		if n != "" {
			bound[n]++
		}
	}
	f()
	for _, n := range names {
		if n != "" {
			bound[n]--
		}
	}
}

func freeVars(n Node, bound map[string]int, out map[string]bool) {
	switch x := n.(type) {
	case nil:
	case Var:
		if bound[x.Name] == 0 {
			out[x.Name] = true
		}
	case Tuple:
		for _, e := range x.Elems {
			freeVars(e, bound, out)
		}
	case Object:
		for _, it := range x.Items {
			if it.Kind != KeyIdent {
				freeVars(it.Key, bound, out)
			}
			freeVars(it.Val, bound, out)
		}
	case Call:
		for _, a := range x.Args {
			freeVars(a, bound, out)
		}
	case For:
		freeVars(x.Coll, bound, out)
		withBound(bound, []string{x.KeyVar, x.ValVar}, func() {
			if x.Key != nil {
				freeVars(x.Key, bound, out)
			}
			freeVars(x.Val, bound, out)
			if x.Cond != nil {
				freeVars(x.Cond, bound, out)
			}
		})
	case Index:
		freeVars(x.Coll, bound, out)
		freeVars(x.Key, bound, out)
	case LegacyIndex:
		freeVars(x.Coll, bound, out)
	case GetAttr:
		freeVars(x.Obj, bound, out)
	case Splat:
		freeVars(x.Src, bound, out)
		for _, s := range x.Steps {
			if s.Kind == StepIndex {
				freeVars(s.Key, bound, out)
			}
		}
	case Unary:
		freeVars(x.X, bound, out)
	case Binary:
		freeVars(x.L, bound, out)
		freeVars(x.R, bound, out)
	case Cond:
		freeVars(x.P, bound, out)
		freeVars(x.T, bound, out)
		freeVars(x.F, bound, out)
	case Paren:
		freeVars(x.X, bound, out)
	case Exact:
		freeVars(x.X, bound, out)
	case Template:
		freeVarsParts(x.Parts, bound, out)
	}
}

// FreeVarsParts is FreeVars for stand-alone template parts.
func FreeVarsParts(parts []TPart) map[string]bool {
	out := map[string]bool{}
	freeVarsParts(parts, map[string]int{}, out)
	return out
}

func freeVarsParts(parts []TPart, bound map[string]int, out map[string]bool) {
	for _, p := range parts {
		switch x := p.(type) {
		case TInterp:
			freeVars(x.X, bound, out)
		case TIf:
			freeVars(x.Cond, bound, out)
			freeVarsParts(x.Then, bound, out)
			freeVarsParts(x.Else, bound, out)
		case TFor:
			freeVars(x.Coll, bound, out)
			withBound(bound, []string{x.KeyVar, x.ValVar}, func() {
				freeVarsParts(x.Body, bound, out)
			})
		}
	}
}

// FreeVarsBody is the set of root variable names occurring free in the attribute
// expressions of a body tree: names bound by for expressions, template for directives
// and dynamic-block iterators (visible in the labels and content of their block, not in
// its for_each) are excluded.
func FreeVarsBody(b *Body) map[string]bool {
	out := map[string]bool{}
	freeVarsBody(b, map[string]int{}, out)
	return out
}

// FreeVarsBodyIn is FreeVarsBody restricted to the attributes found inside blocks of the
// given types (at any depth).
func FreeVarsBodyIn(b *Body, types map[string]bool) map[string]bool {
	out := map[string]bool{}
	freeVarsBodySel(b, map[string]int{}, out, types, false)
	return out
}

func freeVarsBody(b *Body, bound map[string]int, out map[string]bool) {
	freeVarsBodySel(b, bound, out, nil, true)
}

func freeVarsBodySel(b *Body, bound map[string]int, out map[string]bool, types map[string]bool, active bool) {
	if b == nil {
		return
	}
	for _, it := range b.Items {
		switch x := it.(type) {
		case Attr:
			if active {
				freeVars(x.Expr, bound, out)
			}
		case Block:
			freeVarsBodySel(x.Body, bound, out, types, active || types[x.Type])
		case Dyn:
			if active {
				freeVars(x.ForEach, bound, out)
			}
			name := x.Iterator
			if name == "" {
				name = x.Type
			}
			withBound(bound, []string{name}, func() {
				if active {
					for _, l := range x.Labels {
						freeVars(l, bound, out)
					}
				}
				freeVarsBodySel(x.Content, bound, out, types, active || types[x.Type])
			})
		}
	}
}
