// Package render prints harness ASTs as HCL native syntax, making random but
// grammar-legal layout choices (DESIGN §1 G-LAYOUT). It never imports hcl.
package render

import (
	"fmt"
	"strings"
	"unicode/utf8"

	"verifharness/ast"
)

// Chooser supplies layout decisions. Int returns a value in [0, max].
type Chooser interface {
	Int(max int, label string) int
}

// Fixed is a Chooser that always picks the first alternative (canonical layout).
type Fixed struct{}

func (Fixed) Int(int, string) int { return 0 }

// Opts controls the layout.
type Opts struct {
	Wild int  // 0 = canonical, 1 = moderate variety, 2 = everything
	CRLF bool // layout newlines are "\r\n"
}

type tokKind int

const (
	kNone tokKind = iota
	kIdent
	kNumber
	kPunct
	kString // closing quote / heredoc end
)

// Span records where a construct was printed.
type Span struct {
	Kind       string
	Start, End int
	Node       ast.Node
}

// R is a renderer instance.
type R struct {
	buf         []byte
	ch          Chooser
	o           Opts
	nl          []bool // stack: true = newline sequences are ignored as whitespace here
	lastKind    tokKind
	lastTok     string
	atBOL       bool // the last thing written was a newline that a heredoc close required
	Spans       []Span
	Feat        map[string]bool
	Record      bool
	tailHeredoc bool // a heredoc is legal right here although newlines are significant
}

// New returns a renderer. topNL says whether newlines are insignificant at the
// top level (true for stand-alone ParseExpression, false for an attribute value).
func New(ch Chooser, o Opts, topNL bool) *R {
	return &R{ch: ch, o: o, nl: []bool{topNL}, Feat: map[string]bool{}}
}

func (r *R) Bytes() []byte { return r.buf }
func (r *R) Len() int      { return len(r.buf) }

func (r *R) feat(s string) { r.Feat[s] = true }

func (r *R) nlOK() bool  { return r.nl[len(r.nl)-1] }
func (r *R) push(v bool) { r.nl = append(r.nl, v) }
func (r *R) pop()        { r.nl = r.nl[:len(r.nl)-1] }

func (r *R) newline() string {
	if r.o.CRLF {
		return "\r\n"
	}
	return "\n"
}

func isIdentByte(b byte) bool {
	return b == '_' || b == '-' || (b >= '0' && b <= '9') || (b >= 'a' && b <= 'z') || (b >= 'A' && b <= 'Z') || b >= 0x80
}

var fused = map[string]bool{"<<": true, "<=": true, ">=": true, "==": true, "=>": true, "!=": true, "&&": true, "||": true,
	"::": true, "..": true, "//": true, "/*": true, "*/": true, "%{": true, "${": true, "~}": true, "#": true}

func (r *R) needSep(next string, nk tokKind) bool {
	if r.lastKind == kNone || len(next) == 0 || len(r.lastTok) == 0 {
		return false
	}
	pl := r.lastTok[len(r.lastTok)-1]
	nf := next[0]
	if (r.lastKind == kIdent || r.lastKind == kNumber) && (nk == kIdent || nk == kNumber) {
		return true
	}
	if r.lastKind == kIdent && nf == '-' {
		return true
	}
	if r.lastKind == kNumber && nf == '.' && next != "..." {
		return true
	}
	if r.lastKind == kPunct && nk == kPunct {
		if fused[string([]byte{pl, nf})] {
			return true
		}
	}
	if r.lastKind == kPunct && pl == '.' && nk == kNumber {
		return false
	}
	return false
}

var inlineComments = []string{"/* c */", "/**/", "/* * */", "/* # */", "/*\n*/"}
var lineComments = []string{"# c", "// c", "#", "//", "# /* x", "// \" ${"}

// gap writes inter-token whitespace. sep forces at least one separator.
func (r *R) gap(sep bool) {
	if r.o.Wild == 0 {
		if sep {
			r.buf = append(r.buf, ' ')
		}
		return
	}
	max := 5
	if r.o.Wild >= 2 {
		max = 9
	}
	k := r.ch.Int(max, "gap")
	switch k {
	case 0:
		if sep {
			r.buf = append(r.buf, ' ')
		}
	case 1:
		r.buf = append(r.buf, ' ')
	case 2:
		if sep {
			r.buf = append(r.buf, ' ')
		}
	case 3:
		r.buf = append(r.buf, ' ', ' ')
	case 4:
		if r.nlOK() {
			r.feat("newline_in_brackets")
			r.buf = append(r.buf, r.newline()...)
			r.buf = append(r.buf, ' ', ' ')
		} else {
			r.buf = append(r.buf, ' ')
		}
	case 5:
		r.buf = append(r.buf, '\t')
		r.feat("tab")
	case 6:
		c := inlineComments[r.ch.Int(len(inlineComments)-1, "icomment")]
		if strings.Contains(c, "\n") && !r.nlOK() {
			// a multi-line inline comment is still a single comment token and legal anywhere
		}
		r.feat("inline_comment")
		r.buf = append(r.buf, ' ')
		r.buf = append(r.buf, c...)
		r.buf = append(r.buf, ' ')
	case 7:
		if r.nlOK() {
			r.feat("line_comment")
			c := lineComments[r.ch.Int(len(lineComments)-1, "lcomment")]
			r.buf = append(r.buf, ' ')
			r.buf = append(r.buf, c...)
			r.buf = append(r.buf, r.newline()...)
		} else {
			r.buf = append(r.buf, ' ')
		}
	case 8:
		if r.nlOK() {
			r.feat("newline_in_brackets")
			r.buf = append(r.buf, r.newline()...)
			r.buf = append(r.buf, r.newline()...)
		} else if sep {
			r.buf = append(r.buf, ' ')
		}
	default:
		if sep {
			r.buf = append(r.buf, ' ')
		}
	}
}

func (r *R) emit(s string, k tokKind) {
	r.gap(r.needSep(s, k))
	r.buf = append(r.buf, s...)
	r.lastKind, r.lastTok = k, s
	r.atBOL = false
}

// tight writes a token with no gap before it (the caller guarantees legality).
func (r *R) tight(s string, k tokKind) {
	if r.needSep(s, k) {
		r.buf = append(r.buf, ' ')
	}
	r.buf = append(r.buf, s...)
	r.lastKind, r.lastTok = k, s
	r.atBOL = false
}

func (r *R) ident(s string) { r.emit(s, kIdent) }
func (r *R) punct(s string) { r.emit(s, kPunct) }
func (r *R) num(s string)   { r.emit(s, kNumber) }

// raw writes bytes with no gap logic (template content).
func (r *R) raw(s string) {
	r.buf = append(r.buf, s...)
}

// ---------------------------------------------------------------------------
// expressions

// position classes for parenthesisation
type pos int

const (
	posExpr    pos = iota // a full Expression is accepted
	posBinary             // operand of a binary operator (prec given separately)
	posTerm               // ExprTerm with traversals: operand of a unary operator
	posPostfix            // the subject of a postfix operator (index, attr, splat)
	posCondP              // predicate of a conditional
)

func needsParens(n ast.Node, p pos, parentPrec int, right bool) bool {
	switch x := n.(type) {
	case ast.Cond:
		return p != posExpr
	case ast.Binary:
		switch p {
		case posExpr, posCondP:
			return false
		case posBinary:
			cp := ast.Prec(x.Op)
			if right {
				return cp <= parentPrec
			}
			return cp < parentPrec
		default:
			return true
		}
	case ast.Unary:
		return p == posPostfix
	case ast.Num:
		return false // handled by the caller for '.'-steps
	}
	return false
}

// Expr renders n where a full expression is accepted.
func (r *R) Expr(n ast.Node) { r.expr(n, posExpr, 0, false) }

func (r *R) expr(n ast.Node, p pos, parentPrec int, right bool) {
	if ex, ok := n.(ast.Exact); ok {
		r.node(ex.X)
		return
	}
	start := -1
	wrap := needsParens(n, p, parentPrec, right)
	if !wrap && r.o.Wild >= 1 {
		if _, isParen := n.(ast.Paren); !isParen && r.ch.Int(14, "redundant_parens") == 0 {
			wrap = true
			r.feat("redundant_parens")
		}
	}
	if wrap {
		r.punct("(")
		start = len(r.buf) - 1
		r.push(true)
		r.node(n)
		r.pop()
		r.punct(")")
		if r.Record {
			r.Spans = append(r.Spans, Span{"parens", start, len(r.buf), n})
		}
		return
	}
	r.node(n)
}

func leftmostIdent(n ast.Node) string {
	switch x := n.(type) {
	case ast.Var:
		return x.Name
	case ast.Bool:
		if x.V {
			return "true"
		}
		return "false"
	case ast.Null:
		return "null"
	case ast.Call:
		return x.Name
	case ast.Index:
		return leftmostIdent(x.Coll)
	case ast.LegacyIndex:
		return leftmostIdent(x.Coll)
	case ast.GetAttr:
		return leftmostIdent(x.Obj)
	case ast.Splat:
		return leftmostIdent(x.Src)
	case ast.Binary:
		return leftmostIdent(x.L)
	case ast.Cond:
		return leftmostIdent(x.P)
	}
	return ""
}

func (r *R) node(n ast.Node) {
	// the gap before the first token of a node is written by that token's emit,
	// so the span starts after it: remember the length once the first token is out.
	var spanStart = -1
	mark := func() {
		if spanStart < 0 {
			spanStart = len(r.buf)
		}
	}
	_ = mark
	before := len(r.buf)
	switch x := n.(type) {
	case ast.Num:
		r.num(x.Text)
	case ast.Bool:
		if x.V {
			r.ident("true")
		} else {
			r.ident("false")
		}
	case ast.Null:
		r.ident("null")
	case ast.Var:
		r.ident(x.Name)
	case ast.Paren:
		r.punct("(")
		r.push(true)
		r.expr(x.X, posExpr, 0, false)
		r.pop()
		r.punct(")")
	case ast.Tuple:
		r.punct("[")
		r.push(true)
		for i, e := range x.Elems {
			if i > 0 {
				r.punct(",")
			}
			if i == 0 && leftmostIdent(e) == "for" {
				r.punct("(")
				r.expr(e, posExpr, 0, false)
				r.punct(")")
			} else {
				r.expr(e, posExpr, 0, false)
			}
		}
		if len(x.Elems) > 0 && r.o.Wild >= 1 && r.ch.Int(5, "trailing_comma") == 0 {
			r.punct(",")
			r.feat("trailing_comma")
		}
		r.punct("]")
		r.pop()
	case ast.Object:
		r.object(x)
	case ast.Call:
		parts := strings.Split(x.Name, "::")
		for i, p := range parts {
			if i > 0 {
				r.punct("::")
			}
			r.ident(p)
		}
		r.punct("(")
		r.push(true)
		for i, a := range x.Args {
			if i > 0 {
				r.punct(",")
			}
			r.expr(a, posExpr, 0, false)
		}
		if x.Expand {
			r.punct("...")
		} else if len(x.Args) > 0 && r.o.Wild >= 1 && r.ch.Int(6, "trailing_comma") == 0 {
			r.punct(",")
			r.feat("trailing_comma")
		}
		r.punct(")")
		r.pop()
	case ast.For:
		open, close := "[", "]"
		if x.Key != nil {
			open, close = "{", "}"
		}
		r.punct(open)
		r.push(true)
		r.ident("for")
		if x.KeyVar != "" {
			r.ident(x.KeyVar)
			r.punct(",")
		}
		r.ident(x.ValVar)
		r.ident("in")
		r.expr(x.Coll, posExpr, 0, false)
		r.punct(":")
		if x.Key != nil {
			r.expr(x.Key, posExpr, 0, false)
			r.punct("=>")
		}
		r.expr(x.Val, posExpr, 0, false)
		if x.Group {
			r.punct("...")
		}
		if x.Cond != nil {
			r.ident("if")
			r.expr(x.Cond, posExpr, 0, false)
		}
		r.punct(close)
		r.pop()
	case ast.Index:
		r.subject(x.Coll, stBracket)
		r.punct("[")
		r.push(true)
		r.expr(x.Key, posExpr, 0, false)
		r.punct("]")
		r.pop()
	case ast.LegacyIndex:
		r.subject(x.Coll, stDotNum)
		r.punct(".")
		r.num(fmt.Sprintf("%d", x.N))
	case ast.GetAttr:
		r.subject(x.Obj, stDotIdent)
		r.punct(".")
		r.ident(x.Name)
	case ast.Splat:
		if x.Full {
			r.subject(x.Src, stBracket)
		} else {
			r.subject(x.Src, stDotStar)
		}
		if x.Full {
			r.punct("[")
			r.punct("*")
			r.punct("]")
		} else {
			r.punct(".")
			r.punct("*")
		}
		for _, s := range x.Steps {
			switch s.Kind {
			case ast.StepAttr:
				r.punct(".")
				r.ident(s.Name)
			case ast.StepLegacy:
				r.punct(".")
				r.num(fmt.Sprintf("%d", s.N))
			case ast.StepIndex:
				r.punct("[")
				r.push(true)
				r.expr(s.Key, posExpr, 0, false)
				r.punct("]")
				r.pop()
			}
		}
	case ast.Unary:
		r.punct(x.Op)
		r.expr(x.X, posTerm, 0, false)
	case ast.Binary:
		pr := ast.Prec(x.Op)
		r.expr(x.L, posBinary, pr, false)
		r.punct(x.Op)
		r.expr(x.R, posBinary, pr, true)
	case ast.Cond:
		r.expr(x.P, posCondP, 0, false)
		r.punct("?")
		r.expr(x.T, posExpr, 0, false)
		r.punct(":")
		r.expr(x.F, posExpr, 0, false)
	case ast.Template:
		r.template(x)
	default:
		panic(fmt.Sprintf("render: unknown node %T", n))
	}
	if r.Record {
		// skip the leading gap: the span starts at the first non-gap byte written by this node
		s := before
		r.Spans = append(r.Spans, Span{fmt.Sprintf("%T", n), s, len(r.buf), n})
	}
}

type stepK int

const (
	stBracket stepK = iota
	stDotIdent
	stDotNum
	stDotStar
)

// subject renders the operand of a postfix operator of the given step kind,
// adding parentheses where the grammar would otherwise attach the step elsewhere.
func (r *R) subject(n ast.Node, k stepK) {
	force := false
	switch x := n.(type) {
	case ast.Splat:
		// a full splat swallows every following step; an attribute-only splat swallows
		// every dot step (and rejects a nested .*), but not a bracket
		force = x.Full || k != stBracket
	case ast.Num:
		force = k != stBracket
	case ast.LegacyIndex:
		force = k == stDotNum // a.0.1 would lex as the number 0.1
	}
	if force || needsParens(n, posPostfix, 0, false) {
		r.punct("(")
		r.push(true)
		r.node(n)
		r.pop()
		r.punct(")")
		return
	}
	r.expr(n, posPostfix, 0, false)
}

func (r *R) object(x ast.Object) {
	r.punct("{")
	r.push(false) // items are newline-sensitive
	// after the opening brace newlines are eaten at item start
	first := true
	for _, it := range x.Items {
		r.itemStart(first)
		switch it.Kind {
		case ast.KeyIdent:
			if first && it.Name == "for" {
				r.tight(`"for"`, kString)
			} else {
				r.identTightAfterBOL(it.Name)
			}
		case ast.KeyExpr:
			if first && leftmostIdent(it.Key) == "for" {
				r.punct("(")
				r.push(true)
				r.expr(it.Key, posExpr, 0, false)
				r.pop()
				r.punct(")")
			} else {
				r.expr(it.Key, posExpr, 0, false)
			}
		default:
			r.punct("(")
			r.push(true)
			r.expr(it.Key, posExpr, 0, false)
			r.pop()
			r.punct(")")
		}
		if it.Colon {
			r.punct(":")
		} else {
			r.punct("=")
		}
		r.expr(it.Val, posExpr, 0, false)
		first = false
	}
	r.objectClose(len(x.Items) > 0)
	r.pop()
}

func (r *R) identTightAfterBOL(name string) { r.ident(name) }

// itemStart writes the separator before an object item: nothing/newlines after
// the brace, or comma / newline / both between items.
func (r *R) itemStart(first bool) {
	nl := r.newline()
	if first {
		if r.o.Wild >= 1 && r.ch.Int(2, "obj_open_nl") == 0 {
			r.buf = append(r.buf, nl...)
			r.lastKind = kNone
		}
		return
	}
	k := 0
	if r.o.Wild >= 1 {
		k = r.ch.Int(4, "obj_sep")
	}
	switch k {
	case 0:
		r.punct(",")
	case 1:
		r.buf = append(r.buf, nl...)
		r.lastKind = kNone
		r.feat("obj_newline_sep")
	case 2:
		r.punct(",")
		r.buf = append(r.buf, nl...)
		r.lastKind = kNone
	case 3:
		r.buf = append(r.buf, " # c"...)
		r.buf = append(r.buf, nl...)
		r.lastKind = kNone
		r.feat("line_comment")
	default:
		r.buf = append(r.buf, nl...)
		r.buf = append(r.buf, nl...)
		r.lastKind = kNone
	}
}

func (r *R) objectClose(nonEmpty bool) {
	if r.o.Wild >= 1 {
		switch r.ch.Int(4, "obj_close") {
		case 0:
			if nonEmpty {
				r.punct(",")
				r.feat("trailing_comma")
			}
		case 1:
			r.buf = append(r.buf, r.newline()...)
			r.lastKind = kNone
		case 2:
			if nonEmpty {
				r.punct(",")
				r.buf = append(r.buf, r.newline()...)
				r.lastKind = kNone
			}
		}
	}
	r.punct("}")
}

// ---------------------------------------------------------------------------
// templates

func needsEscapeInHeredoc(s string) bool {
	// heredoc literals are raw: they cannot contain CR (CRLF is possible but changes
	// meaning with the file's newline style; we only allow what the text says)
	return false
}

// CanHeredoc reports whether the template can be written as a heredoc with the
// given newline convention: it must end with a literal newline, and no literal may
// end with '$'/'%' directly before a sequence (cannot be expressed without escapes).
func CanHeredoc(t ast.Template) bool {
	if len(t.Parts) == 0 {
		return true
	}
	last, ok := t.Parts[len(t.Parts)-1].(ast.TLit)
	if !ok || !strings.HasSuffix(last.Text, "\n") {
		return false
	}
	return partsHeredocSafe(t.Parts)
}

// PartsHeredocSafe reports whether the parts can be written raw (heredoc / bare template).
func PartsHeredocSafe(parts []ast.TPart) bool { return partsHeredocSafe(parts) }

func partsHeredocSafe(parts []ast.TPart) bool {
	for i, p := range parts {
		switch x := p.(type) {
		case ast.TLit:
			if !utf8.ValidString(x.Text) {
				return false
			}
			// lone CR (not followed by LF) is not a newline for the scanner and not a literal char either
			for j := 0; j < len(x.Text); j++ {
				if x.Text[j] == '\r' && (j+1 >= len(x.Text) || x.Text[j+1] != '\n') {
					return false
				}
			}
			if i+1 < len(parts) {
				if _, isLit := parts[i+1].(ast.TLit); !isLit {
					if strings.HasSuffix(x.Text, "$") || strings.HasSuffix(x.Text, "%") {
						return false
					}
				}
			}
		case ast.TIf:
			if !partsHeredocSafe(x.Then) || !partsHeredocSafe(x.Else) {
				return false
			}
			if endsDollar(x.Then) || endsDollar(x.Else) {
				return false
			}
		case ast.TFor:
			if !partsHeredocSafe(x.Body) || endsDollar(x.Body) {
				return false
			}
		}
	}
	return true
}

func endsDollar(parts []ast.TPart) bool {
	if len(parts) == 0 {
		return false
	}
	if l, ok := parts[len(parts)-1].(ast.TLit); ok {
		return strings.HasSuffix(l.Text, "$") || strings.HasSuffix(l.Text, "%")
	}
	return false
}

func (r *R) template(t ast.Template) {
	form := t.Form
	if form != ast.Quoted && !CanHeredoc(t) {
		// generators only choose a heredoc form for content that permits it
		panic("render: template cannot be written as a heredoc: " + ast.Dump(t))
	}
	if form != ast.Quoted && !(r.nlOK() || r.tailHeredoc) {
		// the newline that ends a heredoc is significant here: parentheses make it harmless
		r.punct("(")
		r.push(true)
		r.template(t)
		r.pop()
		r.punct(")")
		return
	}
	switch form {
	case ast.Quoted:
		r.emit(`"`, kPunct)
		r.parts(t.Parts, true, false)
		r.raw(`"`)
		r.lastKind, r.lastTok = kString, `"`
	default:
		marker := r.pickMarker(t)
		intro := "<<"
		if form == ast.FlushHeredoc {
			intro = "<<-"
			r.feat("flush_heredoc")
		}
		r.feat("heredoc")
		r.tailHeredoc = false
		r.emit(intro+marker, kPunct)
		// the introducer line ends immediately with a newline
		r.raw(r.heredocNL(t))
		r.parts(t.Parts, false, false)
		if form == ast.FlushHeredoc && r.o.Wild >= 1 {
			n := r.ch.Int(3, "close_indent")
			r.raw(strings.Repeat(" ", n))
		}
		r.raw(marker)
		r.raw(r.newline())
		r.lastKind, r.lastTok = kNone, ""
		r.atBOL = true
	}
}

func (r *R) heredocNL(t ast.Template) string { return r.newline() }

var markers = []string{"EOT", "EOF", "E", "END_1", "x-y", "Té"}

func (r *R) pickMarker(t ast.Template) string {
	lines := map[string]bool{}
	var collect func(parts []ast.TPart)
	collect = func(parts []ast.TPart) {
		for _, p := range parts {
			switch x := p.(type) {
			case ast.TLit:
				for _, l := range strings.Split(x.Text, "\n") {
					lines[strings.TrimSpace(l)] = true
				}
				// a marker could also be completed across parts; be conservative: any
				// occurrence of the marker text anywhere disqualifies it
			case ast.TIf:
				collect(x.Then)
				collect(x.Else)
			case ast.TFor:
				collect(x.Body)
			}
		}
	}
	collect(t.Parts)
	all := ast.Dump(t)
	start := 0
	if r.o.Wild >= 1 {
		start = r.ch.Int(len(markers)-1, "marker")
	}
	for i := 0; i < len(markers); i++ {
		m := markers[(start+i)%len(markers)]
		if !lines[m] && !strings.Contains(all, m) {
			return m
		}
	}
	return "VERIF_UNLIKELY_MARKER"
}

func (r *R) strip(on bool) string {
	if on {
		return "~"
	}
	return ""
}

// parts renders template parts. quoted selects escape processing.
func (r *R) parts(parts []ast.TPart, quoted bool, endSeq bool) {
	for i, p := range parts {
		switch x := p.(type) {
		case ast.TLit:
			nextIsSeq := endSeq
			if i+1 < len(parts) {
				_, isLit := parts[i+1].(ast.TLit)
				nextIsSeq = !isLit
			}
			if quoted {
				r.raw(r.escapeQuoted(x.Text, nextIsSeq))
			} else {
				r.raw(escapeHeredoc(x.Text))
			}
		case ast.TInterp:
			r.raw("${" + r.strip(x.StripL))
			r.seqExpr(func() { r.expr(x.X, posExpr, 0, false) })
			r.closeSeq(x.StripR)
		case ast.TIf:
			r.raw("%{" + r.strip(x.SIf.L))
			r.seqExpr(func() {
				r.ident("if")
				r.expr(x.Cond, posExpr, 0, false)
			})
			r.closeSeq(x.SIf.R)
			r.parts(x.Then, quoted, true)
			if x.HasElse {
				r.raw("%{" + r.strip(x.SElse.L))
				r.seqExpr(func() { r.ident("else") })
				r.closeSeq(x.SElse.R)
				r.parts(x.Else, quoted, true)
			}
			r.raw("%{" + r.strip(x.SEnd.L))
			r.seqExpr(func() { r.ident("endif") })
			r.closeSeq(x.SEnd.R)
		case ast.TFor:
			r.raw("%{" + r.strip(x.SFor.L))
			r.seqExpr(func() {
				r.ident("for")
				if x.KeyVar != "" {
					r.ident(x.KeyVar)
					r.punct(",")
				}
				r.ident(x.ValVar)
				r.ident("in")
				r.expr(x.Coll, posExpr, 0, false)
			})
			r.closeSeq(x.SFor.R)
			r.parts(x.Body, quoted, true)
			r.raw("%{" + r.strip(x.SEnd.L))
			r.seqExpr(func() { r.ident("endfor") })
			r.closeSeq(x.SEnd.R)
		}
	}
}

// seqExpr renders the inside of a ${ } / %{ } sequence: newlines are ignored there.
func (r *R) seqExpr(f func()) {
	r.push(true)
	r.lastKind, r.lastTok = kNone, ""
	f()
	r.pop()
}

func (r *R) closeSeq(strip bool) {
	if strip {
		// `~}` is one token; a gap before it is fine
		r.emit("~}", kPunct)
	} else {
		r.emit("}", kPunct)
	}
	r.lastKind, r.lastTok = kNone, ""
}

func escapeHeredoc(s string) string {
	s = strings.ReplaceAll(s, "${", "$${")
	s = strings.ReplaceAll(s, "%{", "%%{")
	return s
}

func (r *R) escapeQuoted(s string, nextIsSeq bool) string {
	var sb strings.Builder
	rs := []rune(s)
	for i, c := range rs {
		last := i == len(rs)-1
		switch {
		case c == '"':
			sb.WriteString(`\"`)
		case c == '\\':
			sb.WriteString(`\\`)
		case c == '\n':
			r.alt(&sb, c, `\n`)
		case c == '\r':
			r.alt(&sb, c, `\r`)
		case c == '\t':
			if r.o.Wild >= 1 && r.ch.Int(2, "rawtab") == 0 {
				sb.WriteRune('\t')
			} else {
				r.alt(&sb, c, `\t`)
			}
		case c == '$' || c == '%':
			if i+1 < len(rs) && rs[i+1] == '{' {
				sb.WriteRune(c)
				sb.WriteRune(c)
			} else if last && nextIsSeq {
				fmt.Fprintf(&sb, `\u%04x`, c)
			} else {
				sb.WriteRune(c)
			}
		case c < 0x20 || c == 0x7f:
			fmt.Fprintf(&sb, `\u%04x`, c)
		case c == utf8.RuneError:
			sb.WriteRune(c)
		case c >= 0x10000:
			if r.o.Wild >= 1 && r.ch.Int(2, "astral_escape") == 0 {
				fmt.Fprintf(&sb, `\U%08x`, c)
				r.feat("long_unicode_escape")
			} else {
				sb.WriteRune(c)
			}
		case c >= 0x80:
			if r.o.Wild >= 1 && r.ch.Int(3, "bmp_escape") == 0 {
				fmt.Fprintf(&sb, `\u%04x`, c)
				r.feat("unicode_escape")
			} else {
				sb.WriteRune(c)
			}
		default:
			if r.o.Wild >= 2 && c != '{' && r.ch.Int(20, "ascii_escape") == 0 {
				fmt.Fprintf(&sb, `\u%04X`, c)
				r.feat("unicode_escape")
			} else {
				sb.WriteRune(c)
			}
		}
	}
	return sb.String()
}

func (r *R) alt(sb *strings.Builder, c rune, short string) {
	if r.o.Wild >= 1 {
		switch r.ch.Int(5, "escape_alt") {
		case 0:
			fmt.Fprintf(sb, `\u%04x`, c)
			r.feat("unicode_escape")
			return
		case 1:
			fmt.Fprintf(sb, `\U%08X`, c)
			r.feat("long_unicode_escape")
			return
		}
	}
	sb.WriteString(short)
}

// ---------------------------------------------------------------------------
// convenience entry points

// Expression renders n as a stand-alone expression (newlines insignificant at top level).
func Expression(n ast.Node, ch Chooser, o Opts) (string, map[string]bool) {
	r := New(ch, o, true)
	r.Expr(n)
	if o.Wild >= 1 && !r.atBOL {
		switch ch.Int(3, "tail") {
		case 0:
			r.raw(" ")
		case 1:
			r.raw(r.newline())
		}
	}
	if o.CRLF {
		r.feat("crlf")
	}
	return string(r.buf), r.Feat
}

// BareTemplate renders parts as a stand-alone template (ParseTemplate input).
func BareTemplate(parts []ast.TPart, ch Chooser, o Opts) (string, map[string]bool) {
	r := New(ch, o, true)
	r.parts(parts, false, false)
	return string(r.buf), r.Feat
}

// AttrValue renders n as the value of an attribute (newline-sensitive at top level)
// and returns `name = <expr>\n`.
func AttrValue(name string, n ast.Node, ch Chooser, o Opts) (string, map[string]bool) {
	r := New(ch, o, false)
	r.ident(name)
	r.punct("=")
	// a heredoc at tail position is legal: its closing newline ends the attribute
	if t, ok := n.(ast.Template); ok && t.Form != ast.Quoted && CanHeredoc(t) {
		r.tailHeredoc = true
		r.template(t)
		r.tailHeredoc = false
	} else {
		r.Expr(n)
	}
	if !r.atBOL {
		r.raw(r.newline())
	}
	if o.CRLF {
		r.feat("crlf")
	}
	return string(r.buf), r.Feat
}
