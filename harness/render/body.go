package render

import (
	"strings"

	"verifharness/ast"
)

// BodyOpts controls file-level layout.
type BodyOpts struct {
	Opts
	BOM            bool
	NoFinalNewline bool
}

// File renders a body as a configuration file.
func File(b *ast.Body, ch Chooser, o BodyOpts) (string, *R) {
	r := New(ch, o.Opts, false)
	r.Record = false
	if o.BOM {
		r.raw("\xef\xbb\xbf")
		r.feat("bom")
	}
	r.body(b, 0, true, o.NoFinalNewline)
	if o.CRLF {
		r.feat("crlf")
	}
	return string(r.buf), r
}

func (r *R) indent(depth int) {
	if r.o.Wild == 0 {
		r.raw(strings.Repeat("  ", depth))
		return
	}
	switch r.ch.Int(4, "indent") {
	case 0:
		r.raw(strings.Repeat("  ", depth))
	case 1:
	case 2:
		r.raw("\t")
		r.feat("tab")
	case 3:
		r.raw(strings.Repeat(" ", r.ch.Int(7, "indentn")))
	default:
		r.raw(strings.Repeat("    ", depth))
	}
}

// interItem writes optional blank lines and comment lines before an item.
func (r *R) interItem(depth int) {
	if r.o.Wild == 0 {
		return
	}
	n := r.ch.Int(5, "interitem")
	switch n {
	case 1:
		r.raw(r.newline())
		r.feat("blank_line")
	case 2:
		r.indent(depth)
		r.raw(lineComments[r.ch.Int(len(lineComments)-1, "lcomment")])
		r.raw(r.newline())
		r.feat("comment_line")
	case 3:
		r.indent(depth)
		r.raw(inlineComments[r.ch.Int(len(inlineComments)-1, "icomment")])
		r.raw(r.newline())
		r.feat("block_comment_line")
	case 4:
		if r.o.Wild >= 2 {
			r.raw("  ")
			r.raw(r.newline())
		}
	}
}

// eol ends an item line: optional trailing comment, then a newline (or nothing at EOF).
func (r *R) eol(last, noFinal bool) {
	if r.atBOL {
		// a heredoc already consumed its newline
		return
	}
	if r.o.Wild >= 1 {
		switch r.ch.Int(6, "eol") {
		case 0:
			r.raw(" # trailing")
			r.feat("trailing_comment")
		case 1:
			r.raw(" // t")
			r.feat("trailing_comment")
		case 2:
			r.raw(" /* t */")
			r.feat("trailing_comment")
		case 3:
			r.raw("  ")
		}
	}
	if last && noFinal {
		r.feat("no_final_newline")
		return
	}
	r.raw(r.newline())
	r.lastKind, r.lastTok = kNone, ""
}

func (r *R) body(b *ast.Body, depth int, top bool, noFinal bool) {
	for i, it := range b.Items {
		last := top && i == len(b.Items)-1
		r.interItem(depth)
		r.indent(depth)
		r.lastKind, r.lastTok = kNone, ""
		switch x := it.(type) {
		case ast.Attr:
			r.attr(x)
			r.eol(last, noFinal)
		case ast.Block:
			r.block(x, depth)
			r.eol(last, noFinal)
		}
	}
	if top && r.o.Wild >= 1 && !noFinal {
		r.interItem(depth)
	}
}

func (r *R) attr(a ast.Attr) {
	start := len(r.buf)
	r.tight(a.Name, kIdent)
	if r.Record {
		r.Spans = append(r.Spans, Span{"attr_name", start, len(r.buf), nil})
	}
	r.punct("=")
	if r.Record {
		r.Spans = append(r.Spans, Span{"attr_equals", len(r.buf) - 1, len(r.buf), nil})
	}
	if t, ok := a.Expr.(ast.Template); ok && t.Form != ast.Quoted && CanHeredoc(t) {
		r.tailHeredoc = true
		r.template(t)
		r.tailHeredoc = false
	} else {
		r.Expr(a.Expr)
	}
}

func (r *R) label(l ast.Label) {
	if l.Bare {
		r.ident(l.Text)
		return
	}
	r.emit(`"`, kPunct)
	r.raw(r.escapeQuoted(l.Text, false))
	r.raw(`"`)
	r.lastKind, r.lastTok = kString, `"`
	r.feat("quoted_label")
}

func (r *R) block(b ast.Block, depth int) {
	r.tight(b.Type, kIdent)
	for _, l := range b.Labels {
		ls := len(r.buf)
		r.label(l)
		_ = ls
	}
	r.punct("{")
	if b.OneLine {
		r.feat("one_line_block")
		for _, it := range b.Body.Items {
			if a, ok := it.(ast.Attr); ok {
				r.lastKind, r.lastTok = kPunct, "{"
				r.gap(false)
				r.lastKind, r.lastTok = kNone, ""
				r.attr(a)
			}
		}
		if r.atBOL {
			// cannot happen: heredocs are not used in one-line blocks
		}
		r.punct("}")
		return
	}
	if len(b.Body.Items) == 0 && (r.o.Wild == 0 || r.ch.Int(1, "emptyblock") == 0) {
		r.feat("empty_block")
		r.punct("}")
		return
	}
	// after the opening brace: optional comment, then newline
	if r.o.Wild >= 1 && r.ch.Int(3, "afterbrace") == 0 {
		r.raw(" # after brace")
		r.feat("comment_after_brace")
	}
	r.raw(r.newline())
	r.lastKind, r.lastTok = kNone, ""
	r.body(b.Body, depth+1, false, false)
	if r.o.Wild >= 1 {
		r.interItem(depth + 1)
	}
	r.indent(depth)
	r.lastKind, r.lastTok = kNone, ""
	r.tight("}", kPunct)
}
