package render

import (
	"fmt"
	"strings"

	"verifharness/ast"
)

// JSONFeat collects the encoding devices used by one JSON rendering.
type JSONFeat map[string]bool

type jb struct {
	ch   Chooser
	wild bool
	Feat JSONFeat
	// EscapeTemplates: string literals are escaped for full-expression mode ("${" -> "$${").
	EscapeTemplates bool
	// PlainObject lists block types whose bodies are read in dynamic-attributes mode
	// (JustAttributes), for which json/spec.md requires a single JSON object.
	PlainObject map[string]bool
	plain       bool
	// ExprAsTemplate: an attribute value that is not a literal is written as the JSON
	// string "${<canonical expression>}" (full-expression mode).
	ExprAsTemplate bool
	// NoMerge: blocks of one type are never gathered under one property, so the document
	// keeps the block sequence of the tree (across types too).
	NoMerge bool
}

func jsonString(s string) string {
	var sb strings.Builder
	sb.WriteByte('"')
	for _, c := range s {
		switch {
		case c == '"':
			sb.WriteString(`\"`)
		case c == '\\':
			sb.WriteString(`\\`)
		case c == '\n':
			sb.WriteString(`\n`)
		case c == '\r':
			sb.WriteString(`\r`)
		case c == '\t':
			sb.WriteString(`\t`)
		case c < 0x20 || c == 0x7f || c == 0x2028 || c == 0x2029:
			fmt.Fprintf(&sb, `\u%04x`, c)
		default:
			sb.WriteRune(c)
		}
	}
	sb.WriteByte('"')
	return sb.String()
}

// LiteralJSON renders a literal expression (numbers, bools, null, single-literal
// templates, tuples and objects of those) as JSON. ok is false for anything else.
func (j *jb) literal(n ast.Node) (string, bool) {
	switch x := n.(type) {
	case ast.Num:
		return x.Text, true
	case ast.Unary:
		if num, isNum := x.X.(ast.Num); isNum && x.Op == "-" {
			return "-" + num.Text, true
		}
		return "", false
	case ast.Bool:
		if x.V {
			return "true", true
		}
		return "false", true
	case ast.Null:
		return "null", true
	case ast.Paren:
		return j.literal(x.X)
	case ast.Template:
		if len(x.Parts) == 0 {
			return `""`, true
		}
		if len(x.Parts) == 1 {
			if l, isLit := x.Parts[0].(ast.TLit); isLit {
				s := l.Text
				if j.EscapeTemplates {
					s = strings.ReplaceAll(s, "${", "$${")
					s = strings.ReplaceAll(s, "%{", "%%{")
				}
				return jsonString(s), true
			}
		}
		return "", false
	case ast.Tuple:
		parts := make([]string, len(x.Elems))
		for i, e := range x.Elems {
			s, ok := j.literal(e)
			if !ok {
				return "", false
			}
			parts[i] = s
		}
		return "[" + strings.Join(parts, ",") + "]", true
	case ast.Object:
		var parts []string
		for _, it := range x.Items {
			var key string
			switch it.Kind {
			case ast.KeyIdent:
				key = it.Name
			default:
				t, isT := it.Key.(ast.Template)
				if !isT || len(t.Parts) > 1 {
					return "", false
				}
				if len(t.Parts) == 1 {
					l, isLit := t.Parts[0].(ast.TLit)
					if !isLit {
						return "", false
					}
					key = l.Text
				}
			}
			v, ok := j.literal(it.Val)
			if !ok {
				return "", false
			}
			if j.EscapeTemplates {
				key = strings.ReplaceAll(strings.ReplaceAll(key, "${", "$${"), "%{", "%%{")
			}
			parts = append(parts, jsonString(key)+":"+v)
		}
		return "{" + strings.Join(parts, ",") + "}", true
	}
	return "", false
}

// exprJSON writes an arbitrary expression in full-expression mode: literals as JSON
// values, a statically analysed variable name (dynamic block iterator) as a plain string,
// a statically analysed list (dynamic block labels) as an array, anything else as "${...}".
func (j *jb) exprJSON(n ast.Node) string {
	if v, ok := j.literal(n); ok {
		return v
	}
	if ex, ok := n.(ast.Exact); ok {
		switch x := ex.X.(type) {
		case ast.Var:
			return jsonString(x.Name)
		case ast.Tuple:
			parts := make([]string, len(x.Elems))
			for i, e := range x.Elems {
				parts[i] = j.exprJSON(e)
			}
			return "[" + strings.Join(parts, ",") + "]"
		}
		return j.exprJSON(ex.X)
	}
	canon, _ := Expression(n, Fixed{}, Opts{})
	return jsonString("${" + canon + "}")
}

type jprop struct {
	name string
	val  string
}

func (j *jb) pick(max int, label string) int {
	if !j.wild || max <= 0 {
		return 0
	}
	return j.ch.Int(max, label)
}

// object renders ordered properties as one JSON object or as an array of objects.
func (j *jb) object(props []jprop, allowArray bool, allowComment bool) string {
	if j.plain {
		allowArray = false
	}
	if allowComment && j.pick(4, "json_comment") == 0 && j.wild {
		pos := j.pick(len(props), "comment_pos")
		c := jprop{"//", `"a comment"`}
		props = append(props[:pos:pos], append([]jprop{c}, props[pos:]...)...)
		j.Feat["comment_property"] = true
	}
	render := func(ps []jprop) string {
		parts := make([]string, len(ps))
		for i, p := range ps {
			parts[i] = jsonString(p.name) + ":" + p.val
		}
		return "{" + strings.Join(parts, ",") + "}"
	}
	if allowArray && j.pick(3, "json_array_of_objects") == 0 && j.wild {
		j.Feat["array_of_objects"] = true
		// split into 1..3 consecutive groups (possibly empty objects)
		k := 1 + j.pick(2, "ngroups")
		cuts := make([]int, 0, k+1)
		cuts = append(cuts, 0)
		for i := 1; i < k; i++ {
			cuts = append(cuts, j.pick(len(props), "cut"))
		}
		cuts = append(cuts, len(props))
		for a := 1; a < len(cuts); a++ {
			for b := a; b > 0 && cuts[b] < cuts[b-1]; b-- {
				cuts[b], cuts[b-1] = cuts[b-1], cuts[b]
			}
		}
		var objs []string
		for i := 0; i+1 < len(cuts); i++ {
			objs = append(objs, render(props[cuts[i]:cuts[i+1]]))
		}
		return "[" + strings.Join(objs, ",") + "]"
	}
	return render(props)
}

type jblock struct {
	labels []string
	body   string
}

// blocks renders the blocks of one type (in order) at label depth d as the value of the type's property.
func (j *jb) blockValue(bls []jblock, d int) string {
	if len(bls) > 0 && d == len(bls[0].labels) {
		// body level: one body, or an array of bodies
		// a single body that is itself written as an array of objects must be wrapped, or
		// its objects would read as several blocks
		if len(bls) == 1 && !strings.HasPrefix(bls[0].body, "[") && j.pick(2, "single_body_array") != 0 {
			return bls[0].body
		}
		if len(bls) == 1 {
			j.Feat["array_of_bodies"] = true
		} else {
			j.Feat["array_of_bodies"] = true
		}
		var parts []string
		for _, b := range bls {
			parts = append(parts, b.body)
		}
		return "[" + strings.Join(parts, ",") + "]"
	}
	// label level: group consecutive blocks sharing this label
	var props []jprop
	i := 0
	for i < len(bls) {
		k := i + 1
		// extend the group only when allowed by the remaining labels being body-array compatible
		for k < len(bls) && bls[k].labels[d] == bls[i].labels[d] && (d+1 < len(bls[i].labels) || sameLabels(bls[i], bls[k])) && j.pick(1, "group_same_label") == 0 {
			k++
		}
		props = append(props, jprop{bls[i].labels[d], j.blockValue(bls[i:k], d+1)})
		if k-i > 1 {
			j.Feat["grouped_labels"] = true
		}
		i = k
	}
	// duplicates property names are fine; the level may also be an array of objects
	return j.object(props, true, false)
}

func sameLabels(a, b jblock) bool {
	if len(a.labels) != len(b.labels) {
		return false
	}
	for i := range a.labels {
		if a.labels[i] != b.labels[i] {
			return false
		}
	}
	return true
}

// body renders an abstract body. ok is false when an attribute value is not JSON-expressible.
func (j *jb) body(b *ast.Body) (string, bool) {
	var props []jprop
	// decide per block type whether all its blocks are merged into one property
	type group struct {
		bls   []jblock
		first int
	}
	merged := map[string]bool{}
	counts := map[string]int{}
	labelCounts := map[string]int{}
	uniform := map[string]bool{}
	for _, bl := range b.Blocks() {
		counts[bl.Type]++
		if n, seen := labelCounts[bl.Type]; seen && n != len(bl.Labels) {
			uniform[bl.Type] = false
		} else if !seen {
			labelCounts[bl.Type] = len(bl.Labels)
			uniform[bl.Type] = true
		}
	}
	for typ, n := range counts {
		_ = n
		if uniform[typ] && !j.NoMerge && j.pick(1, "merge_type") == 0 && j.wild {
			merged[typ] = true
		}
	}
	groups := map[string]*group{}
	for _, it := range b.Items {
		switch x := it.(type) {
		case ast.Attr:
			v, ok := j.literal(x.Expr)
			if !ok && j.ExprAsTemplate {
				v, ok = j.exprJSON(x.Expr), true
				j.Feat["expression_as_template"] = true
			}
			if !ok {
				return "", false
			}
			props = append(props, jprop{x.Name, v})
		case ast.Block:
			savedPlain := j.plain
			j.plain = j.PlainObject[x.Type]
			inner, ok := j.body(x.Body)
			j.plain = savedPlain
			if !ok {
				return "", false
			}
			labels := make([]string, len(x.Labels))
			for i, l := range x.Labels {
				labels[i] = l.Text
			}
			jbk := jblock{labels, inner}
			if merged[x.Type] {
				g := groups[x.Type]
				if g == nil {
					g = &group{first: len(props)}
					groups[x.Type] = g
					props = append(props, jprop{x.Type, ""}) // placeholder, filled below
				}
				g.bls = append(g.bls, jbk)
				if len(g.bls) > 1 {
					j.Feat["merged_blocks"] = true
				}
			} else {
				props = append(props, jprop{x.Type, j.blockValue([]jblock{jbk}, 0)})
				if counts[x.Type] > 1 {
					j.Feat["duplicate_property"] = true
				}
			}
		}
	}
	for typ, g := range groups {
		props[g.first] = jprop{typ, j.blockValue(g.bls, 0)}
	}
	return j.object(props, true, true), true
}

// JSONFile renders a body tree as one of its admissible JSON encodings.
func JSONFile(b *ast.Body, ch Chooser, wild bool, escapeTemplates bool, plainObject ...string) (string, JSONFeat, bool) {
	j := &jb{ch: ch, wild: wild, Feat: JSONFeat{}, EscapeTemplates: escapeTemplates, PlainObject: map[string]bool{}}
	for _, p := range plainObject {
		j.PlainObject[p] = true
	}
	s, ok := j.body(b)
	return s, j.Feat, ok
}

// JSONFileSeq is JSONFile restricted to the encodings that keep the block sequence of the
// tree: every block is its own property (duplicate names) or its own array element.
func JSONFileSeq(b *ast.Body, ch Chooser, wild bool, escapeTemplates bool, plainObject ...string) (string, JSONFeat, bool) {
	j := &jb{ch: ch, wild: wild, Feat: JSONFeat{}, EscapeTemplates: escapeTemplates, NoMerge: true, PlainObject: map[string]bool{}}
	for _, p := range plainObject {
		j.PlainObject[p] = true
	}
	s, ok := j.body(b)
	return s, j.Feat, ok
}

// JSONFileExprs is JSONFile in full-expression mode: non-literal attribute values become
// "${...}" template strings (literal strings are escaped accordingly).
func JSONFileExprs(b *ast.Body, ch Chooser, wild bool, plainObject ...string) (string, JSONFeat, bool) {
	j := &jb{ch: ch, wild: wild, Feat: JSONFeat{}, EscapeTemplates: true, ExprAsTemplate: true, PlainObject: map[string]bool{}}
	for _, p := range plainObject {
		j.PlainObject[p] = true
	}
	s, ok := j.body(b)
	return s, j.Feat, ok
}

// ExprJSON writes an expression as a JSON value in full-expression mode, keeping tuple and
// object constructors (at any depth) as JSON arrays and objects so that they remain
// statically analysable; everything else becomes a "${...}" string. static reports whether
// the top level is such an array / object.
func ExprJSON(n ast.Node) (string, bool) {
	j := &jb{Feat: JSONFeat{}, EscapeTemplates: true, ExprAsTemplate: true}
	for {
		if p, ok := n.(ast.Paren); ok {
			n = p.X
			continue
		}
		break
	}
	return j.structJSON(n)
}

func (j *jb) structJSON(n ast.Node) (string, bool) {
	switch x := n.(type) {
	case ast.Tuple:
		parts := make([]string, len(x.Elems))
		for i, e := range x.Elems {
			parts[i], _ = j.structJSON(e)
		}
		return "[" + strings.Join(parts, ",") + "]", true
	case ast.Object:
		var parts []string
		for _, it := range x.Items {
			var key string
			switch it.Kind {
			case ast.KeyIdent:
				key = jsonString(it.Name)
			default:
				if lit, ok := j.literal(it.Key); ok && strings.HasPrefix(lit, "\"") {
					key = lit
				} else {
					canon, _ := Expression(it.Key, Fixed{}, Opts{})
					key = jsonString("${" + canon + "}")
				}
			}
			v, _ := j.structJSON(it.Val)
			parts = append(parts, key+":"+v)
		}
		return "{" + strings.Join(parts, ",") + "}", true
	}
	return j.exprJSON(n), false
}

// LiteralJSON exposes the literal renderer.
func LiteralJSON(n ast.Node, escapeTemplates bool) (string, bool) {
	j := &jb{EscapeTemplates: escapeTemplates, Feat: JSONFeat{}}
	return j.literal(n)
}
