package gen

import (
	"github.com/zclconf/go-cty/cty"
	"pgregory.net/rapid"
)

// MarkPlacement says where the secret's mark sits.
type MarkPlacement int

const (
	MarkTop    MarkPlacement = iota // the whole value
	MarkLeaves                      // every primitive leaf (nested placement)
	MarkElems                       // every first-level element / attribute
)

// ApplyMark places mark m on v according to the placement.
func ApplyMark(v cty.Value, m any, p MarkPlacement) cty.Value {
	switch p {
	case MarkTop:
		return v.Mark(m)
	case MarkElems:
		ty := v.Type()
		if !(ty.IsCollectionType() || ty.IsTupleType() || ty.IsObjectType()) {
			return v.Mark(m)
		}
		if v.IsNull() || v.LengthInt() == 0 {
			return v // no element to carry the mark: public structure
		}
		var keys, vals []cty.Value
		for it := v.ElementIterator(); it.Next(); {
			k, ev := it.Element()
			keys = append(keys, k)
			vals = append(vals, ev.Mark(m))
		}
		if ty.IsSetType() {
			return cty.SetVal(vals)
		}
		return rebuild(ty, keys, vals)
	default:
		out, _ := cty.Transform(v, func(p cty.Path, pv cty.Value) (cty.Value, error) {
			pty := pv.Type()
			if pty.IsPrimitiveType() {
				return pv.Mark(m), nil
			}
			return pv, nil
		})
		return out
	}
}

// Canary strings and numbers for C19. The alphanumeric cores survive every quoting.
const (
	CanaryCoreA = "Zq7xK9pLm2"
	CanaryCoreB = "Rt5Wv8Yb3N"
	CanaryNum   = "918273645"
)

// CanaryStrings are secret string contents (each contains a canary core).
var CanaryStrings = []string{
	CanaryCoreA + CanaryCoreB,
	CanaryCoreA + "\"\u00e9\u2603\\" + CanaryCoreB,
	CanaryCoreA + " ${x} %{y} " + CanaryCoreB,
	CanaryNum + ".125",
	"true" + CanaryCoreA,
	CanaryCoreB + "\n" + CanaryCoreA,
}

// CanaryNumbers are secret numbers.
var CanaryNumbers = []string{CanaryNum + ".125", CanaryNum, "-" + CanaryNum + ".5", CanaryNum + "00000000000"}

// DrawSecretValue draws a value whose content is secret (contains canaries in
// strings, numbers and map keys) of one of several shapes.
func DrawSecretValue(t *rapid.T) cty.Value {
	str := func() cty.Value { return cty.StringVal(rapid.SampledFrom(CanaryStrings).Draw(t, "canarystr")) }
	num := func() cty.Value {
		v, _ := cty.ParseNumberVal(rapid.SampledFrom(CanaryNumbers).Draw(t, "canarynum"))
		return v
	}
	switch rapid.IntRange(0, 10).Draw(t, "secretshape") {
	case 10:
		// the secret is the name of the only attribute (what `{(secret) = 1}` produces)
		return cty.ObjectVal(map[string]cty.Value{rapid.SampledFrom(CanaryStrings).Draw(t, "canaryattr"): num()})
	case 0, 1, 2:
		return str()
	case 3, 4:
		return num()
	case 5:
		return cty.ListVal([]cty.Value{str(), str()})
	case 6:
		return cty.MapVal(map[string]cty.Value{rapid.SampledFrom(CanaryStrings).Draw(t, "canarykey"): cty.StringVal("v"), "k": str()})
	case 7:
		return cty.ObjectVal(map[string]cty.Value{"id": num(), "name": str(), "tags": cty.ListVal([]cty.Value{str()})})
	case 8:
		return cty.SetVal([]cty.Value{str(), str()})
	default:
		return cty.TupleVal([]cty.Value{str(), num(), cty.True})
	}
}

// VaryContent draws another content for a secret value such that only the parts
// that carry the mark under the given placement change: with nested placements the
// structure (lengths, keys) of unmarked containers is public and stays fixed.
func VaryContent(t *rapid.T, v cty.Value, p MarkPlacement) cty.Value {
	vo := ValOpts{Nulls: 10}
	switch p {
	case MarkTop:
		return drawValue(t, v.Type(), vo)
	case MarkElems:
		ty := v.Type()
		if !(ty.IsCollectionType() || ty.IsTupleType() || ty.IsObjectType()) {
			return drawValue(t, ty, vo)
		}
		if v.IsNull() || v.LengthInt() == 0 {
			return v
		}
		var keys, vals []cty.Value
		for it := v.ElementIterator(); it.Next(); {
			k, ev := it.Element()
			keys = append(keys, k)
			vals = append(vals, drawValue(t, ev.Type(), vo))
		}
		if ty.IsSetType() {
			return cty.SetVal(vals)
		}
		return rebuild(ty, keys, vals)
	default:
		return varyLeaves(t, v, vo)
	}
}

func varyLeaves(t *rapid.T, v cty.Value, vo ValOpts) cty.Value {
	ty := v.Type()
	if ty.IsPrimitiveType() {
		return drawValue(t, ty, vo)
	}
	// a null or empty container has no marked leaves: it is public structure and stays as it is
	if v.IsNull() || ty == cty.DynamicPseudoType || v.LengthInt() == 0 {
		return v
	}
	var keys, vals []cty.Value
	for it := v.ElementIterator(); it.Next(); {
		k, ev := it.Element()
		keys = append(keys, k)
		nv := varyLeaves(t, ev, vo)
		if ty.IsCollectionType() && !nv.Type().Equals(ev.Type()) {
			nv = ev
		}
		vals = append(vals, nv)
	}
	if ty.IsSetType() {
		return cty.SetVal(vals)
	}
	return rebuild(ty, keys, vals)
}
