package gen

import (
	"github.com/zclconf/go-cty/cty"
	"pgregory.net/rapid"

	"verifharness/ast"
)

// BodyNames are the pools used for attribute names and block types; they are
// small so that collisions (repeated block types, attr/block name clashes) are common.
var BodyAttrNames = []string{"a", "b", "c", "name", "count", "for", "in", "if", "null", "true", "x-y", "\u00e9t\u00e9", "for_each", "labels", "content"}
var BodyBlockTypes = []string{"blk", "b", "resource", "for", "null", "x-y", "nested", "a"}

// LabelTexts is the label alphabet: identifiers, keywords, and strings needing every escape form.
var LabelTexts = []string{"a", "b", "foo", "for", "null", "true", "x-y", "", " ", "a b", "a.b", "\u00e9", "\U0001F600", "\"", "\\", "\n", "\t", "\r", "$", "%", "${", "%{", "$${", "%%{", "${x}", "$ {", "$a", "%a", "a$", "a%", "1", "0x", "\u2028", "e\u0301", "#", "//", "/*", "{", "}", "\x00", "\x7f"}

// BodyOpts controls body generation.
type BodyOpts struct {
	Depth    int
	MaxItems int
	// Expr draws an attribute expression (nil = literal numbers only).
	Expr func(oneLine bool) ast.Node
	// AttrNames / BlockTypes override the default pools.
	AttrNames  []string
	BlockTypes []string
	MaxLabels  int
	NoOneLine  bool
}

func isIdentLabel(s string) bool { return isIdent(s) }

// DrawBody draws a body tree with unique attribute names per body.
func DrawBody(t *rapid.T, o BodyOpts) *ast.Body {
	if o.MaxItems == 0 {
		o.MaxItems = 5
	}
	if o.AttrNames == nil {
		o.AttrNames = BodyAttrNames
	}
	if o.BlockTypes == nil {
		o.BlockTypes = BodyBlockTypes
	}
	if o.MaxLabels == 0 {
		o.MaxLabels = 3
	}
	return drawBody(t, o, o.Depth)
}

func drawBody(t *rapid.T, o BodyOpts, depth int) *ast.Body {
	b := &ast.Body{}
	n := rapid.IntRange(0, o.MaxItems).Draw(t, "nitems")
	seen := map[string]bool{}
	for i := 0; i < n; i++ {
		if depth > 0 && rapid.IntRange(0, 2).Draw(t, "isblock") == 0 {
			b.Items = append(b.Items, drawBlock(t, o, depth))
			continue
		}
		name := rapid.SampledFrom(o.AttrNames).Draw(t, "attrname")
		if seen[name] {
			continue
		}
		seen[name] = true
		b.Items = append(b.Items, ast.Attr{Name: name, Expr: drawAttrExpr(t, o, false)})
	}
	return b
}

func drawAttrExpr(t *rapid.T, o BodyOpts, oneLine bool) ast.Node {
	if o.Expr != nil {
		return o.Expr(oneLine)
	}
	return ast.Num{Text: rapid.SampledFrom([]string{"0", "1", "2", "42", "1.5"}).Draw(t, "num")}
}

func drawBlock(t *rapid.T, o BodyOpts, depth int) ast.Block {
	bl := ast.Block{Type: rapid.SampledFrom(o.BlockTypes).Draw(t, "btype")}
	nl := rapid.IntRange(0, o.MaxLabels).Draw(t, "nlabels")
	for i := 0; i < nl; i++ {
		txt := rapid.SampledFrom(LabelTexts).Draw(t, "label")
		if rapid.IntRange(0, 3).Draw(t, "twopiece") == 0 {
			txt += rapid.SampledFrom(LabelTexts).Draw(t, "label2")
		}
		l := ast.Label{Text: cty.StringVal(txt).AsString()} // labels are NFC-normalised like every string
		if isIdentLabel(l.Text) && rapid.Bool().Draw(t, "bare") {
			l.Bare = true
		}
		bl.Labels = append(bl.Labels, l)
	}
	if !o.NoOneLine && rapid.IntRange(0, 4).Draw(t, "oneline") == 0 {
		bl.OneLine = true
		bl.Body = &ast.Body{}
		if rapid.Bool().Draw(t, "onelineattr") {
			bl.Body.Items = append(bl.Body.Items, ast.Attr{Name: rapid.SampledFrom(o.AttrNames).Draw(t, "attrname"), Expr: drawAttrExpr(t, o, true)})
		}
		return bl
	}
	bl.Body = drawBody(t, o, depth-1)
	return bl
}
