package gen

import (
	"strings"

	"pgregory.net/rapid"
)

// HCLInserts is the hostile catalogue for near-valid mutation of native syntax (DESIGN G-MUT).
var HCLInserts = []string{
	"(", ")", "[", "]", "{", "}", "\"", "${", "%{", "~}", "${~", "%{~", "$${", "%%{", "$", "%", "~",
	"<<EOT\n", "EOT\n", "<<-EOT\n", "<<", "EOT", "\nEOT\n",
	// heredoc closing lines with every kind of blank after the marker, and whole heredocs
	"EOT\u00a0\n", "EOT\f\n", "EOT \t\n", "\nEOT\u3000\n", "EOT\v\r\n", "\f", "\v", "\u0085",
	"a = <<EOT\nx\nEOT\u00a0\nb = 1\n", "a = <<-EOT\n  x\n  EOT\f\nb = 1\n", "a = <<EOT\r\nx\r\nEOT\u3000\r\n",
	"for", "in", "if", "else", "endif", "endfor", "null", "true", "false", " for ", " in ", " if ",
	"+", "-", "*", "/", "%", "==", "!=", "<", ">", "<=", ">=", "&&", "||", "!", "?", ":", "=>", "...", "::", ".", ".*", "[*]", "=", ",",
	"\n", "\r\n", "\r", "\t", " ", "\n\n",
	"\x80", "\xc0\xaf", "\xe2\x82", "\xf8", "\xed\xa0\x80", "\xff", "\x00", "\x01", "\x1b", "\x7f", "\xef\xbb\xbf",
	"“", "”", " ", " ", "́", "‍", "\U0001F600", "é", "日",
	"#", "//", "/*", "*/", "# c\n", "/* c */",
	"\\", "\\u12", "\\U0001", "\\n", "\\\"", "\\x", "`", "'", ";", "^", "&", "|",
	// escapes at the edges of what can be encoded: surrogates, noncharacters, the last code point and beyond
	"\\ud800", "\\udfff", "\\uD83D", "\\U0000d800", "\\U0000DFFF", "\\uffff", "\\u0000", "\\U0010ffff", "\\U00110000", "\\Uffffffff",
	"\"\\ud800\"", "\"\\udbff\\udc00\"", "\"\\U0000dfff\"", "\"x\\ud800y\"", "a = \"\\udc00\"\n", "b \"\\ud800\" {}\n", "x[\"\\ud800\"]",
	"1", "0", "1e5", "0x1f", "1.", ".5", "1.5.2", "1e", "007",
	"a", "x", "a.b", "a[0]", "f(", "f()", "a = 1\n", "b {\n", "}\n", "b \"l\" {}\n", "\"${a}\"", "[for x in y: x]", "{a = 1}",
}

// MutateHCL applies 1..4 hostile edits and reports their kinds.
func MutateHCL(t *rapid.T, text string) (string, []string) {
	b := []byte(text)
	n := rapid.IntRange(1, 4).Draw(t, "nmut")
	var kinds []string
	for i := 0; i < n; i++ {
		switch rapid.IntRange(0, 12).Draw(t, "mutkind") {
		case 10, 11, 12:
			// the smallest syntax error: one separator inside a (possibly deeply nested)
			// construct is blanked out; parsers recover from these locally, which is where
			// diagnostics get lost
			idx := []int{}
			for j, c := range b {
				if c == ',' || c == ':' || c == '?' || (c == '=' && j+1 < len(b) && b[j+1] == '>') {
					idx = append(idx, j)
				}
			}
			if len(idx) > 0 {
				pos := idx[rapid.IntRange(0, len(idx)-1).Draw(t, "which")]
				if b[pos] == '=' {
					b[pos+1] = ' '
				}
				b[pos] = ' '
				kinds = append(kinds, "drop_separator")
				if rapid.Bool().Draw(t, "only_this") {
					return string(b), kinds
				}
			}
		case 0, 1, 2, 3:
			pos := rapid.IntRange(0, len(b)).Draw(t, "pos")
			ins := rapid.SampledFrom(HCLInserts).Draw(t, "ins")
			b = append(b[:pos:pos], append([]byte(ins), b[pos:]...)...)
			kinds = append(kinds, "insert")
		case 4:
			if len(b) > 0 {
				pos := rapid.IntRange(0, len(b)-1).Draw(t, "pos")
				ln := rapid.IntRange(1, 3).Draw(t, "len")
				if pos+ln > len(b) {
					ln = len(b) - pos
				}
				b = append(b[:pos:pos], b[pos+ln:]...)
				kinds = append(kinds, "delete")
			}
		case 5:
			if len(b) > 1 {
				pos := rapid.IntRange(0, len(b)-1).Draw(t, "pos")
				ln := rapid.IntRange(1, 8).Draw(t, "len")
				if pos+ln > len(b) {
					ln = len(b) - pos
				}
				dup := append([]byte{}, b[pos:pos+ln]...)
				at := rapid.IntRange(0, len(b)).Draw(t, "at")
				b = append(b[:at:at], append(dup, b[at:]...)...)
				kinds = append(kinds, "duplicate")
			}
		case 6:
			if len(b) > 1 {
				i1 := rapid.IntRange(0, len(b)-1).Draw(t, "i1")
				i2 := rapid.IntRange(0, len(b)-1).Draw(t, "i2")
				b[i1], b[i2] = b[i2], b[i1]
				kinds = append(kinds, "swap")
			}
		case 7:
			if len(b) > 0 {
				pos := rapid.IntRange(0, len(b)).Draw(t, "pos")
				b = b[:pos]
				kinds = append(kinds, "truncate")
			}
		case 8:
			if len(b) > 0 {
				pos := rapid.IntRange(0, len(b)-1).Draw(t, "pos")
				b[pos] = byte(rapid.IntRange(0, 255).Draw(t, "byte"))
				kinds = append(kinds, "replace")
			}
		default:
			// replace a bracket-like byte by another
			idx := []int{}
			for j, c := range b {
				if strings.IndexByte("()[]{}\"", c) >= 0 {
					idx = append(idx, j)
				}
			}
			if len(idx) > 0 {
				pos := idx[rapid.IntRange(0, len(idx)-1).Draw(t, "which")]
				b[pos] = "()[]{}\""[rapid.IntRange(0, 6).Draw(t, "to")]
				kinds = append(kinds, "rebracket")
			}
		}
	}
	return string(b), kinds
}

// HostileBytes draws an arbitrary byte string biased to multi-byte / combining
// characters, CR/LF mixtures and template/heredoc material.
func HostileBytes() *rapid.Generator[string] {
	return rapid.Custom(func(t *rapid.T) string {
		n := rapid.IntRange(0, 14).Draw(t, "npieces")
		var sb strings.Builder
		for i := 0; i < n; i++ {
			if rapid.IntRange(0, 5).Draw(t, "rawbyte") == 0 {
				sb.WriteByte(byte(rapid.IntRange(0, 255).Draw(t, "b")))
			} else {
				sb.WriteString(rapid.SampledFrom(HCLInserts).Draw(t, "piece"))
			}
		}
		return sb.String()
	})
}
