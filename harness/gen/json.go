package gen

import (
	"fmt"
	"strings"

	"pgregory.net/rapid"
)

// JKind is a JSON value kind.
type JKind int

const (
	JNull JKind = iota
	JBool
	JNum
	JStr
	JArr
	JObj
)

// JMember is an object member.
type JMember struct {
	Key string
	Val *JVal
}

// JVal is an abstract JSON value together with what its text must denote.
type JVal struct {
	Kind JKind
	B    bool
	Num  string // decimal text as written
	Str  string // logical string content (after unescaping)
	// LoneSurrogate marks a string whose text contains an unpaired \uD8xx escape: the
	// literal mapping of such a string is not specified (only acceptance is checked).
	LoneSurrogate bool
	Arr           []*JVal
	Obj           []JMember
	// Refs: the texts of the references of a template string, in order (C14 JSON ranges).
	Refs []string
}

// JSONOpts controls JSON document generation.
type JSONOpts struct {
	Depth   int
	Strings *rapid.Generator[string]
	Keys    []string
	NoDup   bool
}

var jsonNumTexts = []string{"0", "-0", "1", "-1", "12", "0.5", "-0.25", "1.0", "1e0", "1E2", "1e+2", "1e-2", "1.5e3", "2.5E-3", "123456789012345678901234567890", "0.1234567890123456789012345678901234567890123456789", "1e308", "1e-308", "1.7976931348623157e309", "1e999", "1e-999", "9007199254740993", "18446744073709551616", "3.141592653589793238462643383279", "100e-2", "0e0", "0.0", "-0.0e-0", "1e1000", "123E+4"}

// DrawJSON draws an abstract JSON value.
func DrawJSON(t *rapid.T, o JSONOpts) *JVal {
	if o.Strings == nil {
		o.Strings = stringFrom(append(append([]string{}, StrPieces...), "\b", "\f", "/", "\\u0041", "\\n"), 6)
	}
	if o.Keys == nil {
		o.Keys = KeyPool
	}
	return drawJSON(t, o, o.Depth)
}

func drawJSON(t *rapid.T, o JSONOpts, depth int) *JVal {
	max := 9
	if depth <= 0 {
		max = 4
	}
	min := 0
	if depth == o.Depth && depth > 0 && rapid.IntRange(0, 4).Draw(t, "container_root") > 0 {
		min = 5
	}
	switch rapid.IntRange(min, max).Draw(t, "jkind") {
	case 0:
		return &JVal{Kind: JNull}
	case 1:
		return &JVal{Kind: JBool, B: rapid.Bool().Draw(t, "b")}
	case 2:
		if rapid.Bool().Draw(t, "fixednum") {
			return &JVal{Kind: JNum, Num: rapid.SampledFrom(jsonNumTexts).Draw(t, "num")}
		}
		return &JVal{Kind: JNum, Num: drawJSONNumber(t)}
	case 3, 4:
		v := &JVal{Kind: JStr, Str: o.Strings.Draw(t, "str")}
		if rapid.IntRange(0, 30).Draw(t, "lone") == 0 {
			v.LoneSurrogate = true
		}
		return v
	case 5, 6, 7:
		n := rapid.IntRange(0, 4).Draw(t, "alen")
		v := &JVal{Kind: JArr}
		for i := 0; i < n; i++ {
			v.Arr = append(v.Arr, drawJSON(t, o, depth-1))
		}
		return v
	default:
		n := rapid.IntRange(0, 4).Draw(t, "olen")
		v := &JVal{Kind: JObj}
		seen := map[string]bool{}
		for i := 0; i < n; i++ {
			k := rapid.SampledFrom(o.Keys).Draw(t, "okey")
			if seen[k] && (o.NoDup || rapid.IntRange(0, 3).Draw(t, "allowdup") > 0) {
				continue
			}
			seen[k] = true
			v.Obj = append(v.Obj, JMember{Key: k, Val: drawJSON(t, o, depth-1)})
		}
		return v
	}
}

func drawJSONNumber(t *rapid.T) string {
	var sb strings.Builder
	if rapid.IntRange(0, 3).Draw(t, "neg") == 0 {
		sb.WriteString("-")
	}
	if rapid.IntRange(0, 4).Draw(t, "zeroint") == 0 {
		sb.WriteString("0")
	} else {
		sb.WriteString(string(rune('1' + rapid.IntRange(0, 8).Draw(t, "d1"))))
		sb.WriteString(strings.TrimLeft(digits(t, 0, 25), ""))
	}
	if rapid.Bool().Draw(t, "frac") {
		sb.WriteString("." + digits(t, 1, 25))
	}
	if rapid.Bool().Draw(t, "exp") {
		sb.WriteString(rapid.SampledFrom([]string{"e", "E", "e+", "e-", "E+", "E-"}).Draw(t, "e"))
		if rapid.IntRange(0, 9).Draw(t, "bigexp") == 0 {
			sb.WriteString(digits(t, 4, 4))
		} else {
			sb.WriteString(digits(t, 1, 3))
		}
	}
	return sb.String()
}

// JSONChooser supplies rendering decisions.
type JSONChooser interface {
	Int(max int, label string) int
}

type jsonR struct {
	sb   strings.Builder
	ch   JSONChooser
	wild bool
	Feat map[string]bool
}

var jsonWS = []string{"", "", " ", "\n", "\t", "\r\n", "  ", "\r", " \n\t"}

func (r *jsonR) ws() {
	if !r.wild {
		return
	}
	w := jsonWS[r.ch.Int(len(jsonWS)-1, "ws")]
	if w != "" {
		r.Feat["ws"] = true
	}
	r.sb.WriteString(w)
}

// EncodeJSONString writes a JSON string literal for s using random escape forms.
func EncodeJSONString(s string, ch JSONChooser, wild bool, feat map[string]bool) string {
	var sb strings.Builder
	sb.WriteByte('"')
	for _, c := range s {
		short := ""
		switch c {
		case '"':
			short = `\"`
		case '\\':
			short = `\\`
		case '/':
			short = `\/`
		case '\b':
			short = `\b`
		case '\f':
			short = `\f`
		case '\n':
			short = `\n`
		case '\r':
			short = `\r`
		case '\t':
			short = `\t`
		}
		mustEscape := c == '"' || c == '\\' || c < 0x20
		k := 0
		if wild {
			k = ch.Int(5, "strform")
		}
		switch {
		case short != "" && (k <= 2 || c == '/' && k == 3):
			if c == '/' && k < 2 {
				sb.WriteRune(c)
			} else {
				feat["esc_"+short[1:]] = true
				sb.WriteString(short)
			}
		case mustEscape || k == 4 || (k == 5 && c >= 0x80):
			if c >= 0x10000 {
				c2 := c - 0x10000
				fmt.Fprintf(&sb, `\u%04x\u%04X`, 0xD800+(c2>>10), 0xDC00+(c2&0x3FF))
				feat["surrogate_pair"] = true
			} else {
				if ch.Int(1, "hexcase") == 0 {
					fmt.Fprintf(&sb, `\u%04x`, c)
				} else {
					fmt.Fprintf(&sb, `\u%04X`, c)
				}
				feat["esc_u"] = true
			}
		default:
			sb.WriteRune(c)
		}
	}
	sb.WriteByte('"')
	return sb.String()
}

func (r *jsonR) val(v *JVal) {
	switch v.Kind {
	case JNull:
		r.sb.WriteString("null")
	case JBool:
		if v.B {
			r.sb.WriteString("true")
		} else {
			r.sb.WriteString("false")
		}
	case JNum:
		r.sb.WriteString(v.Num)
		if strings.ContainsAny(v.Num, ".eE") {
			r.Feat["non_integer_number"] = true
		}
	case JStr:
		s := EncodeJSONString(v.Str, r.ch, r.wild, r.Feat)
		if v.LoneSurrogate {
			s = s[:len(s)-1] + `\ud83d"`
			r.Feat["lone_surrogate"] = true
		}
		r.sb.WriteString(s)
	case JArr:
		r.sb.WriteString("[")
		for i, e := range v.Arr {
			if i > 0 {
				r.sb.WriteString(",")
			}
			r.ws()
			r.val(e)
			r.ws()
		}
		if len(v.Arr) == 0 {
			r.ws()
		}
		r.sb.WriteString("]")
	case JObj:
		r.sb.WriteString("{")
		seen := map[string]bool{}
		for i, m := range v.Obj {
			if i > 0 {
				r.sb.WriteString(",")
			}
			if seen[m.Key] {
				r.Feat["duplicate_name"] = true
			}
			seen[m.Key] = true
			r.ws()
			r.sb.WriteString(EncodeJSONString(m.Key, r.ch, r.wild, r.Feat))
			r.ws()
			r.sb.WriteString(":")
			r.ws()
			r.val(m.Val)
			r.ws()
		}
		if len(v.Obj) == 0 {
			r.ws()
		}
		r.sb.WriteString("}")
	}
}

// RenderJSON writes the document text.
func RenderJSON(v *JVal, ch JSONChooser, wild bool) (string, map[string]bool) {
	r := &jsonR{ch: ch, wild: wild, Feat: map[string]bool{}}
	r.ws()
	r.val(v)
	r.ws()
	return r.sb.String(), r.Feat
}

// JSONMutations is the near-miss catalogue (DESIGN C13 (b)).
var jsonInserts = []string{",", ",,", "]", "}", "[", "{", "\"", "'", ":", "nul", "True", "NaN", "undefined", "+1", ".5", "01", "1.", "1e", "-", "0x1", "\x01", "\x00", "\n", "\t", "\x80", "\xc0\xaf", "\xe2\x82", "\xf8", "\xef\xbb\xbf", "//c\n", "/*c*/", " ", "\\", "\\u12", "\\x41", "\\'", "tru", "nulll", "1 2", "{}", "[]", "\"a\"", "\u2028", "\u00a0", "\v", "\f"}

// MutateJSON applies 1..3 hostile edits to a valid text and reports their kinds.
func MutateJSON(t *rapid.T, text string) (string, []string) {
	b := []byte(text)
	n := rapid.IntRange(1, 3).Draw(t, "nmut")
	var kinds []string
	for i := 0; i < n; i++ {
		switch rapid.IntRange(0, 7).Draw(t, "mutkind") {
		case 0, 1, 2:
			pos := rapid.IntRange(0, len(b)).Draw(t, "pos")
			ins := rapid.SampledFrom(jsonInserts).Draw(t, "ins")
			b = append(b[:pos], append([]byte(ins), b[pos:]...)...)
			kinds = append(kinds, "insert")
		case 3:
			if len(b) > 0 {
				pos := rapid.IntRange(0, len(b)-1).Draw(t, "pos")
				b = append(b[:pos], b[pos+1:]...)
				kinds = append(kinds, "delete_byte")
			}
		case 4:
			if len(b) > 0 {
				pos := rapid.IntRange(0, len(b)).Draw(t, "pos")
				b = b[:pos]
				kinds = append(kinds, "truncate")
			}
		case 5:
			// trailing comma before a closer
			idx := []int{}
			for j, c := range b {
				if c == ']' || c == '}' {
					idx = append(idx, j)
				}
			}
			if len(idx) > 0 {
				pos := idx[rapid.IntRange(0, len(idx)-1).Draw(t, "closer")]
				b = append(b[:pos], append([]byte(","), b[pos:]...)...)
				kinds = append(kinds, "trailing_comma")
			}
		case 6:
			b = append(b, []byte(rapid.SampledFrom([]string{" x", "{}", "1", ",", "\x00", "]", "\"", "null"}).Draw(t, "garbage"))...)
			kinds = append(kinds, "trailing_garbage")
		default:
			if len(b) > 0 {
				pos := rapid.IntRange(0, len(b)-1).Draw(t, "pos")
				b[pos] = byte(rapid.IntRange(0, 255).Draw(t, "byte"))
				kinds = append(kinds, "replace_byte")
			}
		}
	}
	return string(b), kinds
}
