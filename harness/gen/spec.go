package gen

import (
	"fmt"
	"sort"

	"github.com/zclconf/go-cty/cty"
	"pgregory.net/rapid"

	"verifharness/ast"
)

// SpecKind enumerates the decoder-specification kinds (hcldec).
type SpecKind int

const (
	SObject SpecKind = iota
	STuple
	SAttr
	SLiteral
	SBlock
	SBlockList
	SBlockTuple
	SBlockSet
	SBlockMap
	SBlockObject
	SBlockAttrs
	SBlockLabel
	SDefault
	STransformFunc
	SValidate
	SRefine
	SExpr // hcldec.ExprSpec: a fixed expression evaluated in the caller's context
)

func (k SpecKind) String() string {
	return [...]string{"Object", "Tuple", "Attr", "Literal", "Block", "BlockList", "BlockTuple", "BlockSet", "BlockMap", "BlockObject", "BlockAttrs", "BlockLabel", "Default", "TransformFunc", "Validate", "Refine", "Expr"}[k]
}

// SpecM is the harness's own description of a decoding specification. It is turned
// into hcldec specs by the test package and interpreted directly by the reference decoder.
type SpecM struct {
	Kind       SpecKind
	Name       string // attribute name / block type
	Type       cty.Type
	Required   bool
	Fields     map[string]*SpecM
	Elems      []*SpecM
	Nested     *SpecM
	MinItems   int
	MaxItems   int
	LabelNames []string
	Literal    cty.Value
	Index      int
	Primary    *SpecM
	Default    *SpecM
	Func       string // TransformFunc name: "upper_or_same" (keeps the type) or "to_number" (always number)
	ViaExpr    bool   // the transform is a TransformExprSpec calling Func on its variable
	ExprVar    string // SExpr: the expression is a reference to this variable
}

// FieldNames lists object-spec field names sorted.
func (s *SpecM) FieldNames() []string {
	var ns []string
	for n := range s.Fields {
		ns = append(ns, n)
	}
	sort.Strings(ns)
	return ns
}

// Dump renders the spec tree.
func (s *SpecM) Dump() string {
	switch s.Kind {
	case SObject:
		out := "Object{"
		for _, n := range s.FieldNames() {
			out += n + ":" + s.Fields[n].Dump() + " "
		}
		return out + "}"
	case STuple:
		out := "Tuple["
		for _, e := range s.Elems {
			out += e.Dump() + " "
		}
		return out + "]"
	case SAttr:
		return fmt.Sprintf("Attr(%s %s req=%v)", s.Name, s.Type.FriendlyName(), s.Required)
	case SLiteral:
		return fmt.Sprintf("Literal(%#v)", s.Literal)
	case SExpr:
		return fmt.Sprintf("Expr(%s)", s.ExprVar)
	case SBlockLabel:
		return fmt.Sprintf("Label(%d)", s.Index)
	case SDefault:
		return "Default(" + s.Primary.Dump() + ", " + s.Default.Dump() + ")"
	case STransformFunc:
		return fmt.Sprintf("TransformFunc(%s expr=%v %s)", s.Func, s.ViaExpr, s.Nested.Dump())
	case SValidate, SRefine:
		return s.Kind.String() + "(" + s.Nested.Dump() + ")"
	case SBlockAttrs:
		return fmt.Sprintf("BlockAttrs(%s %s req=%v)", s.Name, s.Type.FriendlyName(), s.Required)
	default:
		return fmt.Sprintf("%s(%s labels=%v min=%d max=%d req=%v %s)", s.Kind, s.Name, s.LabelNames, s.MinItems, s.MaxItems, s.Required, s.Nested.Dump())
	}
}

// SpecOpts controls spec generation.
type SpecOpts struct {
	Depth      int
	AttrNames  []string
	BlockTypes []string
	// NoDynamic: attribute types never contain `any` (needed inside BlockMap).
	NoDynamic bool
	// BlockBias is the percentage of leaves (where a block is admissible) forced to be block specs.
	BlockBias int
	// ExprVars: variable names an ExprSpec may refer to (none = no ExprSpec is generated).
	ExprVars []string
}

type specGen struct {
	t *rapid.T
	o SpecOpts
}

// DrawSpec draws a specification tree within hcldec's documented preconditions:
// attribute names and block types are unique per body level and disjoint; label
// indices are consecutive from 0 and only inside block specs; no dynamic types
// inside BlockMap; Default's two specs have the same implied type and the default
// is not a block.
func DrawSpec(t *rapid.T, o SpecOpts) *SpecM {
	g := &specGen{t: t, o: o}
	return g.bodySpec(o.Depth, 0, o.NoDynamic)
}

var specAttrTypes = []cty.Type{cty.String, cty.Number, cty.Bool, cty.List(cty.String), cty.Map(cty.Number), cty.DynamicPseudoType, cty.Set(cty.String), cty.String, cty.Number, cty.Map(cty.Map(cty.Number)), cty.List(cty.Map(cty.Number)), cty.Map(cty.List(cty.String))}

func (g *specGen) attrType(noDyn bool) cty.Type {
	for {
		ty := rapid.SampledFrom(specAttrTypes).Draw(g.t, "attrtype")
		if noDyn && ty.HasDynamicTypes() {
			continue
		}
		return ty
	}
}

// bodySpec draws the spec for one body level: an object (or tuple) of leaf/block specs.
// nlabels is the number of labels available at this level (block context).
func (g *specGen) bodySpec(depth int, nlabels int, noDyn bool) *SpecM {
	t := g.t
	attrPool := append([]string{}, g.o.AttrNames...)
	blockPool := append([]string{}, g.o.BlockTypes...)
	takeAttr := func() (string, bool) {
		if len(attrPool) == 0 {
			return "", false
		}
		i := rapid.IntRange(0, len(attrPool)-1).Draw(t, "attrpick")
		n := attrPool[i]
		attrPool = append(attrPool[:i:i], attrPool[i+1:]...)
		return n, true
	}
	takeBlock := func() (string, bool) {
		if len(blockPool) == 0 {
			return "", false
		}
		i := rapid.IntRange(0, len(blockPool)-1).Draw(t, "blockpick")
		n := blockPool[i]
		blockPool = append(blockPool[:i:i], blockPool[i+1:]...)
		return n, true
	}
	nextLabel := 0
	var leaf func(allowBlock bool) *SpecM
	attrSpec := func() *SpecM {
		n, ok := takeAttr()
		if !ok {
			return &SpecM{Kind: SLiteral, Literal: cty.StringVal("lit")}
		}
		return &SpecM{Kind: SAttr, Name: n, Type: g.attrType(noDyn), Required: rapid.IntRange(0, 3).Draw(t, "required") == 0}
	}
	leaf = func(allowBlock bool) *SpecM {
		if len(g.o.ExprVars) > 0 && !noDyn && rapid.IntRange(0, 7).Draw(t, "exprspec") == 0 {
			return &SpecM{Kind: SExpr, ExprVar: rapid.SampledFrom(g.o.ExprVars).Draw(t, "exprvar")}
		}
		k := rapid.IntRange(0, 13).Draw(t, "speckind")
		if g.o.BlockBias > 0 && allowBlock && depth > 0 && rapid.IntRange(0, 99).Draw(t, "blockbias") < g.o.BlockBias {
			k = 10
		}
		switch {
		case k <= 3:
			return attrSpec()
		case k == 4:
			return &SpecM{Kind: SLiteral, Literal: drawValue(t, drawType(t, TypeOpts{Depth: 1, IdentOnly: true}, 1), ValOpts{Nulls: 6})}
		case k == 5 && nextLabel < nlabels:
			s := &SpecM{Kind: SBlockLabel, Index: nextLabel, Name: fmt.Sprintf("label%d", nextLabel)}
			nextLabel++
			return s
		case k == 6:
			// Default: both sides attributes of one type, or attribute with a literal default
			p := attrSpec()
			if p.Kind != SAttr {
				return p
			}
			p.Required = false
			var d *SpecM
			if rapid.Bool().Draw(t, "default_literal") && !p.Type.HasDynamicTypes() {
				d = &SpecM{Kind: SLiteral, Literal: drawValue(t, p.Type, ValOpts{})}
			} else {
				d = attrSpec()
				if d.Kind == SAttr {
					d.Type = p.Type
				} else if p.Type.HasDynamicTypes() || !d.Literal.Type().Equals(p.Type) {
					d = &SpecM{Kind: SLiteral, Literal: cty.NullVal(p.Type)}
				}
			}
			// either side may sit under a type-preserving wrapper (hcldec walks through
			// wrappers when it collects the schema and the variables of a Default)
			wrap := func(x *SpecM, label string) *SpecM {
				if x.Kind != SAttr {
					return x
				}
				switch rapid.IntRange(0, 5).Draw(t, label) {
				case 0:
					return &SpecM{Kind: SValidate, Nested: x}
				case 1:
					return &SpecM{Kind: SRefine, Nested: x}
				case 2:
					if x.Type == cty.String {
						return &SpecM{Kind: STransformFunc, Nested: x, Func: "upper_or_same", ViaExpr: rapid.Bool().Draw(t, "via_expr")}
					}
				}
				return x
			}
			return &SpecM{Kind: SDefault, Primary: wrap(p, "wrap_primary"), Default: wrap(d, "wrap_default")}
		case k == 7:
			w := attrSpec()
			if w.Kind == SAttr {
				w.Type = cty.String
			}
			if rapid.IntRange(0, 1).Draw(t, "transform_fn") == 0 {
				// type-changing transform over an attribute of any type
				return &SpecM{Kind: STransformFunc, Nested: attrSpec(), Func: "to_number", ViaExpr: rapid.Bool().Draw(t, "via_expr")}
			}
			return &SpecM{Kind: STransformFunc, Nested: w, Func: "upper_or_same", ViaExpr: rapid.Bool().Draw(t, "via_expr")}
		case k == 8:
			return &SpecM{Kind: SValidate, Nested: attrSpec()}
		case k == 9:
			w := attrSpec()
			return &SpecM{Kind: SRefine, Nested: w}
		case allowBlock && depth > 0:
			typ, ok := takeBlock()
			if !ok {
				return attrSpec()
			}
			kinds := []SpecKind{SBlock, SBlockList, SBlockTuple, SBlockSet, SBlockMap, SBlockObject, SBlockAttrs}
			if noDyn {
				// BlockTuple and BlockObject imply the dynamic type
				kinds = []SpecKind{SBlock, SBlockList, SBlockSet, SBlockMap, SBlockAttrs}
			}
			bk := rapid.SampledFrom(kinds).Draw(t, "blockkind")
			s := &SpecM{Kind: bk, Name: typ}
			switch bk {
			case SBlockAttrs:
				s.Type = rapid.SampledFrom([]cty.Type{cty.String, cty.Number, cty.DynamicPseudoType}).Draw(t, "elemtype")
				if noDyn {
					s.Type = cty.String
				}
				s.Required = rapid.IntRange(0, 3).Draw(t, "required") == 0
				return s
			case SBlockMap, SBlockObject:
				nl := rapid.SampledFrom([]int{1, 1, 2, 2, 3, 3}).Draw(t, "nmaplabels")
				for i := 0; i < nl; i++ {
					s.LabelNames = append(s.LabelNames, fmt.Sprintf("key%d", i))
				}
				extra := rapid.SampledFrom([]int{0, 0, 0, 1, 1, 2}).Draw(t, "extralabels")
				s.Nested = g.bodySpec(depth-1, extra, noDyn || bk == SBlockMap)
				return s
			default:
				nl := rapid.SampledFrom([]int{0, 0, 0, 1, 1, 1, 2, 2, 3, 4}).Draw(t, "nblocklabels")
				s.Nested = g.bodySpec(depth-1, nl, noDyn)
				s.Required = rapid.IntRange(0, 3).Draw(t, "required") == 0
				if bk != SBlock {
					s.MinItems = rapid.SampledFrom([]int{0, 0, 0, 1, 2}).Draw(t, "min")
					s.MaxItems = rapid.SampledFrom([]int{0, 0, 1, 2, 3}).Draw(t, "max")
					if s.MaxItems > 0 && s.MaxItems < s.MinItems {
						s.MaxItems = s.MinItems
					}
				}
				return s
			}
		default:
			return attrSpec()
		}
	}
	n := rapid.IntRange(1, 4).Draw(t, "nfields")
	if rapid.IntRange(0, 5).Draw(t, "tuple_spec") == 0 {
		s := &SpecM{Kind: STuple}
		for i := 0; i < n; i++ {
			s.Elems = append(s.Elems, leaf(true))
		}
		g.fixLabels(s, nlabels, &nextLabel)
		return s
	}
	s := &SpecM{Kind: SObject, Fields: map[string]*SpecM{}}
	for i := 0; i < n; i++ {
		s.Fields[fmt.Sprintf("f%d", i)] = leaf(true)
	}
	g.fixLabels(s, nlabels, &nextLabel)
	return s
}

// fixLabels makes sure every available label index is used by some BlockLabelSpec
// (the label count of a block spec is derived from the highest index used).
func (g *specGen) fixLabels(s *SpecM, nlabels int, next *int) {
	for *next < nlabels {
		l := &SpecM{Kind: SBlockLabel, Index: *next, Name: fmt.Sprintf("label%d", *next)}
		if s.Kind == SObject {
			s.Fields[fmt.Sprintf("lbl%d", *next)] = l
		} else {
			s.Elems = append(s.Elems, l)
		}
		*next++
	}
}

// SameBody visits the specs that apply to the same body level as s (including s).
func (s *SpecM) SameBody(f func(*SpecM)) {
	f(s)
	switch s.Kind {
	case SObject:
		for _, n := range s.FieldNames() {
			s.Fields[n].SameBody(f)
		}
	case STuple:
		for _, e := range s.Elems {
			e.SameBody(f)
		}
	case SDefault:
		s.Primary.SameBody(f)
		s.Default.SameBody(f)
	case STransformFunc, SValidate, SRefine:
		s.Nested.SameBody(f)
	}
}

// NumLabels is the number of labels the spec expects when used as the nested spec of a block.
func (s *SpecM) NumLabels() int {
	max := -1
	s.SameBody(func(x *SpecM) {
		if x.Kind == SBlockLabel && x.Index > max {
			max = x.Index
		}
	})
	return max + 1
}

// BlockLabelCount is the total label count of a block-kind spec.
func (s *SpecM) BlockLabelCount() int {
	switch s.Kind {
	case SBlockAttrs:
		return 0
	case SBlockMap, SBlockObject:
		return len(s.LabelNames) + s.Nested.NumLabels()
	default:
		return s.Nested.NumLabels()
	}
}

func (k SpecKind) IsBlock() bool {
	switch k {
	case SBlock, SBlockList, SBlockTuple, SBlockSet, SBlockMap, SBlockObject, SBlockAttrs:
		return true
	}
	return false
}

// ---------------------------------------------------------------------------
// bodies built from a spec

// BodyFromSpecOpts controls conforming-body generation.
type BodyFromSpecOpts struct {
	// Perturb: 1-in-N decisions deliberately violate the spec (0 = never).
	Perturb int
	// Expr draws an attribute expression that should evaluate to the given type.
	Expr func(ty cty.Type) ast.Node
	// Labels is the label alphabet.
	Labels []string
	// Dyn, when set, may replace a block instance by a dynamic block: it is given the block
	// spec and a function producing the (static) content body, and returns the item to use.
	Dyn func(x *SpecM, content func() *ast.Body) (ast.Item, bool)
}

// BodyFromSpec builds a body that (mostly) conforms to the spec.
func BodyFromSpec(t *rapid.T, s *SpecM, o BodyFromSpecOpts) *ast.Body {
	b := &ast.Body{}
	perturb := func(label string) bool {
		return o.Perturb > 0 && rapid.IntRange(0, o.Perturb-1).Draw(t, label) == 0
	}
	seenAttr := map[string]bool{}
	s.SameBody(func(x *SpecM) {
		switch {
		case x.Kind == SAttr:
			if seenAttr[x.Name] {
				return
			}
			seenAttr[x.Name] = true
			present := x.Required || rapid.IntRange(0, 3).Draw(t, "attr_present") > 0
			if perturb("flip_presence") {
				present = !present
			}
			if !present {
				return
			}
			ty := x.Type
			if perturb("wrong_type") {
				ty = rapid.SampledFrom(specAttrTypes).Draw(t, "wrongtype")
			}
			b.Items = append(b.Items, ast.Attr{Name: x.Name, Expr: o.Expr(ty)})
		case x.Kind.IsBlock():
			n := 1
			switch x.Kind {
			case SBlock, SBlockAttrs:
				n = 1
				if !x.Required && rapid.IntRange(0, 2).Draw(t, "block_absent") == 0 {
					n = 0
				}
				if perturb("block_count") {
					n = rapid.IntRange(0, 3).Draw(t, "n")
				}
			default:
				n = rapid.IntRange(0, 3).Draw(t, "nblocks")
			}
			var prevLabels []ast.Label
			seenTuples := map[string]bool{}
			for i := 0; i < n; i++ {
				bl := ast.Block{Type: x.Name}
				nl := x.BlockLabelCount()
				if perturb("label_count") {
					nl = rapid.IntRange(0, 3).Draw(t, "nl")
				}
				// sibling blocks often share a label prefix (JSON nests them under one property)
				share := nl > 1 && len(prevLabels) >= nl-1 && rapid.Bool().Draw(t, "share_label_prefix")
				for j := 0; j < nl; j++ {
					if share && j < nl-1 {
						bl.Labels = append(bl.Labels, prevLabels[j])
						continue
					}
					pool := o.Labels
					if nl >= 3 && len(pool) > 3 {
						// deep label paths: a small alphabet makes blocks agree on some levels and
						// differ on others in every combination
						pool = pool[:3]
					}
					txt := cty.StringVal(rapid.SampledFrom(pool).Draw(t, "label")).AsString()
					bl.Labels = append(bl.Labels, ast.Label{Text: txt, Bare: isIdent(txt) && rapid.Bool().Draw(t, "bare")})
				}
				if o.Perturb == 0 && (x.Kind == SBlockMap || x.Kind == SBlockObject) && len(bl.Labels) > 0 {
					// without deliberate violations the label tuples of keyed blocks are distinct
					key := ""
					for _, l := range bl.Labels {
						key += l.Text + "\x00"
					}
					if seenTuples[key] {
						last := &bl.Labels[len(bl.Labels)-1]
						last.Text += fmt.Sprint(i)
						last.Bare = last.Bare && isIdent(last.Text)
						key = ""
						for _, l := range bl.Labels {
							key += l.Text + "\x00"
						}
					}
					seenTuples[key] = true
				}
				prevLabels = bl.Labels
				if x.Kind == SBlockAttrs {
					bl.Body = &ast.Body{}
					na := rapid.IntRange(0, 3).Draw(t, "nattrs")
					seen := map[string]bool{}
					for j := 0; j < na; j++ {
						name := rapid.SampledFrom(AttrNames).Draw(t, "freeattr")
						if seen[name] {
							continue
						}
						seen[name] = true
						ety := x.Type
						if perturb("wrong_type") {
							ety = rapid.SampledFrom(specAttrTypes).Draw(t, "wrongtype")
						}
						bl.Body.Items = append(bl.Body.Items, ast.Attr{Name: name, Expr: o.Expr(ety)})
					}
				} else {
					if o.Dyn != nil {
						if it, ok := o.Dyn(x, func() *ast.Body { return BodyFromSpec(t, x.Nested, o) }); ok {
							b.Items = append(b.Items, it)
							continue
						}
					}
					bl.Body = BodyFromSpec(t, x.Nested, o)
				}
				b.Items = append(b.Items, bl)
			}
		}
	})
	if perturb("extra_item") {
		if rapid.Bool().Draw(t, "extra_attr") {
			b.Items = append(b.Items, ast.Attr{Name: "zz_extra", Expr: o.Expr(cty.String)})
		} else {
			b.Items = append(b.Items, ast.Block{Type: "zz_extra_block", Body: &ast.Body{}})
		}
	}
	// shuffle item order a little (attributes and blocks interleave freely); keep per-type block order
	if len(b.Items) > 1 && rapid.Bool().Draw(t, "shuffle") {
		i := rapid.IntRange(0, len(b.Items)-1).Draw(t, "i")
		j := rapid.IntRange(0, len(b.Items)-1).Draw(t, "j")
		bi, iIsBlock := asBlockType(b.Items[i])
		bj, jIsBlock := asBlockType(b.Items[j])
		if !(iIsBlock && jIsBlock && bi.Type == bj.Type) {
			if i > j {
				i, j = j, i
			}
			// moving an item across blocks of its own type would change per-type order: only swap adjacent-safe cases
			safe := true
			for k := i; k <= j; k++ {
				if kb, ok := asBlockType(b.Items[k]); ok {
					if (iIsBlock && kb.Type == bi.Type && k != i) || (jIsBlock && kb.Type == bj.Type && k != j) {
						safe = false
					}
				}
			}
			if safe {
				b.Items[i], b.Items[j] = b.Items[j], b.Items[i]
			}
		}
	}
	return b
}

type blockType struct{ Type string }

func asBlockType(it ast.Item) (blockType, bool) {
	switch x := it.(type) {
	case ast.Block:
		return blockType{x.Type}, true
	case ast.Dyn:
		return blockType{x.Type}, true
	}
	return blockType{}, false
}
