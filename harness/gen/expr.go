package gen

import (
	"strings"
	"unicode"

	"github.com/zclconf/go-cty/cty"
	"pgregory.net/rapid"

	"verifharness/ast"
	"verifharness/render"
)

// Scope is a flat variable scope.
type Scope struct {
	Names []string // sorted
	Vals  map[string]cty.Value
}

// ScopeVarNames is the pool of variable names (identifiers incl. dashes, unicode, and
// keywords that are legal as variable names).
var ScopeVarNames = []string{"a", "b", "c", "d", "x", "y", "foo", "bar", "n", "s", "lst", "obj", "m", "x-y", "\u00e9t\u00e9", "v1", "in", "if", "for", "each", "self"}

// BoundVarNames is the pool for names bound by for expressions / directives.
var BoundVarNames = []string{"k", "v", "i", "item", "e", "x", "a", "s", "kk", "vv"}

// ScopeOpts controls scope generation.
type ScopeOpts struct {
	Hostile bool
	Nulls   int
}

// DrawScope draws a scope with a spread of types so that every operator family
// has suitable operands.
func DrawScope(t *rapid.T, o ScopeOpts) *Scope {
	sc := &Scope{Vals: map[string]cty.Value{}}
	vo := ValOpts{Nulls: o.Nulls, Hostile: o.Hostile}
	objTy := cty.Object(map[string]cty.Type{"id": cty.Number, "name": cty.String, "tags": cty.List(cty.String)})
	slots := []cty.Type{
		cty.Number, cty.String, cty.Bool,
		cty.List(cty.Number), cty.List(objTy), cty.Map(cty.String), objTy,
	}
	extra := rapid.IntRange(0, 4).Draw(t, "nextra")
	for i := 0; i < extra; i++ {
		slots = append(slots, drawType(t, TypeOpts{Depth: 2}, 2))
	}
	used := map[string]bool{}
	for _, ty := range slots {
		if rapid.IntRange(0, 5).Draw(t, "skipslot") == 0 {
			continue
		}
		name := rapid.SampledFrom(ScopeVarNames).Draw(t, "varname")
		if used[name] {
			continue
		}
		used[name] = true
		sc.Vals[name] = drawValue(t, ty, vo)
		sc.Names = append(sc.Names, name)
	}
	sortStrings(sc.Names)
	return sc
}

// ---------------------------------------------------------------------------

// ExprOpts controls expression generation.
type ExprOpts struct {
	MaxDepth    int
	Budget      int
	IllTyped    int // 1-in-N sub-expressions deliberately get a different wanted type (0 = never)
	NoCalls     bool
	NoTemplates bool
	NoFor       bool
	NoSplat     bool
	NoHeredoc   bool
	NoNullLit   bool
	HostileLits bool
	NoStrip     bool // no strip markers in templates
	// HeredocLines: template literals are built from whole indented lines and line
	// fragments, so that sequences land at the start, in the middle and at the end of lines
	// with differing indentation (heredoc / flush-heredoc analysis).
	HeredocLines bool
	// AvoidKeys: scope paths through map keys / attribute names containing one of these
	// substrings are not used (so that the text never appears in generated source).
	AvoidKeys []string
}

type path struct {
	node ast.Node
	ty   cty.Type
	val  cty.Value // NilVal for bound variables
}

// EG is an expression generator instance.
type EG struct {
	t      *rapid.T
	o      ExprOpts
	paths  []path
	budget int
	Feat   map[string]int
}

// NewEG prepares a generator over the given scope.
func NewEG(t *rapid.T, sc *Scope, o ExprOpts) *EG {
	if o.MaxDepth == 0 {
		o.MaxDepth = 4
	}
	if o.Budget == 0 {
		o.Budget = 30
	}
	g := &EG{t: t, o: o, budget: o.Budget, Feat: map[string]int{}}
	for _, n := range sc.Names {
		v, _ := sc.Vals[n].UnmarkDeep() // marks do not matter for discovering access paths
		g.addPaths(ast.Var{Name: n}, v, 0)
	}
	return g
}

func isIdent(s string) bool {
	if s == "" {
		return false
	}
	for i, r := range s {
		switch {
		case r == '_' || oldLetter(r):
		case i > 0 && (r == '-' || (r >= '0' && r <= '9') || (r >= 0x0300 && r <= 0x036f)):
		default:
			return false
		}
	}
	return true
}

// oldLetter is deliberately conservative: letters that have been letters in every Unicode
// version the scanner's generated tables could be built from. A string for which isIdent
// is false is simply written in quoted / index form, which is always valid.
func oldLetter(r rune) bool {
	if !unicode.IsLetter(r) {
		return false
	}
	switch {
	case r < 0x0250, r >= 0x0391 && r <= 0x03c9, r >= 0x0410 && r <= 0x044f, r >= 0x3041 && r <= 0x3096, r >= 0x4e00 && r <= 0x9fa5:
		return true
	}
	return false
}

// IsIdent reports whether s is an identifier per hclsyntax/spec.md (UAX #31 plus '-').
func IsIdent(s string) bool { return isIdent(s) }

func strLit(s string) ast.Node {
	if s == "" {
		return ast.Template{}
	}
	return ast.Template{Parts: []ast.TPart{ast.TLit{Text: s}}}
}

func (g *EG) addPaths(n ast.Node, v cty.Value, depth int) {
	g.paths = append(g.paths, path{n, v.Type(), v})
	if depth >= 2 || v.IsNull() || !v.IsKnown() {
		return
	}
	ty := v.Type()
	switch {
	case ty.IsObjectType() || ty.IsMapType():
		for it := v.ElementIterator(); it.Next(); {
			k, ev := it.Element()
			ks := k.AsString()
			avoid := false
			for _, a := range g.o.AvoidKeys {
				if strings.Contains(ks, a) {
					avoid = true
				}
			}
			if avoid {
				continue
			}
			if isIdent(ks) && ks != "true" && ks != "false" && ks != "null" {
				g.addPaths(ast.GetAttr{Obj: n, Name: ks}, ev, depth+1)
			} else {
				g.addPaths(ast.Index{Coll: n, Key: strLit(ks)}, ev, depth+1)
			}
		}
	case ty.IsListType() || ty.IsTupleType():
		i := 0
		for it := v.ElementIterator(); it.Next(); {
			_, ev := it.Element()
			if i < 3 {
				if i%2 == 0 {
					g.addPaths(ast.Index{Coll: n, Key: ast.Num{Text: itoa(i)}}, ev, depth+1)
				} else {
					g.addPaths(ast.LegacyIndex{Coll: n, N: i}, ev, depth+1)
				}
			}
			i++
		}
	}
}

func (g *EG) feat(s string) { g.Feat[s]++ }

func (g *EG) intn(max int, label string) int { return rapid.IntRange(0, max).Draw(g.t, label) }
func (g *EG) chance(n int, label string) bool {
	if n <= 0 {
		return false
	}
	return rapid.IntRange(0, n-1).Draw(g.t, label) == 0
}

type wk int

const (
	wAny wk = iota
	wNum
	wStr
	wBool
	wTuple
	wObject
	wList
	wSet
	wMap
)

func kindOf(ty cty.Type) wk {
	switch {
	case ty == cty.DynamicPseudoType:
		return wAny
	case ty == cty.Number:
		return wNum
	case ty == cty.String:
		return wStr
	case ty == cty.Bool:
		return wBool
	case ty.IsTupleType():
		return wTuple
	case ty.IsObjectType():
		return wObject
	case ty.IsListType():
		return wList
	case ty.IsSetType():
		return wSet
	case ty.IsMapType():
		return wMap
	}
	return wAny
}

var primTypes = []cty.Type{cty.Number, cty.String, cty.Bool}

func (g *EG) randomWant() cty.Type {
	switch g.intn(9, "randwant") {
	case 0, 1, 2:
		return cty.Number
	case 3, 4:
		return cty.String
	case 5, 6:
		return cty.Bool
	case 7:
		return cty.EmptyTuple
	case 8:
		return cty.EmptyObject
	default:
		return cty.List(cty.String)
	}
}

// Expr generates an expression that (usually) evaluates to the wanted type.
func (g *EG) Expr(want cty.Type) ast.Node { return g.gen(want, 0) }

func (g *EG) gen(want cty.Type, depth int) ast.Node {
	g.budget--
	if g.o.IllTyped > 0 && g.chance(g.o.IllTyped, "illtyped") {
		g.feat("illtyped_flip")
		return g.illTyped(want, depth)
	}
	if want == cty.DynamicPseudoType {
		want = g.randomWant()
	}
	if depth >= g.o.MaxDepth || g.budget <= 0 {
		return g.leaf(want)
	}
	if g.chance(16, "explicit_paren") {
		return ast.Paren{X: g.gen(want, depth+1)}
	}
	switch kindOf(want) {
	case wNum:
		return g.genNum(depth)
	case wStr:
		return g.genStr(depth)
	case wBool:
		return g.genBool(depth)
	case wTuple:
		return g.genTuple(want, depth)
	case wObject:
		return g.genObject(want, depth)
	default:
		return g.genColl(want, depth)
	}
}

// illTyped returns something that is deliberately not (directly) of the wanted type.
func (g *EG) illTyped(want cty.Type, depth int) ast.Node {
	switch g.intn(9, "illkind") {
	case 0:
		g.feat("ill_null")
		return ast.Null{}
	case 1:
		g.feat("ill_undefined_var")
		return ast.Var{Name: "undefined_var"}
	case 2:
		// a convertible or unconvertible string
		g.feat("ill_string")
		return strLit(rapid.SampledFrom([]string{"5", "1.5", "true", "false", "abc", "", "0", "1", " 7", "1e3", "-2"}).Draw(g.t, "illstr"))
	case 3:
		// out-of-range / missing access on a real collection
		for _, p := range g.shufflePaths() {
			if p.val == cty.NilVal || p.val.IsNull() {
				continue
			}
			if p.ty.IsListType() || p.ty.IsTupleType() {
				g.feat("ill_index_oor")
				idx := rapid.SampledFrom([]string{"99", "1.5", "100000000000000000000"}).Draw(g.t, "oor")
				if g.chance(3, "negidx") {
					return ast.Index{Coll: p.node, Key: ast.Unary{Op: "-", X: ast.Num{Text: "1"}}}
				}
				return ast.Index{Coll: p.node, Key: ast.Num{Text: idx}}
			}
			if (p.ty.IsObjectType() || p.ty.IsMapType()) && g.chance(3, "boolkey") {
				// a literal bool / null index key: a traversal step whose key is neither string nor number
				g.feat("ill_bool_or_null_index_key")
				if g.chance(2, "nullkey") {
					return ast.Index{Coll: p.node, Key: ast.Null{}}
				}
				return ast.Index{Coll: p.node, Key: ast.Bool{V: g.chance(2, "truekey")}}
			}
			if p.ty.IsObjectType() || p.ty.IsMapType() {
				g.feat("ill_missing_attr")
				if g.chance(2, "viaindex") {
					return ast.Index{Coll: p.node, Key: strLit("missing")}
				}
				return ast.GetAttr{Obj: p.node, Name: "missing"}
			}
			if p.ty.IsSetType() {
				g.feat("ill_index_set")
				return ast.Index{Coll: p.node, Key: ast.Num{Text: "0"}}
			}
		}
		return ast.GetAttr{Obj: ast.Num{Text: "1"}, Name: "a"}
	case 4:
		if !g.o.NoCalls {
			g.feat("ill_call")
			switch g.intn(4, "illcall") {
			case 0:
				return ast.Call{Name: "nosuchfunc", Args: []ast.Node{g.leaf(cty.Number)}}
			case 1:
				return ast.Call{Name: "upper"}
			case 2:
				return ast.Call{Name: "add", Args: []ast.Node{g.leaf(cty.Number), g.leaf(cty.Number), g.leaf(cty.Number)}}
			case 3:
				return ast.Call{Name: "fail"}
			default:
				return ast.Call{Name: "ns::nosuch", Args: []ast.Node{g.leaf(cty.Number)}}
			}
		}
		fallthrough
	default:
		// a well-formed expression of some other type
		other := g.randomWant()
		g.feat("ill_other_type")
		return g.gen(other, depth+1)
	}
}

func (g *EG) shufflePaths() []path {
	if len(g.paths) == 0 {
		return nil
	}
	start := g.intn(len(g.paths)-1, "pathstart")
	out := make([]path, 0, len(g.paths))
	out = append(out, g.paths[start:]...)
	out = append(out, g.paths[:start]...)
	return out
}

func convertibleTo(have, want cty.Type) bool {
	if have.Equals(want) {
		return true
	}
	return false
}

// leaf returns a literal or a scope path of the wanted type.
func (g *EG) leaf(want cty.Type) ast.Node {
	if want == cty.DynamicPseudoType {
		want = g.randomWant()
	}
	if g.intn(9, "leaf_path") < 6 {
		for _, p := range g.shufflePaths() {
			if p.ty.Equals(want) || (p.ty == cty.DynamicPseudoType && g.chance(2, "dynpath")) {
				g.feat("leaf_path")
				return p.node
			}
		}
	}
	return g.literal(want)
}

func (g *EG) literal(want cty.Type) ast.Node {
	switch kindOf(want) {
	case wNum:
		return g.numLit()
	case wStr:
		return strLit(g.litText())
	case wBool:
		return ast.Bool{V: rapid.Bool().Draw(g.t, "boollit")}
	case wTuple:
		etys := want.TupleElementTypes()
		elems := make([]ast.Node, len(etys))
		for i, ety := range etys {
			elems[i] = g.literal(ety)
		}
		return ast.Tuple{Elems: elems}
	case wObject:
		var items []ast.ObjItem
		for _, a := range sortedAttrs(want) {
			items = append(items, g.objItem(a.name, g.literal(a.ty)))
		}
		return ast.Object{Items: items}
	case wList, wSet:
		n := g.intn(3, "colllen")
		elems := make([]ast.Node, n)
		for i := range elems {
			elems[i] = g.literal(want.ElementType())
		}
		return ast.Tuple{Elems: elems}
	case wMap:
		n := g.intn(3, "maplen")
		var items []ast.ObjItem
		seen := map[string]bool{}
		for i := 0; i < n; i++ {
			k := rapid.SampledFrom(KeyPool).Draw(g.t, "mapkey")
			if seen[k] {
				continue
			}
			seen[k] = true
			items = append(items, g.objItem(k, g.literal(want.ElementType())))
		}
		return ast.Object{Items: items}
	}
	if g.o.NoNullLit {
		return g.numLit()
	}
	return ast.Null{}
}

func (g *EG) objItem(name string, val ast.Node) ast.ObjItem {
	it := ast.ObjItem{Val: val, Colon: g.chance(4, "colon")}
	switch {
	case isIdent(name) && g.intn(3, "identkey") > 0:
		it.Kind, it.Name = ast.KeyIdent, name
	case g.chance(4, "parenkey"):
		it.Kind, it.Key = ast.KeyParens, strLit(name)
	default:
		it.Kind, it.Key = ast.KeyExpr, strLit(name)
	}
	return it
}

var numLitTexts = []string{"0", "1", "2", "3", "4", "5", "7", "10", "12", "100", "0.5", "1.5", "2.25", "3.0", "1e3", "1E2", "2e-2", "1.5e+1", "18446744073709551616", "0.1", "9007199254740993", "123456789012345678901234567890.5"}

func (g *EG) numLit() ast.Node {
	if g.chance(8, "neglit") {
		return ast.Unary{Op: "-", X: ast.Num{Text: rapid.SampledFrom(numLitTexts).Draw(g.t, "numlit")}}
	}
	return ast.Num{Text: rapid.SampledFrom(numLitTexts).Draw(g.t, "numlit")}
}

var litPieces = []string{"a", "b", "foo", "x", " ", "  ", "\u00a0", "\n", "\n  ", "\t", "-", "1", "$", "%", "${", "%{", "$${", "~", "\"", "\\", "\u00e9", "e\u0301", "\U0001F600", "\u2028", "}", "{", "#", "//", "\r\n", "\u0085"}
var tamePieces = []string{"a", "b", "foo", "x", " ", "  ", "\n", "-", "1", "$", "%", "~", "}", "\n  "}

var heredocPieces = []string{"\n", "\n", "  a\n", "    b\n", " c\n", "d\n", "      e f\n", "  ", "    ", " ", "x", "y z", "  q", "\n  ", "\n    r", "\n\n", "\t t\n", "  u  \n"}

func (g *EG) litText() string {
	if g.o.HeredocLines {
		n := 1 + g.intn(2, "nlit")
		var sb strings.Builder
		for i := 0; i < n; i++ {
			sb.WriteString(rapid.SampledFrom(heredocPieces).Draw(g.t, "linepiece"))
		}
		return sb.String()
	}
	n := g.intn(3, "nlit")
	pieces := tamePieces
	if g.o.HostileLits {
		pieces = litPieces
	}
	var sb strings.Builder
	for i := 0; i < n; i++ {
		sb.WriteString(rapid.SampledFrom(pieces).Draw(g.t, "litpiece"))
	}
	return sb.String()
}

func (g *EG) genNum(depth int) ast.Node {
	switch g.intn(11, "numprod") {
	case 0, 1, 2:
		return g.leaf(cty.Number)
	case 3, 4, 5, 6:
		op := rapid.SampledFrom([]string{"+", "-", "*", "/", "%"}).Draw(g.t, "arith")
		g.feat("binary")
		return ast.Binary{Op: op, L: g.gen(cty.Number, depth+1), R: g.gen(cty.Number, depth+1)}
	case 7:
		g.feat("unary")
		return ast.Unary{Op: "-", X: g.gen(cty.Number, depth+1)}
	case 8:
		return g.cond(cty.Number, depth)
	case 9:
		if !g.o.NoCalls {
			return g.call(cty.Number, depth)
		}
		return g.leaf(cty.Number)
	case 10:
		return g.access(cty.Number, depth)
	default:
		// string that converts
		g.feat("conv_operand")
		return strLit(rapid.SampledFrom([]string{"5", "1.5", "0", "12"}).Draw(g.t, "numstr"))
	}
}

func (g *EG) genBool(depth int) ast.Node {
	switch g.intn(11, "boolprod") {
	case 0, 1:
		return g.leaf(cty.Bool)
	case 2, 3:
		op := rapid.SampledFrom([]string{"<", "<=", ">", ">="}).Draw(g.t, "cmp")
		g.feat("binary")
		return ast.Binary{Op: op, L: g.gen(cty.Number, depth+1), R: g.gen(cty.Number, depth+1)}
	case 4, 5:
		op := rapid.SampledFrom([]string{"==", "!="}).Draw(g.t, "eq")
		g.feat("binary")
		ty := g.randomWant()
		if g.chance(4, "eq_mixed") {
			return ast.Binary{Op: op, L: g.gen(ty, depth+1), R: g.gen(g.randomWant(), depth+1)}
		}
		return ast.Binary{Op: op, L: g.gen(ty, depth+1), R: g.gen(ty, depth+1)}
	case 6, 7:
		op := rapid.SampledFrom([]string{"&&", "||"}).Draw(g.t, "logic")
		g.feat("binary")
		return ast.Binary{Op: op, L: g.gen(cty.Bool, depth+1), R: g.gen(cty.Bool, depth+1)}
	case 8:
		g.feat("unary")
		return ast.Unary{Op: "!", X: g.gen(cty.Bool, depth+1)}
	case 9:
		return g.cond(cty.Bool, depth)
	case 10:
		if !g.o.NoCalls {
			return g.call(cty.Bool, depth)
		}
		return g.leaf(cty.Bool)
	default:
		g.feat("conv_operand")
		return strLit(rapid.SampledFrom([]string{"true", "false", "1", "0"}).Draw(g.t, "boolstr"))
	}
}

func (g *EG) genStr(depth int) ast.Node {
	switch g.intn(9, "strprod") {
	case 0, 1:
		return g.leaf(cty.String)
	case 2, 3, 4:
		if !g.o.NoTemplates {
			return g.template(depth)
		}
		return g.leaf(cty.String)
	case 5:
		return g.cond(cty.String, depth)
	case 6, 7:
		if !g.o.NoCalls {
			return g.call(cty.String, depth)
		}
		return g.leaf(cty.String)
	case 8:
		return g.access(cty.String, depth)
	default:
		g.feat("conv_operand")
		if g.chance(2, "numasstr") {
			return g.numLit()
		}
		return ast.Bool{V: true}
	}
}

func (g *EG) cond(want cty.Type, depth int) ast.Node {
	g.feat("cond")
	p := g.gen(cty.Bool, depth+1)
	t := g.gen(want, depth+1)
	var f ast.Node
	switch g.intn(7, "condshape") {
	case 0:
		// different branch type (unification)
		g.feat("cond_mixed_types")
		f = g.gen(g.randomWant(), depth+1)
	case 1:
		if !g.o.NoNullLit {
			f = ast.Null{}
			break
		}
		f = g.gen(want, depth+1)
	default:
		f = g.gen(want, depth+1)
	}
	if g.chance(2, "swap") {
		t, f = f, t
	}
	return ast.Cond{P: p, T: t, F: f}
}

func (g *EG) call(want cty.Type, depth int) ast.Node {
	g.feat("call")
	switch kindOf(want) {
	case wNum:
		switch g.intn(3, "numcall") {
		case 0:
			return ast.Call{Name: "len", Args: []ast.Node{g.gen(cty.DynamicPseudoType, depth+1)}}
		case 1:
			return ast.Call{Name: "ns::sub::two"}
		default:
			return g.maybeExpand(ast.Call{Name: "add", Args: []ast.Node{g.gen(cty.Number, depth+1), g.gen(cty.Number, depth+1)}}, cty.Number, depth)
		}
	case wBool:
		return ast.Call{Name: "nullok", Args: []ast.Node{g.gen(cty.DynamicPseudoType, depth+1)}}
	case wStr:
		switch g.intn(4, "strcall") {
		case 0:
			return ast.Call{Name: "upper", Args: []ast.Node{g.gen(cty.String, depth+1)}}
		case 1:
			n := g.intn(3, "ncat")
			args := make([]ast.Node, n)
			for i := range args {
				args[i] = g.gen(cty.String, depth+1)
			}
			return g.maybeExpand(ast.Call{Name: "cat", Args: args}, cty.String, depth)
		case 2:
			n := g.intn(2, "nfmt")
			args := []ast.Node{g.gen(cty.String, depth+1)}
			for i := 0; i < n; i++ {
				args = append(args, g.gen(cty.Number, depth+1))
			}
			return g.maybeExpand(ast.Call{Name: "fmt2", Args: args}, cty.Number, depth)
		case 3:
			return ast.Call{Name: "joinl", Args: []ast.Node{g.gen(cty.String, depth+1), g.gen(cty.List(cty.String), depth+1)}}
		default:
			return ast.Call{Name: "ns::id", Args: []ast.Node{g.gen(cty.String, depth+1)}}
		}
	case wObject:
		return ast.Call{Name: "mk", Args: []ast.Node{g.gen(cty.String, depth+1)}}
	}
	return ast.Call{Name: "ns::id", Args: []ast.Node{g.gen(want, depth+1)}}
}

// maybeExpand turns the trailing arguments into an expansion argument `[..]...`.
func (g *EG) maybeExpand(c ast.Call, elemTy cty.Type, depth int) ast.Node {
	if !g.chance(3, "expand") {
		return c
	}
	g.feat("call_expand")
	k := g.intn(len(c.Args), "nexpanded")
	fixedArgs := c.Args[:len(c.Args)-k]
	var exp ast.Node
	switch g.intn(3, "expandsrc") {
	case 0:
		// a scope collection of the element type
		for _, p := range g.shufflePaths() {
			if (p.ty.IsListType() || p.ty.IsSetType()) && p.ty.ElementType().Equals(elemTy) {
				exp = p.node
				break
			}
		}
	case 1:
		exp = ast.Tuple{}
	}
	if exp == nil {
		exp = ast.Tuple{Elems: append([]ast.Node{}, c.Args[len(c.Args)-k:]...)}
	}
	args := append(append([]ast.Node{}, fixedArgs...), exp)
	return ast.Call{Name: c.Name, Args: args, Expand: true}
}

// access builds a collection and immediately reads one element of the wanted type.
func (g *EG) access(want cty.Type, depth int) ast.Node {
	g.feat("access")
	switch g.intn(5, "accesskind") {
	case 3:
		// a constructor indexed by a key that comes from the scope
		g.feat("access_var_key")
		n := 2 + g.intn(1, "ntuple")
		elems := make([]ast.Node, n)
		for i := range elems {
			elems[i] = g.gen(want, depth+1)
		}
		return ast.Index{Coll: ast.Tuple{Elems: elems}, Key: g.leaf(cty.Number)}
	case 4:
		g.feat("access_var_key")
		items := []ast.ObjItem{g.objItem("a", g.gen(want, depth+1)), g.objItem("b", g.gen(want, depth+1)), g.objItem("foo", g.gen(want, depth+1))}
		return ast.Index{Coll: ast.Object{Items: items}, Key: g.leaf(cty.String)}
	case 0:
		n := 1 + g.intn(2, "ntuple")
		elems := make([]ast.Node, n)
		for i := range elems {
			elems[i] = g.gen(want, depth+1)
		}
		i := g.intn(n-1, "idx")
		if g.chance(3, "legacy") {
			return ast.LegacyIndex{Coll: ast.Tuple{Elems: elems}, N: i}
		}
		var key ast.Node = ast.Num{Text: itoa(i)}
		if g.chance(4, "strkey") {
			key = strLit(itoa(i))
		} else if g.chance(4, "computedkey") {
			key = ast.Binary{Op: "+", L: ast.Num{Text: itoa(i)}, R: ast.Num{Text: "0"}}
		}
		return ast.Index{Coll: ast.Tuple{Elems: elems}, Key: key}
	case 1:
		name := rapid.SampledFrom(AttrNames).Draw(g.t, "attr")
		other := rapid.SampledFrom(AttrNames).Draw(g.t, "attr2")
		items := []ast.ObjItem{g.objItem(name, g.gen(want, depth+1))}
		if other != name {
			items = append(items, g.objItem(other, g.gen(g.randomWant(), depth+1)))
			if g.chance(2, "swapitems") {
				items[0], items[1] = items[1], items[0]
			}
		}
		obj := ast.Object{Items: items}
		if isIdent(name) && g.chance(2, "getattr") {
			return ast.GetAttr{Obj: obj, Name: name}
		}
		return ast.Index{Coll: obj, Key: strLit(name)}
	default:
		// index a for-expression result or a splat
		if !g.o.NoFor {
			return ast.Index{Coll: g.forExpr(false, depth, want), Key: ast.Num{Text: "0"}}
		}
		return g.leaf(want)
	}
}

func (g *EG) genTuple(want cty.Type, depth int) ast.Node {
	switch g.intn(7, "tupleprod") {
	case 0, 1, 2:
		g.feat("tuple_cons")
		n := g.intn(3, "ntuple")
		etys := want.TupleElementTypes()
		if len(etys) > 0 {
			n = len(etys)
		}
		elems := make([]ast.Node, n)
		for i := range elems {
			if i < len(etys) {
				elems[i] = g.gen(etys[i], depth+1)
			} else {
				elems[i] = g.gen(cty.DynamicPseudoType, depth+1)
			}
		}
		return ast.Tuple{Elems: elems}
	case 3, 4:
		if !g.o.NoFor {
			return g.forExpr(false, depth, cty.DynamicPseudoType)
		}
	case 5, 6:
		if !g.o.NoSplat {
			return g.splat(depth)
		}
	}
	return g.leaf(want)
}

func (g *EG) genObject(want cty.Type, depth int) ast.Node {
	switch g.intn(6, "objprod") {
	case 0, 1, 2:
		g.feat("object_cons")
		attrs := sortedAttrs(want)
		var items []ast.ObjItem
		if len(attrs) > 0 {
			for _, a := range attrs {
				items = append(items, g.objItem(a.name, g.gen(a.ty, depth+1)))
			}
		} else {
			n := g.intn(3, "nitems")
			seen := map[string]bool{}
			for i := 0; i < n; i++ {
				var name string
				if g.chance(4, "weirdkey") {
					name = rapid.SampledFrom(KeyPool).Draw(g.t, "key")
				} else {
					name = rapid.SampledFrom(AttrNames).Draw(g.t, "key")
				}
				if seen[name] && !g.chance(8, "dupkey") {
					continue
				}
				seen[name] = true
				it := g.objItem(name, g.gen(cty.DynamicPseudoType, depth+1))
				if g.chance(6, "computedkey") {
					// a computed key: parenthesised expression of string/number/bool type
					it.Kind, it.Name, it.Key = ast.KeyParens, "", g.gen(rapid.SampledFrom(primTypes).Draw(g.t, "keyty"), depth+1)
					g.feat("object_computed_key")
				} else if g.chance(10, "numkey") {
					it.Kind, it.Name, it.Key = ast.KeyExpr, "", ast.Num{Text: rapid.SampledFrom([]string{"0", "1", "1.5", "10"}).Draw(g.t, "numkey")}
				} else if g.chance(10, "tmplkey") && !g.o.NoTemplates {
					it.Kind, it.Name, it.Key = ast.KeyExpr, "", g.template(depth+1)
				}
				items = append(items, it)
			}
		}
		return ast.Object{Items: items}
	case 3, 4:
		if !g.o.NoFor {
			return g.forExpr(true, depth, cty.DynamicPseudoType)
		}
	case 5:
		if !g.o.NoCalls {
			return g.call(cty.EmptyObject, depth)
		}
	}
	return g.leaf(want)
}

func (g *EG) genColl(want cty.Type, depth int) ast.Node {
	switch g.intn(5, "collprod") {
	case 0, 1:
		return g.leaf(want)
	case 2:
		if !g.o.NoSplat && want.IsListType() {
			return g.splat(depth)
		}
	case 3:
		return g.cond(want, depth)
	}
	// a constructor whose elements have the wanted element type
	switch kindOf(want) {
	case wList, wSet:
		n := g.intn(3, "collen")
		elems := make([]ast.Node, n)
		for i := range elems {
			elems[i] = g.gen(want.ElementType(), depth+1)
		}
		return ast.Tuple{Elems: elems}
	case wMap:
		return g.genObject(cty.EmptyObject, depth)
	}
	return g.leaf(want)
}

// iterable picks a collection expression together with the key/value types its
// iteration binds (DynamicPseudoType when they vary per element).
func (g *EG) iterable(depth int) (ast.Node, cty.Type, cty.Type) {
	if g.intn(9, "iterable_src") < 6 {
		for _, p := range g.shufflePaths() {
			ty := p.ty
			switch {
			case ty.IsListType():
				return p.node, cty.Number, ty.ElementType()
			case ty.IsSetType():
				return p.node, ty.ElementType(), ty.ElementType()
			case ty.IsMapType():
				return p.node, cty.String, ty.ElementType()
			case ty.IsTupleType():
				return p.node, cty.Number, cty.DynamicPseudoType
			case ty.IsObjectType():
				return p.node, cty.String, cty.DynamicPseudoType
			}
		}
	}
	switch g.intn(4, "iterable_cons") {
	case 0:
		// homogeneous tuple constructor
		ety := rapid.SampledFrom(primTypes).Draw(g.t, "ety")
		n := g.intn(3, "n")
		elems := make([]ast.Node, n)
		for i := range elems {
			elems[i] = g.gen(ety, depth+1)
		}
		return ast.Tuple{Elems: elems}, cty.Number, ety
	case 1:
		ety := rapid.SampledFrom(primTypes).Draw(g.t, "ety")
		n := g.intn(3, "n")
		var items []ast.ObjItem
		seen := map[string]bool{}
		for i := 0; i < n; i++ {
			name := rapid.SampledFrom(AttrNames).Draw(g.t, "key")
			if seen[name] {
				continue
			}
			seen[name] = true
			items = append(items, g.objItem(name, g.gen(ety, depth+1)))
		}
		return ast.Object{Items: items}, cty.String, ety
	case 2:
		// non-iterable or null (erroneous)
		g.feat("for_bad_coll")
		if g.chance(2, "nullcoll") {
			return ast.Null{}, cty.DynamicPseudoType, cty.DynamicPseudoType
		}
		return g.leaf(rapid.SampledFrom(primTypes).Draw(g.t, "scalar")), cty.DynamicPseudoType, cty.DynamicPseudoType
	default:
		return g.gen(cty.DynamicPseudoType, depth+1), cty.DynamicPseudoType, cty.DynamicPseudoType
	}
}

func (g *EG) withBound(names []string, tys []cty.Type, f func()) {
	saved := g.paths
	np := make([]path, 0, len(saved)+len(names))
	// bound variables first so that shufflePaths finds them often
	for i, n := range names {
		if n != "" {
			np = append(np, path{ast.Var{Name: n}, tys[i], cty.NilVal})
		}
	}
	// a bound name hides an outer variable of the same name (and every path under it)
	for _, p := range saved {
		hidden := false
		root := rootVar(p.node)
		for _, n := range names {
			if n != "" && n == root {
				hidden = true
			}
		}
		if !hidden {
			np = append(np, p)
		}
	}
	g.paths = np
	f()
	g.paths = saved
}

func rootVar(n ast.Node) string {
	for {
		switch x := n.(type) {
		case ast.Var:
			return x.Name
		case ast.GetAttr:
			n = x.Obj
		case ast.Index:
			n = x.Coll
		case ast.LegacyIndex:
			n = x.Coll
		default:
			return ""
		}
	}
}

func (g *EG) boundName() string {
	if g.chance(5, "shadow") && len(g.paths) > 0 {
		// deliberately shadow something in scope
		if r := rootVar(g.paths[g.intn(len(g.paths)-1, "shadowidx")].node); r != "" && r != "for" {
			g.feat("shadowing")
			return r
		}
	}
	return rapid.SampledFrom(BoundVarNames).Draw(g.t, "bound")
}

func (g *EG) forExpr(object bool, depth int, valWant cty.Type) ast.Node {
	g.feat("for")
	coll, kty, vty := g.iterable(depth)
	f := ast.For{Coll: coll, ValVar: g.boundName()}
	if g.chance(2, "keyvar") {
		f.KeyVar = g.boundName()
		if f.KeyVar == f.ValVar {
			f.KeyVar = f.KeyVar + "k"
		}
	}
	g.withBound([]string{f.KeyVar, f.ValVar}, []cty.Type{kty, vty}, func() {
		if object {
			g.feat("for_object")
			switch g.intn(4, "forkey") {
			case 0:
				f.Key = ast.Var{Name: f.ValVar}
			case 1:
				if f.KeyVar != "" {
					f.Key = ast.Var{Name: f.KeyVar}
				} else {
					f.Key = g.gen(cty.String, depth+1)
				}
			case 2:
				f.Key = g.gen(cty.String, depth+1)
			default:
				f.Key = g.gen(rapid.SampledFrom(primTypes).Draw(g.t, "keyty"), depth+1)
			}
			f.Group = g.chance(3, "group")
			if f.Group {
				g.feat("for_group")
			}
		}
		if g.chance(3, "valisvar") {
			f.Val = ast.Var{Name: f.ValVar}
		} else {
			f.Val = g.gen(valWant, depth+1)
		}
		if g.chance(3, "forcond") {
			g.feat("for_if")
			f.Cond = g.gen(cty.Bool, depth+1)
		}
	})
	return f
}

func (g *EG) splat(depth int) ast.Node {
	g.feat("splat")
	full := g.chance(2, "fullsplat")
	var src ast.Node
	var ety cty.Type = cty.DynamicPseudoType
	k := g.intn(11, "splatsrc")
	if k >= 10 {
		// a map or object from the scope: neither is a sequence, so the splat applies to the
		// value as a whole (it is wrapped in a single-element tuple)
		for _, p := range g.shufflePaths() {
			if p.ty.IsMapType() || p.ty.IsObjectType() {
				g.feat("splat_map_or_object")
				src = p.node
				if p.ty.IsMapType() {
					ety = p.ty
				} else {
					ety = p.ty
				}
				break
			}
		}
	}
	if src == nil && k < 6 {
		for _, p := range g.shufflePaths() {
			if p.ty.IsListType() || p.ty.IsSetType() {
				src, ety = p.node, p.ty.ElementType()
				break
			}
			if p.ty.IsTupleType() && g.chance(2, "tuplesrc") {
				src = p.node
				if et := p.ty.TupleElementTypes(); len(et) > 0 {
					ety = et[0]
				}
				break
			}
		}
	}
	if src == nil {
		switch k {
		case 6:
			g.feat("splat_scalar")
			src = g.leaf(rapid.SampledFrom(primTypes).Draw(g.t, "scalar"))
		case 7:
			g.feat("splat_null")
			src = ast.Null{}
		case 8:
			src = g.leaf(cty.EmptyObject)
		default:
			// tuple of objects built in place
			n := g.intn(2, "n")
			elems := make([]ast.Node, n)
			for i := range elems {
				elems[i] = ast.Object{Items: []ast.ObjItem{g.objItem("id", g.gen(cty.Number, depth+1)), g.objItem("name", g.gen(cty.String, depth+1))}}
			}
			src = ast.Tuple{Elems: elems}
			ety = cty.Object(map[string]cty.Type{"id": cty.Number, "name": cty.String})
		}
	}
	sp := ast.Splat{Src: src, Full: full}
	nsteps := g.intn(2, "nsteps")
	cur := ety
	lastLegacy := false
	for i := 0; i < nsteps; i++ {
		switch {
		case cur.IsObjectType() && len(cur.AttributeTypes()) > 0:
			attrs := sortedAttrs(cur)
			a := attrs[g.intn(len(attrs)-1, "attr")]
			if isIdent(a.name) {
				sp.Steps = append(sp.Steps, ast.Step{Kind: ast.StepAttr, Name: a.name})
				cur = a.ty
				lastLegacy = false
				continue
			}
			return sp
		case cur.IsListType() || cur.IsTupleType():
			if full && g.chance(2, "bracket") {
				sp.Steps = append(sp.Steps, ast.Step{Kind: ast.StepIndex, Key: ast.Num{Text: "0"}})
			} else if !lastLegacy {
				sp.Steps = append(sp.Steps, ast.Step{Kind: ast.StepLegacy, N: 0})
				lastLegacy = true
			} else {
				return sp
			}
			if cur.IsListType() {
				cur = cur.ElementType()
			} else {
				cur = cty.DynamicPseudoType
			}
			continue
		case cur.IsMapType():
			sp.Steps = append(sp.Steps, ast.Step{Kind: ast.StepAttr, Name: "a"})
			cur = cur.ElementType()
			lastLegacy = false
			continue
		default:
			if g.chance(3, "badstep") {
				sp.Steps = append(sp.Steps, ast.Step{Kind: ast.StepAttr, Name: "id"})
			}
			return sp
		}
	}
	if g.chance(4, "nested_splat") {
		g.feat("nested_splat")
		return ast.Splat{Src: sp, Full: g.chance(2, "nestedfull")}
	}
	return sp
}

// ---------------------------------------------------------------------------
// templates

func (g *EG) template(depth int) ast.Node {
	g.feat("template")
	parts := g.tparts(depth, 0)
	t := ast.Template{Parts: parts}
	if !g.o.NoHeredoc && g.chance(4, "heredoc") {
		if g.chance(2, "flush") {
			t.Form = ast.FlushHeredoc
		} else {
			t.Form = ast.Heredoc
		}
		// a heredoc body always ends with a newline
		if n := len(t.Parts); n > 0 {
			if l, ok := t.Parts[n-1].(ast.TLit); ok {
				if !strings.HasSuffix(l.Text, "\n") {
					t.Parts[n-1] = ast.TLit{Text: l.Text + "\n"}
				}
			} else {
				t.Parts = append(t.Parts, ast.TLit{Text: "\n"})
			}
		}
		if !render.CanHeredoc(t) {
			t.Form = ast.Quoted
		}
	}
	return t
}

// HeredocTemplate draws a template in heredoc or flush-heredoc form (quoted when the
// parts cannot be written raw).
func (g *EG) HeredocTemplate() ast.Template {
	t := ast.Template{Parts: g.tparts(0, 0)}
	t.Form = ast.Heredoc
	if g.intn(2, "flush") > 0 {
		t.Form = ast.FlushHeredoc
	}
	if n := len(t.Parts); n > 0 {
		if l, ok := t.Parts[n-1].(ast.TLit); ok {
			if !strings.HasSuffix(l.Text, "\n") {
				t.Parts[n-1] = ast.TLit{Text: l.Text + "\n"}
			}
		} else {
			t.Parts = append(t.Parts, ast.TLit{Text: "\n"})
		}
	}
	if !render.CanHeredoc(t) {
		t.Form = ast.Quoted
	}
	return t
}

// Parts generates stand-alone template parts (for ParseTemplate).
func (g *EG) Parts() []ast.TPart { return g.tparts(0, 0) }

func (g *EG) stripMark() bool { return !g.o.NoStrip && g.chance(4, "strip") }

func (g *EG) tparts(depth, tdepth int) []ast.TPart {
	n := 1 + g.intn(3, "nparts")
	if g.chance(8, "single_interp") {
		g.feat("tmpl_unwrap_candidate")
		return []ast.TPart{ast.TInterp{X: g.gen(cty.DynamicPseudoType, depth+1)}}
	}
	var parts []ast.TPart
	for i := 0; i < n; i++ {
		k := g.intn(9, "tpart")
		switch {
		case k <= 3:
			txt := g.litText()
			if txt == "" {
				continue
			}
			if len(parts) > 0 {
				if l, ok := parts[len(parts)-1].(ast.TLit); ok {
					parts[len(parts)-1] = ast.TLit{Text: l.Text + txt}
					continue
				}
			}
			parts = append(parts, ast.TLit{Text: txt})
		case k <= 6 || tdepth >= 2 || g.budget <= 0:
			it := ast.TInterp{StripL: g.stripMark(), StripR: g.stripMark()}
			if it.StripL || it.StripR {
				g.feat("tmpl_strip")
			}
			it.X = g.gen(rapid.SampledFrom(primTypes).Draw(g.t, "interpty"), depth+1)
			parts = append(parts, it)
		case k == 7:
			g.feat("tmpl_if")
			ti := ast.TIf{Cond: g.gen(cty.Bool, depth+1), SIf: ast.Strip{L: g.stripMark(), R: g.stripMark()}, SEnd: ast.Strip{L: g.stripMark(), R: g.stripMark()}}
			ti.Then = g.tparts(depth+1, tdepth+1)
			if g.chance(2, "else") {
				ti.HasElse = true
				ti.SElse = ast.Strip{L: g.stripMark(), R: g.stripMark()}
				ti.Else = g.tparts(depth+1, tdepth+1)
			}
			parts = append(parts, ti)
		default:
			g.feat("tmpl_for")
			coll, kty, vty := g.iterable(depth)
			tf := ast.TFor{Coll: coll, ValVar: g.boundName(), SFor: ast.Strip{L: g.stripMark(), R: g.stripMark()}, SEnd: ast.Strip{L: g.stripMark(), R: g.stripMark()}}
			if g.chance(2, "keyvar") {
				tf.KeyVar = g.boundName()
				if tf.KeyVar == tf.ValVar {
					tf.KeyVar += "k"
				}
			}
			g.withBound([]string{tf.KeyVar, tf.ValVar}, []cty.Type{kty, vty}, func() {
				tf.Body = g.tparts(depth+1, tdepth+1)
			})
			parts = append(parts, tf)
		}
	}
	return parts
}

// TraversalExpr draws a traversal-shaped expression: a scope access path, possibly
// extended by a step that fails (missing attribute, out-of-range index), or an
// undefined root.
func (g *EG) TraversalExpr() ast.Node {
	if len(g.paths) == 0 || g.chance(12, "undefroot") {
		return ast.GetAttr{Obj: ast.Var{Name: "undefined_var"}, Name: "a"}
	}
	p := g.paths[g.intn(len(g.paths)-1, "travpath")]
	n := p.node
	extra := g.intn(5, "travextra")
	switch extra {
	case 0:
		n = ast.GetAttr{Obj: n, Name: rapid.SampledFrom(AttrNames).Draw(g.t, "attr")}
	case 1:
		n = ast.Index{Coll: n, Key: ast.Num{Text: rapid.SampledFrom([]string{"0", "1", "7", "1.5"}).Draw(g.t, "idx")}}
	case 2:
		n = ast.Index{Coll: n, Key: strLit(rapid.SampledFrom(KeyPool).Draw(g.t, "key"))}
	case 3:
		n = ast.LegacyIndex{Coll: n, N: g.intn(2, "lidx")}
	}
	return n
}

// SplatHeavy draws an expression built around splat operators (nested splats, splats
// inside for expressions, conditionals and tuples), for the concurrency check.
func (g *EG) SplatHeavy() ast.Node {
	switch g.intn(5, "splatheavy") {
	case 0:
		return g.splat(1)
	case 1:
		return ast.Tuple{Elems: []ast.Node{g.splat(1), g.splat(1)}}
	case 2:
		coll, kty, vty := g.iterable(1)
		f := ast.For{Coll: coll, ValVar: "it"}
		g.withBound([]string{"", "it"}, []cty.Type{kty, vty}, func() {
			f.Val = ast.Tuple{Elems: []ast.Node{g.splat(2), ast.Splat{Src: ast.Var{Name: "it"}, Full: g.chance(2, "full")}}}
		})
		return f
	case 3:
		return ast.Cond{P: g.gen(cty.Bool, 2), T: g.splat(1), F: g.splat(1)}
	case 4:
		return ast.Splat{Src: g.splat(1), Full: true}
	default:
		return ast.Index{Coll: g.splat(1), Key: ast.Num{Text: "0"}}
	}
}
