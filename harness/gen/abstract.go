package gen

import (
	"math/big"

	"github.com/zclconf/go-cty/cty"
	"pgregory.net/rapid"
)

// AbsKind says how a (sub)value is abstracted for C05.
type AbsKind int

const (
	AbsKeep      AbsKind = iota // stays the concrete value
	AbsTyped                    // typed unknown of exactly the value's type
	AbsRefined                  // refined unknown; the refinements are true of the original value
	AbsDynamic                  // cty.DynamicVal
	AbsContainer                // known container with abstracted elements
)

// AbsNode describes the abstraction of one value.
type AbsNode struct {
	Kind  AbsKind
	Orig  cty.Value
	Elems []*AbsNode // AbsContainer: in ElementIterator order
	Keys  []cty.Value
	// refinements (AbsRefined)
	NotNull      bool
	Prefix       string
	HasLo, HasHi bool
	Lo, Hi       cty.Value
	LoInc, HiInc bool
	LenLo, LenHi int
}

// DrawAbstraction chooses an abstraction of v. top reports whether v is a whole variable.
func DrawAbstraction(t *rapid.T, v cty.Value, depth int) *AbsNode {
	return drawAbstraction(t, v, depth, false)
}

// noDyn: the value lives (transitively) inside a list or map, whose element type must not change.
func drawAbstraction(t *rapid.T, v cty.Value, depth int, noDyn bool) *AbsNode {
	n := &AbsNode{Orig: v}
	ty := v.Type()
	isContainer := !v.IsNull() && (ty.IsListType() || ty.IsMapType() || ty.IsTupleType() || ty.IsObjectType()) && v.LengthInt() > 0
	k := rapid.IntRange(0, 9).Draw(t, "abskind")
	switch {
	case k <= 2:
		n.Kind = AbsTyped
	case k <= 5:
		n.Kind = AbsRefined
		n.drawRefinements(t)
	case k == 6 && !noDyn:
		n.Kind = AbsDynamic
	case isContainer && depth < 2:
		n.Kind = AbsContainer
		any := false
		for it := v.ElementIterator(); it.Next(); {
			kk, ev := it.Element()
			n.Keys = append(n.Keys, kk)
			var child *AbsNode
			if rapid.IntRange(0, 2).Draw(t, "abselem") == 0 {
				child = drawAbstraction(t, ev, depth+1, noDyn || ty.IsListType() || ty.IsMapType())
				any = true
			} else {
				child = &AbsNode{Kind: AbsKeep, Orig: ev}
			}
			n.Elems = append(n.Elems, child)
		}
		if !any {
			n.Elems[0] = &AbsNode{Kind: AbsTyped, Orig: n.Elems[0].Orig}
		}
	default:
		n.Kind = AbsTyped
	}
	return n
}

func (n *AbsNode) drawRefinements(t *rapid.T) {
	v := n.Orig
	ty := v.Type()
	if !v.IsNull() && rapid.IntRange(0, 3).Draw(t, "notnull") > 0 {
		n.NotNull = true
	}
	if v.IsNull() {
		return
	}
	switch {
	case ty == cty.String:
		s := []rune(v.AsString())
		if len(s) > 0 {
			k := rapid.IntRange(0, len(s)).Draw(t, "prefixlen")
			n.Prefix = string(s[:k])
			if n.Prefix != "" {
				n.NotNull = true
			}
		}
	case ty == cty.Number:
		if rapid.Bool().Draw(t, "haslo") {
			n.HasLo = true
			d := int64(rapid.IntRange(0, 3).Draw(t, "dlo"))
			n.Lo = v.Subtract(cty.NumberIntVal(d))
			n.LoInc = d == 0 || rapid.Bool().Draw(t, "loinc") || n.Lo.Equals(v).True()
			n.NotNull = true
		}
		if rapid.Bool().Draw(t, "hashi") {
			n.HasHi = true
			d := int64(rapid.IntRange(0, 3).Draw(t, "dhi"))
			n.Hi = v.Add(cty.NumberIntVal(d))
			n.HiInc = d == 0 || rapid.Bool().Draw(t, "hiinc") || n.Hi.Equals(v).True()
			n.NotNull = true
		}
	case ty.IsListType() || ty.IsMapType() || ty.IsSetType():
		l := v.LengthInt()
		n.LenLo = l - rapid.IntRange(0, 2).Draw(t, "dlenlo")
		if n.LenLo < 0 {
			n.LenLo = 0
		}
		n.LenHi = l + rapid.IntRange(0, 2).Draw(t, "dlenhi")
		n.NotNull = true
	}
}

// Abstract returns the abstract value.
func (n *AbsNode) Abstract() cty.Value {
	v := n.Orig
	ty := v.Type()
	switch n.Kind {
	case AbsKeep:
		return v
	case AbsTyped:
		return cty.UnknownVal(ty)
	case AbsDynamic:
		return cty.DynamicVal
	case AbsRefined:
		if ty == cty.DynamicPseudoType {
			return cty.DynamicVal
		}
		b := cty.UnknownVal(ty).Refine()
		if n.NotNull {
			b = b.NotNull()
		}
		switch {
		case ty == cty.String && n.Prefix != "":
			b = b.StringPrefix(n.Prefix)
		case ty == cty.Number:
			if n.HasLo {
				b = b.NumberRangeLowerBound(n.Lo, n.LoInc)
			}
			if n.HasHi {
				b = b.NumberRangeUpperBound(n.Hi, n.HiInc)
			}
		case ty.IsListType() || ty.IsMapType() || ty.IsSetType():
			if !v.IsNull() {
				b = b.CollectionLengthLowerBound(n.LenLo).CollectionLengthUpperBound(n.LenHi)
			}
		}
		return b.NewValue()
	default:
		vals := make([]cty.Value, len(n.Elems))
		for i, e := range n.Elems {
			vals[i] = e.Abstract()
		}
		return rebuild(ty, n.Keys, vals)
	}
}

func rebuild(ty cty.Type, keys []cty.Value, vals []cty.Value) cty.Value {
	switch {
	case ty.IsListType():
		return cty.ListVal(vals)
	case ty.IsTupleType():
		return cty.TupleVal(vals)
	case ty.IsMapType():
		m := map[string]cty.Value{}
		for i, k := range keys {
			m[k.AsString()] = vals[i]
		}
		return cty.MapVal(m)
	default:
		m := map[string]cty.Value{}
		for i, k := range keys {
			m[k.AsString()] = vals[i]
		}
		return cty.ObjectVal(m)
	}
}

// Sample draws a fresh concrete value described by the abstraction: same type,
// same refinements, same known parts.
func (n *AbsNode) Sample(t *rapid.T) cty.Value {
	v := n.Orig
	ty := v.Type()
	vo := ValOpts{Nulls: 0}
	switch n.Kind {
	case AbsKeep:
		return v
	case AbsDynamic:
		// any value at all; mostly of the same type so that evaluation still succeeds
		if rapid.IntRange(0, 3).Draw(t, "othertype") == 0 {
			return drawValue(t, drawType(t, TypeOpts{Depth: 1, IdentOnly: true}, 1), ValOpts{Nulls: 8})
		}
		if rapid.IntRange(0, 5).Draw(t, "null") == 0 {
			return cty.NullVal(ty)
		}
		return sampleOfType(t, ty, v, vo)
	case AbsTyped:
		if rapid.IntRange(0, 5).Draw(t, "null") == 0 {
			return cty.NullVal(ty)
		}
		return sampleOfType(t, ty, v, vo)
	case AbsRefined:
		if !n.NotNull && rapid.IntRange(0, 3).Draw(t, "null") == 0 {
			return cty.NullVal(ty)
		}
		if v.IsNull() {
			// nothing else was promised
			return sampleOfType(t, ty, v, vo)
		}
		switch {
		case ty == cty.String:
			return cty.StringVal(n.Prefix + SimpleString().Draw(t, "suffix"))
		case ty == cty.Number:
			if !n.HasLo && !n.HasHi {
				return Number().Draw(t, "num")
			}
			// choose around the original value, then clamp into the promised range
			d := int64(rapid.IntRange(-4, 4).Draw(t, "dnum"))
			c := v.Add(cty.NumberIntVal(d))
			if rapid.IntRange(0, 3).Draw(t, "half") == 0 {
				c = c.Add(cty.NumberFloatVal(0.5))
			}
			if n.HasLo {
				if c.LessThan(n.Lo).True() || (!n.LoInc && c.Equals(n.Lo).True()) {
					c = v
				}
			}
			if n.HasHi {
				if c.GreaterThan(n.Hi).True() || (!n.HiInc && c.Equals(n.Hi).True()) {
					c = v
				}
			}
			return c
		case ty.IsListType() || ty.IsMapType() || ty.IsSetType():
			for tries := 0; tries < 4; tries++ {
				c := drawValue(t, ty, ValOpts{Nulls: 0, MaxWidth: n.LenHi})
				if l := c.LengthInt(); l >= n.LenLo && l <= n.LenHi {
					return c
				}
			}
			return v
		}
		return sampleOfType(t, ty, v, vo)
	default:
		vals := make([]cty.Value, len(n.Elems))
		for i, e := range n.Elems {
			vals[i] = e.Sample(t)
		}
		return rebuild(ty, n.Keys, vals)
	}
}

func sampleOfType(t *rapid.T, ty cty.Type, orig cty.Value, vo ValOpts) cty.Value {
	if ty == cty.DynamicPseudoType {
		return orig
	}
	if rapid.IntRange(0, 3).Draw(t, "sameval") == 0 {
		return orig
	}
	return drawValue(t, ty, vo)
}

var _ = big.NewFloat

// DrawPoolRefinement abstracts v as an unknown whose refinements use bounds from a small
// pool of numbers, so that bounds of different values (and literals) coincide often -
// the region in which refinement merging (conditionals, comparisons) must get
// inclusivity and ordering exactly right.
func DrawPoolRefinement(t *rapid.T, v cty.Value, pool []cty.Value) *AbsNode {
	n := &AbsNode{Orig: v, Kind: AbsRefined}
	ty := v.Type()
	if v.IsNull() || rapid.IntRange(0, 5).Draw(t, "typed_only") == 0 {
		n.Kind = AbsTyped
		return n
	}
	n.NotNull = rapid.IntRange(0, 3).Draw(t, "notnull") > 0
	switch {
	case ty == cty.Number:
		var los, his []cty.Value
		for _, p := range pool {
			if p.LessThanOrEqualTo(v).True() {
				los = append(los, p)
			}
			if p.GreaterThanOrEqualTo(v).True() {
				his = append(his, p)
			}
		}
		if len(los) > 0 && rapid.IntRange(0, 3).Draw(t, "haslo") > 0 {
			n.HasLo, n.NotNull = true, true
			n.Lo = rapid.SampledFrom(los).Draw(t, "lo")
			n.LoInc = n.Lo.Equals(v).True() || rapid.Bool().Draw(t, "loinc")
		}
		if len(his) > 0 && rapid.IntRange(0, 3).Draw(t, "hashi") > 0 {
			n.HasHi, n.NotNull = true, true
			n.Hi = rapid.SampledFrom(his).Draw(t, "hi")
			n.HiInc = n.Hi.Equals(v).True() || rapid.Bool().Draw(t, "hiinc")
		}
	case ty == cty.String:
		s := []rune(v.AsString())
		k := rapid.IntRange(0, len(s)).Draw(t, "prefixlen")
		n.Prefix = string(s[:k])
		if n.Prefix != "" {
			n.NotNull = true
		}
	case ty.IsListType() || ty.IsMapType() || ty.IsSetType():
		l := v.LengthInt()
		n.LenLo = rapid.IntRange(0, l).Draw(t, "lenlo")
		n.LenHi = l + rapid.IntRange(0, 2).Draw(t, "dlenhi")
		n.NotNull = true
	}
	return n
}
