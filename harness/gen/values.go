// Package gen holds the shared rapid generators (values, types, scopes,
// expression ASTs, templates, bodies, schemas, specs).
package gen

import (
	"strings"

	"github.com/zclconf/go-cty/cty"
	"pgregory.net/rapid"
)

// ---------------------------------------------------------------------------
// strings

// StrPieces is the escape-relevant alphabet (DESIGN §1 G-VAL).
var StrPieces = []string{
	"a", "b", "z", "foo", "bar", "A", "_", "x1",
	" ", "  ", "\n", "\r\n", "\r", "\t",
	"\"", "\\", "\\n", "\\\"", "$", "%", "{", "}", "~", "${", "%{", "$${", "%%{", "$$", "%%", "${~", "~}", "$${~",
	"\x00", "\x01", "\x07", "\x1b", "\x7f", "\u0085", "\u2028", "\u00a0", "\ufeff", "\u3000",
	"\u00e9", "e\u0301", "\u00fc", "\u00df", "\u65e5\u672c", "\U0001F600", "\U0001F468\u200d\U0001F469", "\u0301",
	// non-printable code points beyond the BMP (private use planes 15 / 16, tags, the last code points)
	"\U0010FFFD", "\U00100000", "\U0010FFFF", "\U000F0000", "\U000E0001", "\U0001FFFE", "\uFFFE", "\uE000",
	"for", "in", "if", "else", "endif", "endfor", "null", "true", "false",
	"0", "1", "12", "-", "-1", ".", "1.5", "*", "#", "//", "/*", "*/", "<<EOT", "EOT", "<<-", "'", "`", ";", ":", "=", "=>", "...", ",", "(", ")", "[", "]", "?", "&&", "||", "!",
}

// SimplePieces is a quieter alphabet for places where strings are not the subject.
var SimplePieces = []string{"a", "b", "c", "foo", "bar", "x", " ", "-", "_", "1", "\u00e9", "$", "%", "{"}

func stringFrom(pieces []string, max int) *rapid.Generator[string] {
	return rapid.Custom(func(t *rapid.T) string {
		n := rapid.IntRange(0, max).Draw(t, "npieces")
		var sb strings.Builder
		for i := 0; i < n; i++ {
			sb.WriteString(rapid.SampledFrom(pieces).Draw(t, "piece"))
		}
		return sb.String()
	})
}

// HostileString draws from the full escape-relevant alphabet.
func HostileString() *rapid.Generator[string] { return stringFrom(StrPieces, 6) }

// SimpleString draws short mostly-plain strings.
func SimpleString() *rapid.Generator[string] { return stringFrom(SimplePieces, 3) }

// ---------------------------------------------------------------------------
// numbers

var numTexts = []string{
	"0", "1", "2", "3", "5", "7", "10", "12", "42", "100", "255", "1000",
	"-1", "-2", "-7", "-100",
	"0.5", "1.5", "2.25", "-0.5", "3.14159", "0.1", "0.001", "1e3", "1.5e3", "2e-3", "1E+2",
	"18446744073709551616", "18446744073709551615", "9007199254740993", "340282366920938463463374607431768211456",
	"1234567890123456789012345678901234567890", "0.1234567890123456789012345678901234567891",
	"1e300", "1.7976931348623157e308", "1e-300", "-1e300", "123456789.123456789123456789",
}

// NumberText draws the decimal text of a finite number (exponent magnitude ≤ 3 digits).
func NumberText() *rapid.Generator[string] {
	return rapid.Custom(func(t *rapid.T) string {
		switch rapid.IntRange(0, 9).Draw(t, "numkind") {
		case 0, 1, 2, 3:
			return rapid.SampledFrom(numTexts).Draw(t, "numtext")
		case 4, 5, 6:
			return itoa(rapid.IntRange(-2, 6).Draw(t, "smallint"))
		case 7:
			return itoa(rapid.IntRange(-1000000, 1000000).Draw(t, "int"))
		case 8:
			// fraction
			return itoa(rapid.IntRange(-99, 99).Draw(t, "ipart")) + "." + digits(t, 1, 6)
		default:
			// long mantissa with exponent
			s := digits(t, 1, 30)
			s = strings.TrimLeft(s, "0")
			if s == "" {
				s = "7"
			}
			if rapid.Bool().Draw(t, "frac") {
				s += "." + digits(t, 1, 20)
			}
			if rapid.Bool().Draw(t, "exp") {
				s += "e" + itoa(rapid.IntRange(-300, 300).Draw(t, "e"))
			}
			if rapid.Bool().Draw(t, "neg") {
				s = "-" + s
			}
			return s
		}
	})
}

func digits(t *rapid.T, min, max int) string {
	n := rapid.IntRange(min, max).Draw(t, "ndigits")
	b := make([]byte, n)
	for i := range b {
		b[i] = byte('0' + rapid.IntRange(0, 9).Draw(t, "d"))
	}
	return string(b)
}

func itoa(i int) string {
	neg := i < 0
	if neg {
		i = -i
	}
	if i == 0 {
		return "0"
	}
	var b []byte
	for i > 0 {
		b = append([]byte{byte('0' + i%10)}, b...)
		i /= 10
	}
	if neg {
		return "-" + string(b)
	}
	return string(b)
}

// Number draws a finite cty number.
func Number() *rapid.Generator[cty.Value] {
	return rapid.Custom(func(t *rapid.T) cty.Value {
		txt := NumberText().Draw(t, "num")
		v, err := cty.ParseNumberVal(txt)
		if err != nil {
			return cty.NumberIntVal(1)
		}
		return v
	})
}

// ---------------------------------------------------------------------------
// types

// AttrNames is the pool of object attribute names (identifier-shaped, incl. keywords).
var AttrNames = []string{"a", "b", "c", "id", "name", "foo", "for", "in", "if", "null", "true", "false", "x-y", "k_1"}

// KeyPool is the pool of map keys / non-identifier object keys.
var KeyPool = []string{"a", "b", "c", "k", "for", "in", "if", "null", "true", "0", "1", "01", "-1", "", " ", "a b", "a.b", "x-y", "\u00e9", "${", "%{", "\"", "\n", "1.5", "\u65e5\u672c",
	// the boundary of "identifier": characters on which Unicode versions and category
	// tables disagree (letters added after Unicode 9, Other_ID_Start/Continue, digits and
	// marks in first position, letter-like numbers)
	"\u1c93\u1c90", "\u0560x", "a\u1c90", "\U00010d20", "a\U0001e140", "\u2118", "a\u00b7b", "\u0663", "a\u0663", "\u00aa", "\u2170", "\u03a9", "_a", "a-", "-a", "9a", "a\u0301", "\u0301a", "\ua7af", "\U0001f600a"}

// TypeOpts controls type generation.
type TypeOpts struct {
	Depth     int
	AllowAny  bool // cty.DynamicPseudoType may appear
	IdentOnly bool // object attribute names are identifiers
	NoSet     bool
}

// Type draws a cty type.
func Type(o TypeOpts) *rapid.Generator[cty.Type] {
	return rapid.Custom(func(t *rapid.T) cty.Type { return drawType(t, o, o.Depth) })
}

func drawType(t *rapid.T, o TypeOpts, depth int) cty.Type {
	max := 9
	if depth <= 0 {
		max = 3
	}
	k := rapid.IntRange(0, max).Draw(t, "tykind")
	switch k {
	case 0:
		return cty.String
	case 1:
		return cty.Number
	case 2:
		return cty.Bool
	case 3:
		if o.AllowAny && rapid.IntRange(0, 2).Draw(t, "any") == 0 {
			return cty.DynamicPseudoType
		}
		return cty.String
	case 4:
		return cty.List(drawType(t, o, depth-1))
	case 5:
		if o.NoSet {
			return cty.List(drawType(t, o, depth-1))
		}
		return cty.Set(drawType(t, o, depth-1))
	case 6:
		return cty.Map(drawType(t, o, depth-1))
	case 7:
		n := rapid.IntRange(0, 3).Draw(t, "ntuple")
		etys := make([]cty.Type, n)
		for i := range etys {
			etys[i] = drawType(t, o, depth-1)
		}
		return cty.Tuple(etys)
	default:
		n := rapid.IntRange(0, 3).Draw(t, "nattr")
		atys := map[string]cty.Type{}
		for i := 0; i < n; i++ {
			var name string
			if o.IdentOnly || rapid.IntRange(0, 3).Draw(t, "identname") > 0 {
				name = rapid.SampledFrom(AttrNames).Draw(t, "attrname")
			} else {
				name = rapid.SampledFrom(KeyPool).Draw(t, "attrkey")
			}
			atys[name] = drawType(t, o, depth-1)
		}
		return cty.Object(atys)
	}
}

// ---------------------------------------------------------------------------
// values

// ValOpts controls value generation.
type ValOpts struct {
	Nulls    int  // 0 = never; otherwise 1-in-N leaves/containers are null
	Hostile  bool // strings from the hostile alphabet
	MaxWidth int
}

// ValueOf draws a wholly-known value of exactly the given type (ty must not contain `any`
// except at positions where a null is acceptable).
func ValueOf(ty cty.Type, o ValOpts) *rapid.Generator[cty.Value] {
	return rapid.Custom(func(t *rapid.T) cty.Value { return drawValue(t, ty, o) })
}

func drawValue(t *rapid.T, ty cty.Type, o ValOpts) cty.Value {
	w := o.MaxWidth
	if w == 0 {
		w = 3
	}
	if o.Nulls > 0 && rapid.IntRange(0, o.Nulls-1).Draw(t, "null") == 0 {
		return cty.NullVal(ty)
	}
	switch {
	case ty == cty.DynamicPseudoType:
		// a known value never has the dynamic type unless it is null; pick a concrete type instead
		return drawValue(t, drawType(t, TypeOpts{Depth: 1, IdentOnly: true}, 1), o)
	case ty == cty.String:
		if o.Hostile {
			return cty.StringVal(HostileString().Draw(t, "str"))
		}
		if rapid.IntRange(0, 2).Draw(t, "keyish") == 0 {
			// strings that are likely to be keys of generated objects/maps
			return cty.StringVal(rapid.SampledFrom([]string{"a", "b", "foo", "id", "name", "0", "1"}).Draw(t, "keystr"))
		}
		return cty.StringVal(SimpleString().Draw(t, "str"))
	case ty == cty.Number:
		return Number().Draw(t, "num")
	case ty == cty.Bool:
		return cty.BoolVal(rapid.Bool().Draw(t, "bool"))
	case ty.IsListType():
		n := rapid.IntRange(0, w).Draw(t, "len")
		if n == 0 {
			return cty.ListValEmpty(ty.ElementType())
		}
		vs := make([]cty.Value, n)
		for i := range vs {
			vs[i] = drawValue(t, ty.ElementType(), o)
		}
		return cty.ListVal(vs)
	case ty.IsSetType():
		n := rapid.IntRange(0, w).Draw(t, "len")
		if n == 0 {
			return cty.SetValEmpty(ty.ElementType())
		}
		vs := make([]cty.Value, n)
		for i := range vs {
			vs[i] = drawValue(t, ty.ElementType(), o)
		}
		return cty.SetVal(vs)
	case ty.IsMapType():
		n := rapid.IntRange(0, w).Draw(t, "len")
		if n == 0 {
			return cty.MapValEmpty(ty.ElementType())
		}
		vs := map[string]cty.Value{}
		for i := 0; i < n; i++ {
			k := rapid.SampledFrom(KeyPool).Draw(t, "mapkey")
			vs[cty.StringVal(k).AsString()] = drawValue(t, ty.ElementType(), o)
		}
		return cty.MapVal(vs)
	case ty.IsTupleType():
		etys := ty.TupleElementTypes()
		vs := make([]cty.Value, len(etys))
		for i := range vs {
			vs[i] = drawValue(t, etys[i], o)
		}
		return cty.TupleVal(vs)
	case ty.IsObjectType():
		vs := map[string]cty.Value{}
		for name, aty := range sortedAttrs(ty) {
			_ = name
			vs[aty.name] = drawValue(t, aty.ty, o)
		}
		return cty.ObjectVal(vs)
	}
	return cty.NullVal(ty)
}

type attrTy struct {
	name string
	ty   cty.Type
}

func sortedAttrs(ty cty.Type) []attrTy {
	m := ty.AttributeTypes()
	names := make([]string, 0, len(m))
	for n := range m {
		names = append(names, n)
	}
	sortStrings(names)
	out := make([]attrTy, len(names))
	for i, n := range names {
		out[i] = attrTy{n, m[n]}
	}
	return out
}

func sortStrings(s []string) {
	for i := 1; i < len(s); i++ {
		for j := i; j > 0 && s[j] < s[j-1]; j-- {
			s[j], s[j-1] = s[j-1], s[j]
		}
	}
}

// Value draws a type and then a value of it.
func Value(to TypeOpts, vo ValOpts) *rapid.Generator[cty.Value] {
	return rapid.Custom(func(t *rapid.T) cty.Value {
		ty := drawType(t, to, to.Depth)
		return drawValue(t, ty, vo)
	})
}
