// Package hx is the glue between rapid properties and the /verif driver:
// per-subcheck statistics (evaluations, class histogram, distinct non-trivial
// cases, samples), replay-file writing on failure, and the read-only
// known-findings list.
package hx

import (
	"encoding/json"
	"flag"
	"fmt"
	"hash/fnv"
	"os"
	"path/filepath"
	"runtime/debug"
	"sort"
	"strconv"
	"strings"
	"sync"
	"testing"
	"unicode/utf8"

	"pgregory.net/rapid"
)

// ---------------------------------------------------------------------------
// statistics

type sample struct {
	h    uint64
	Text any `json:"case"`
}

// Sub holds the counters of one sub-check of one property.
type Sub struct {
	mu          sync.Mutex
	Prop, Name  string
	Evaluations int
	Nontrivial  int
	distinct    map[uint64]struct{}
	Classes     map[string]int
	Unspecified map[string]int
	KnownHits   map[string]int
	first       []any
	low         []sample // the K samples with the smallest fingerprint hash (a deterministic "random" sample)
	Rule        string
	Base        int
}

var (
	subsMu sync.Mutex
	subs   = map[string]*Sub{}
)

func getSub(prop, name string) *Sub {
	subsMu.Lock()
	defer subsMu.Unlock()
	k := prop + "/" + name
	s := subs[k]
	if s == nil {
		s = &Sub{Prop: prop, Name: name, distinct: map[uint64]struct{}{}, Classes: map[string]int{}, Unspecified: map[string]int{}, KnownHits: map[string]int{}}
		subs[k] = s
	}
	return s
}

func hash64(s string) uint64 {
	h := fnv.New64a()
	h.Write([]byte(s))
	return h.Sum64()
}

const keepLow = 6
const keepFirst = 3

// Case is the per-execution handle given to a property.
type Case struct {
	T        *rapid.T
	TB       testing.TB // set instead of T in raw-byte fuzz targets
	sub      *Sub
	data     map[string]any
	order    []string
	classes  []string
	finished bool
}

// Set records a named part of the current case (source text, scope, ...). It is
// what ends up in the replay file and in evidence samples.
func (c *Case) Set(k string, v any) {
	if _, ok := c.data[k]; !ok {
		c.order = append(c.order, k)
	}
	c.data[k] = v
}

// SetBytes records a byte string that may not be valid UTF-8 (stored Go-quoted).
func (c *Case) SetBytes(k string, b []byte) {
	if utf8.Valid(b) {
		c.Set(k, string(b))
		return
	}
	c.Set(k+"_goquoted", strconv.Quote(string(b)))
}

// Class bumps a histogram class for this case (counted when the case ends).
func (c *Case) Class(names ...string) { c.classes = append(c.classes, names...) }

// Unspecified counts a case that the oracle declined to judge, by rule.
func (c *Case) Unspecified(rule string) {
	c.sub.mu.Lock()
	c.sub.Unspecified[rule]++
	c.sub.mu.Unlock()
}

func (c *Case) snapshot() map[string]any {
	m := map[string]any{}
	for _, k := range c.order {
		m[k] = c.data[k]
	}
	return m
}

// Done ends the case. nontrivial is the property's stated non-triviality rule
// evaluated on this case; fingerprint identifies the case for distinctness.
func (c *Case) Done(nontrivial bool, fingerprint string) {
	if c.finished {
		return
	}
	c.finished = true
	s := c.sub
	s.mu.Lock()
	defer s.mu.Unlock()
	s.Evaluations++
	for _, cl := range c.classes {
		s.Classes[cl]++
	}
	if !nontrivial {
		return
	}
	s.Nontrivial++
	h := hash64(fingerprint)
	if _, seen := s.distinct[h]; seen {
		return
	}
	s.distinct[h] = struct{}{}
	if len(s.first) < keepFirst {
		s.first = append(s.first, c.snapshot())
		return
	}
	if len(s.low) < keepLow || h < s.low[len(s.low)-1].h {
		s.low = append(s.low, sample{h, c.snapshot()})
		sort.Slice(s.low, func(i, j int) bool { return s.low[i].h < s.low[j].h })
		if len(s.low) > keepLow {
			s.low = s.low[:keepLow]
		}
	}
}

// ---------------------------------------------------------------------------
// known findings (read-only at run time)

type Finding struct {
	Property string `json:"property"`
	Key      string `json:"key"`
	Status   string `json:"status"` // "known" or "fixed"
	What     string `json:"what"`
	Commit   string `json:"commit,omitempty"`
}

var (
	knownOnce sync.Once
	known     map[string]Finding
)

func loadKnown() {
	known = map[string]Finding{}
	p := os.Getenv("VERIF_KNOWN")
	if p == "" {
		p = "/verif/known_findings.json"
	}
	b, err := os.ReadFile(p)
	if err != nil {
		return
	}
	var doc struct {
		Findings []Finding `json:"findings"`
	}
	if json.Unmarshal(b, &doc) != nil {
		return
	}
	for _, f := range doc.Findings {
		known[f.Property+"/"+f.Key] = f
	}
}

// Known reports whether the finding `key` of this case's property is listed
// with status "known" (a "fixed" entry suppresses nothing). It counts the hit.
func (c *Case) Known(key string) bool {
	knownOnce.Do(loadKnown)
	f, ok := known[c.sub.Prop+"/"+key]
	if !ok || f.Status != "known" {
		return false
	}
	c.sub.mu.Lock()
	c.sub.KnownHits[key]++
	c.sub.mu.Unlock()
	return true
}

// KnownPanic maps a panic (by a substring of its stack) to a known-finding key.
type KnownPanic struct {
	StackContains string
	Key           string
	Owner         string // the property that lists the finding
}

// KnownPanics is consulted by Guard.
var KnownPanics = []KnownPanic{}

func knownAnyProp(key string) bool {
	knownOnce.Do(loadKnown)
	for _, f := range known {
		if f.Key == key && f.Status == "known" {
			return true
		}
	}
	return false
}

// IsKnown is Known without a case (used by generators that exclude a known
// defect by construction).
func IsKnown(prop, key string) bool {
	knownOnce.Do(loadKnown)
	f, ok := known[prop+"/"+key]
	return ok && f.Status == "known"
}

// ---------------------------------------------------------------------------
// failure reporting

var failMu sync.Mutex

// Failf records a violation: it (over)writes the replay file for this
// sub-check, so that after shrinking the file holds the minimal case, and
// fails the rapid run. sig is a short stable signature of the failure kind.
func (c *Case) Failf(sig string, format string, args ...any) {
	msg := fmt.Sprintf(format, args...)
	failMu.Lock()
	dir := os.Getenv("VERIF_REPLAY_DIR")
	if dir != "" {
		doc := map[string]any{
			"property": c.sub.Prop,
			"subcheck": c.sub.Name,
			"test":     testName(c.sub.Prop, c.sub.Name),
			"sig":      sig,
			"message":  msg,
			"case":     c.snapshot(),
		}
		b, _ := json.MarshalIndent(doc, "", "  ")
		_ = os.MkdirAll(dir, 0o755)
		_ = os.WriteFile(filepath.Join(dir, c.sub.Prop+"-"+c.sub.Name+".json"), b, 0o644)
	}
	failMu.Unlock()
	if c.T == nil {
		c.TB.Fatalf("VIOLATION[%s/%s sig=%s]: %s\ncase: %s", c.sub.Prop, c.sub.Name, sig, msg, compact(c.snapshot()))
	}
	c.T.Fatalf("VIOLATION[%s/%s sig=%s]: %s\ncase: %s", c.sub.Prop, c.sub.Name, sig, msg, compact(c.snapshot()))
}

func compact(v any) string {
	b, _ := json.Marshal(v)
	if len(b) > 4000 {
		b = append(b[:4000], "..."...)
	}
	return string(b)
}

// Guard runs f and turns a panic into a violation that carries the case.
func (c *Case) Guard(what string, f func()) {
	defer func() {
		if r := recover(); r != nil {
			if isRapidControl(r) {
				panic(r)
			}
			st := string(debug.Stack())
			for _, kp := range KnownPanics {
				if strings.Contains(st, kp.StackContains) && knownAnyProp(kp.Key) {
					// a panic that is a listed known finding (owned by the totality property):
					// the case cannot be judged; it is counted and discarded
					c.sub.mu.Lock()
					c.sub.KnownHits[kp.Key]++
					c.sub.mu.Unlock()
					if c.sub.Prop == kp.Owner && !c.Known(kp.Key) {
						break
					}
					c.finished = true
					if c.T == nil {
						c.TB.Skip("known panic: " + kp.Key)
					}
					c.T.Skip("known panic: " + kp.Key)
				}
			}
			c.Set("panic_stack", trimStack(st))
			c.Failf("panic:"+what, "panic in %s: %v", what, r)
		}
	}()
	f()
}

func isRapidControl(r any) bool {
	// rapid uses panics of unexported types for Fatalf/Skip/invalid data.
	s := fmt.Sprintf("%T", r)
	return strings.HasPrefix(s, "rapid.") || strings.HasPrefix(s, "*rapid.")
}

func trimStack(s string) string {
	lines := strings.Split(s, "\n")
	var out []string
	for _, l := range lines {
		if strings.Contains(l, "/repo/") || strings.Contains(l, "hashicorp/hcl") || strings.Contains(l, "go-cty") {
			out = append(out, strings.TrimSpace(l))
		}
		if len(out) >= 16 {
			break
		}
	}
	return strings.Join(out, " | ")
}

// ---------------------------------------------------------------------------
// running

func testName(prop, sub string) string { return "Test" + prop + "_" + sub }

func mult() float64 {
	if s := os.Getenv("VERIF_CHECKS_MULT"); s != "" {
		if f, err := strconv.ParseFloat(s, 64); err == nil && f > 0 {
			return f
		}
	}
	return 1
}

// Run executes one rapid property as sub-check `sub` of `prop`, with `base`
// cases in the quick tier (scaled by VERIF_CHECKS_MULT).
func Run(t *testing.T, prop, sub string, base int, rule string, body func(c *Case)) {
	t.Helper()
	if testName(prop, sub) != t.Name() {
		t.Fatalf("hx.Run: test %s must be named %s", t.Name(), testName(prop, sub))
	}
	s := getSub(prop, sub)
	s.Rule = rule
	n := int(float64(base) * mult())
	if n < 1 {
		n = 1
	}
	s.Base = n
	_ = flag.Set("rapid.checks", strconv.Itoa(n))
	rapid.Check(t, func(rt *rapid.T) {
		c := &Case{T: rt, sub: s, data: map[string]any{}}
		body(c)
		if !c.finished {
			c.Done(false, "")
		}
	})
}

// Fuzz registers the same property body as a native fuzz target: the fuzzer's bytes drive
// rapid's generators (rapid.MakeFuzz), so coverage feedback steers the structured
// generators and the oracle stays inside the target. Statistics of fuzz workers are not
// collected; a failure is saved by `go test -fuzz` under testdata/fuzz/<target>/.
func Fuzz(f *testing.F, prop, sub string, body func(c *Case)) {
	s := getSub(prop, "fuzz_"+sub)
	f.Fuzz(rapid.MakeFuzz(func(rt *rapid.T) {
		c := &Case{T: rt, sub: s, data: map[string]any{}}
		body(c)
		if !c.finished {
			c.Done(false, "")
		}
	}))
}

// FuzzBytes registers a raw-byte fuzz target: the fuzzer's bytes are the input itself
// (seeded with the given corpus) and body holds the oracle.
func FuzzBytes(f *testing.F, prop, sub string, seeds []string, body func(c *Case, data []byte)) {
	s := getSub(prop, "fuzzraw_"+sub)
	for _, sd := range seeds {
		f.Add([]byte(sd))
	}
	f.Fuzz(func(t *testing.T, data []byte) {
		if len(data) > 4096 {
			return
		}
		c := &Case{TB: t, sub: s, data: map[string]any{}}
		body(c, data)
	})
}

// Flush writes all statistics to $VERIF_STATS (JSON); called from TestMain.
func Flush() {
	p := os.Getenv("VERIF_STATS")
	if p == "" {
		return
	}
	type outSub struct {
		Prop        string         `json:"property"`
		Name        string         `json:"subcheck"`
		Requested   int            `json:"requested"`
		Evaluations int            `json:"evaluations"`
		Nontrivial  int            `json:"nontrivial"`
		Distinct    []uint64       `json:"distinct_hashes"`
		Classes     map[string]int `json:"classes"`
		Unspecified map[string]int `json:"unspecified"`
		KnownHits   map[string]int `json:"known_hits"`
		Samples     []any          `json:"samples"`
		Rule        string         `json:"rule"`
	}
	var out []outSub
	subsMu.Lock()
	keys := make([]string, 0, len(subs))
	for k := range subs {
		keys = append(keys, k)
	}
	sort.Strings(keys)
	for _, k := range keys {
		s := subs[k]
		o := outSub{Prop: s.Prop, Name: s.Name, Requested: s.Base, Evaluations: s.Evaluations, Nontrivial: s.Nontrivial,
			Classes: s.Classes, Unspecified: s.Unspecified, KnownHits: s.KnownHits, Rule: s.Rule}
		for h := range s.distinct {
			o.Distinct = append(o.Distinct, h)
		}
		sort.Slice(o.Distinct, func(i, j int) bool { return o.Distinct[i] < o.Distinct[j] })
		o.Samples = append(o.Samples, s.first...)
		for _, sm := range s.low {
			o.Samples = append(o.Samples, sm.Text)
		}
		out = append(out, o)
	}
	subsMu.Unlock()
	b, _ := json.Marshal(out)
	_ = os.WriteFile(p, b, 0o644)
}
