// Package ref holds the reference models. This file is the reference
// interpreter for the expression and template languages, written from
// hclsyntax/spec.md and spec.md. It works on the harness AST only and never
// imports hashicorp/hcl (go-cty is the trusted base).
package ref

import (
	"regexp"
	"sort"
	"strings"
	"unicode"

	"github.com/zclconf/go-cty/cty"
	"github.com/zclconf/go-cty/cty/convert"

	"verifharness/ast"
	"verifharness/funcs"
)

// Result is the reference verdict for one expression.
type Result struct {
	V cty.Value
	// Err: the specification makes the expression erroneous.
	Err bool
	// Unspec != "": the specification does not determine the outcome (rule id).
	Unspec string
	// Loose: the value is determined but its exact type is not (a conditional whose
	// unselected branch is erroneous); compared after conversion.
	Loose bool
	// CondTypeErrOK: the implementation may alternatively report that the two
	// branches of that conditional have inconsistent types.
	CondTypeErrOK bool
	// Note names the rule that made the expression erroneous when that rule is one a
	// known finding is keyed on (it travels with the error to the root).
	Note string
}

func val(v cty.Value) Result    { return Result{V: v} }
func errR() Result              { return Result{Err: true} }
func unspec(rule string) Result { return Result{Unspec: rule} }
func (r Result) bad() bool      { return r.Err || r.Unspec != "" }
func (r Result) isVal() bool    { return !r.bad() }

// Env is a chain of variable scopes.
type Env struct {
	Vars   map[string]cty.Value
	Parent *Env
	notes  *[]string
}

// NewEnv returns a root scope.
func NewEnv(vars map[string]cty.Value) *Env {
	return &Env{Vars: vars, notes: new([]string)}
}

// note records that the evaluation passed through a spot a known finding is keyed on.
func (e *Env) note(s string) {
	for r := e; r != nil; r = r.Parent {
		if r.notes != nil {
			*r.notes = append(*r.notes, s)
			return
		}
	}
}

// Notes lists the recorded spots.
func (e *Env) Notes() []string {
	if e.notes == nil {
		return nil
	}
	return *e.notes
}

func (e *Env) lookup(name string) (cty.Value, bool) {
	for s := e; s != nil; s = s.Parent {
		if v, ok := s.Vars[name]; ok {
			return v, true
		}
	}
	return cty.NilVal, false
}

func (e *Env) child(vars map[string]cty.Value) *Env { return &Env{Vars: vars, Parent: e} }

// merge combines sub-results for an operation that needs all of them:
// unspecified wins over error (we cannot know which error is reported, but we do
// know there is one only if nothing unspecified is involved), error over value.
// A loose operand makes the operation's outcome unspecified (rule U9).
func merge(rs ...Result) (Result, bool) {
	for _, r := range rs {
		if r.Unspec != "" {
			return r, false
		}
	}
	for _, r := range rs {
		if r.Err {
			return Result{Err: true, Note: r.Note}, false
		}
	}
	for _, r := range rs {
		if r.Loose {
			return unspec("U9-loose-operand"), false
		}
	}
	return Result{}, true
}

// Eval evaluates an expression.
func Eval(n ast.Node, env *Env) Result {
	switch x := n.(type) {
	case ast.Num:
		v, err := cty.ParseNumberVal(x.Text)
		if err != nil {
			return errR()
		}
		return val(v)
	case ast.Bool:
		return val(cty.BoolVal(x.V))
	case ast.Null:
		return val(cty.NullVal(cty.DynamicPseudoType))
	case ast.Var:
		v, ok := env.lookup(x.Name)
		if !ok {
			return errR()
		}
		return val(v)
	case ast.Paren:
		return Eval(x.X, env)
	case ast.Exact:
		return Eval(x.X, env)
	case ast.Tuple:
		rs := make([]Result, len(x.Elems))
		for i, e := range x.Elems {
			rs[i] = Eval(e, env)
		}
		if bad, ok := merge(rs...); !ok {
			return bad
		}
		vs := make([]cty.Value, len(rs))
		for i := range rs {
			vs[i] = rs[i].V
		}
		return val(cty.TupleVal(vs))
	case ast.Object:
		return evalObject(x, env)
	case ast.Call:
		return evalCall(x, env)
	case ast.For:
		return evalFor(x, env)
	case ast.Index:
		c := Eval(x.Coll, env)
		k := Eval(x.Key, env)
		if bad, ok := merge(c, k); !ok {
			return bad
		}
		return index(c.V, k.V)
	case ast.LegacyIndex:
		c := Eval(x.Coll, env)
		if bad, ok := merge(c); !ok {
			return bad
		}
		return index(c.V, cty.NumberIntVal(int64(x.N)))
	case ast.GetAttr:
		o := Eval(x.Obj, env)
		if bad, ok := merge(o); !ok {
			return bad
		}
		return getAttr(o.V, x.Name)
	case ast.Splat:
		return evalSplat(x, env)
	case ast.Unary:
		return evalUnary(x, env)
	case ast.Binary:
		return evalBinary(x, env)
	case ast.Cond:
		return evalCond(x, env)
	case ast.Template:
		return evalTemplate(x.Parts, x.Form, env)
	}
	return unspec("unknown-node")
}

// ---------------------------------------------------------------------------

func toStringKey(k cty.Value) (string, bool) {
	if k.IsNull() {
		return "", false
	}
	s, err := convert.Convert(k, cty.String)
	if err != nil || s.IsNull() {
		return "", false
	}
	return s.AsString(), true
}

func evalObject(x ast.Object, env *Env) Result {
	type kv struct {
		k string
		v cty.Value
	}
	var rs []Result
	var keys []string
	anyBadKey := false
	for _, it := range x.Items {
		v := Eval(it.Val, env)
		rs = append(rs, v)
		switch it.Kind {
		case ast.KeyIdent:
			keys = append(keys, it.Name)
		default:
			if it.Kind == ast.KeyExpr {
				switch it.Key.(type) {
				case ast.Var, ast.Bool, ast.Null, ast.GetAttr, ast.Index, ast.LegacyIndex:
					// a bare keyword / traversal in key position: the spec only defines identifiers
					return unspec("U-object-key-keyword-or-traversal")
				}
			}
			k := Eval(it.Key, env)
			rs = append(rs, k)
			if k.isVal() {
				ks, ok := toStringKey(k.V)
				if !ok {
					anyBadKey = true
				}
				keys = append(keys, ks)
			} else {
				keys = append(keys, "")
			}
		}
	}
	if bad, ok := merge(rs...); !ok {
		return bad
	}
	if anyBadKey {
		return errR()
	}
	seen := map[string]bool{}
	for _, k := range keys {
		if seen[k] {
			return unspec("U1-duplicate-object-constructor-key")
		}
		seen[k] = true
	}
	m := map[string]cty.Value{}
	vi := 0
	for i, it := range x.Items {
		m[keys[i]] = rs[vi].V
		vi++
		if it.Kind != ast.KeyIdent {
			vi++
		}
	}
	return val(cty.ObjectVal(m))
}

// ---------------------------------------------------------------------------

func evalCall(x ast.Call, env *Env) Result {
	def, ok := funcs.ByName[x.Name]
	rs := make([]Result, len(x.Args))
	for i, a := range x.Args {
		rs[i] = Eval(a, env)
	}
	// unspecified anywhere wins; a missing function is an error whatever the arguments are
	for _, r := range rs {
		if r.Unspec != "" {
			return r
		}
	}
	if !ok {
		return errR()
	}
	if bad, ok := merge(rs...); !ok {
		return bad
	}
	args := make([]cty.Value, 0, len(rs))
	for _, r := range rs {
		args = append(args, r.V)
	}
	if x.Expand {
		if len(args) == 0 {
			return errR()
		}
		last := args[len(args)-1]
		args = args[:len(args)-1]
		ty := last.Type()
		if last.IsNull() {
			return errR()
		}
		// spec: list or tuple; decided D5: a set too
		if !(ty.IsListType() || ty.IsTupleType() || ty.IsSetType()) {
			return errR()
		}
		for it := last.ElementIterator(); it.Next(); {
			_, ev := it.Element()
			args = append(args, ev)
		}
	}
	if len(args) < len(def.Params) {
		return errR()
	}
	if def.VarParam == nil && len(args) > len(def.Params) {
		return errR()
	}
	conv := make([]cty.Value, len(args))
	for i, a := range args {
		var p funcs.Param
		if i < len(def.Params) {
			p = def.Params[i]
		} else {
			p = *def.VarParam
		}
		cv, err := convert.Convert(a, p.Type)
		if err != nil {
			return errR()
		}
		if cv.IsNull() && !p.AllowNull {
			return errR()
		}
		conv[i] = cv
	}
	rt, err := def.RetType(conv)
	if err != nil {
		return errR()
	}
	out, err := def.Impl(conv, rt)
	if err != nil {
		return errR()
	}
	return val(out)
}

// ---------------------------------------------------------------------------

type elem struct{ k, v cty.Value }

// iterate lists the elements of an iterable value in the specified visit order.
func iterate(coll cty.Value) ([]elem, bool) {
	ty := coll.Type()
	if !(ty.IsListType() || ty.IsSetType() || ty.IsMapType() || ty.IsTupleType() || ty.IsObjectType()) {
		return nil, false
	}
	var out []elem
	for it := coll.ElementIterator(); it.Next(); {
		k, v := it.Element()
		out = append(out, elem{k, v})
	}
	if ty.IsMapType() || ty.IsObjectType() {
		// lexicographic by key (cty's iterator already does this; assert it independently)
		sort.SliceStable(out, func(i, j int) bool { return out[i].k.AsString() < out[j].k.AsString() })
	}
	return out, true
}

func toBool(v cty.Value) (bool, bool) {
	if v.IsNull() {
		return false, false
	}
	b, err := convert.Convert(v, cty.Bool)
	if err != nil || b.IsNull() {
		return false, false
	}
	return b.True(), true
}

func evalFor(x ast.For, env *Env) Result {
	c := Eval(x.Coll, env)
	if bad, ok := merge(c); !ok {
		return bad
	}
	if c.V.IsNull() {
		return errR()
	}
	elems, ok := iterate(c.V)
	if !ok {
		return errR()
	}
	if x.Cond != nil && len(elems) == 0 {
		if _, lit := x.Cond.(ast.Bool); !lit {
			return unspec("U2-for-if-on-empty-collection")
		}
	}
	var tupleVals []cty.Value
	objVals := map[string]cty.Value{}
	groupVals := map[string][]cty.Value{}
	var groupOrder []string
	for _, e := range elems {
		vars := map[string]cty.Value{x.ValVar: e.v}
		if x.KeyVar != "" {
			vars[x.KeyVar] = e.k
		}
		// the value variable is defined last: if both names are equal it wins (see evalFor note)
		vars[x.ValVar] = e.v
		ce := env.child(vars)
		if x.Cond != nil {
			cr := Eval(x.Cond, ce)
			if bad, ok := merge(cr); !ok {
				return bad
			}
			b, ok := toBool(cr.V)
			if !ok {
				return errR()
			}
			if !b {
				continue
			}
		}
		if x.Key == nil {
			vr := Eval(x.Val, ce)
			if bad, ok := merge(vr); !ok {
				return bad
			}
			tupleVals = append(tupleVals, vr.V)
			continue
		}
		kr := Eval(x.Key, ce)
		vr := Eval(x.Val, ce)
		if bad, ok := merge(kr, vr); !ok {
			return bad
		}
		ks, ok := toStringKey(kr.V)
		if !ok {
			return errR()
		}
		if x.Group {
			if _, seen := groupVals[ks]; !seen {
				groupOrder = append(groupOrder, ks)
			}
			groupVals[ks] = append(groupVals[ks], vr.V)
		} else {
			if _, dup := objVals[ks]; dup {
				return errR()
			}
			objVals[ks] = vr.V
		}
	}
	if x.Key == nil {
		if tupleVals == nil {
			return val(cty.EmptyTupleVal)
		}
		return val(cty.TupleVal(tupleVals))
	}
	if x.Group {
		for _, k := range groupOrder {
			objVals[k] = cty.TupleVal(groupVals[k])
		}
	}
	return val(cty.ObjectVal(objVals))
}

// ---------------------------------------------------------------------------

func index(coll, key cty.Value) Result {
	if coll.IsNull() || key.IsNull() {
		return errR()
	}
	ty := coll.Type()
	switch {
	case ty.IsListType() || ty.IsTupleType():
		k, err := convert.Convert(key, cty.Number)
		if err != nil || k.IsNull() {
			return errR()
		}
		bf := k.AsBigFloat()
		if !bf.IsInt() || bf.Sign() < 0 {
			return errR()
		}
		n := coll.LengthInt()
		i64, acc := bf.Int64()
		if acc != 0 || i64 >= int64(n) {
			return errR()
		}
		i := 0
		for it := coll.ElementIterator(); it.Next(); {
			_, v := it.Element()
			if int64(i) == i64 {
				return val(v)
			}
			i++
		}
		return errR()
	case ty.IsMapType() || ty.IsObjectType():
		ks, ok := toStringKey(key)
		if !ok {
			return errR()
		}
		return lookupKey(coll, ks)
	}
	return errR()
}

func lookupKey(coll cty.Value, name string) Result {
	for it := coll.ElementIterator(); it.Next(); {
		k, v := it.Element()
		if k.AsString() == cty.StringVal(name).AsString() {
			return val(v)
		}
	}
	return errR()
}

func getAttr(obj cty.Value, name string) Result {
	if obj.IsNull() {
		return errR()
	}
	ty := obj.Type()
	if ty.IsObjectType() || ty.IsMapType() { // map: decided D3
		return lookupKey(obj, name)
	}
	return errR()
}

// stepType gives the static result type of a splat step over an element type,
// used only for the element type of an empty list result.
func stepType(ty cty.Type, s ast.Step) (cty.Type, bool) {
	if ty == cty.DynamicPseudoType {
		return ty, true
	}
	switch s.Kind {
	case ast.StepAttr:
		if ty.IsObjectType() {
			if ty.HasAttribute(s.Name) {
				return ty.AttributeType(s.Name), true
			}
			return cty.NilType, false
		}
		if ty.IsMapType() {
			return ty.ElementType(), true
		}
		return cty.NilType, false
	default:
		if ty.IsListType() || ty.IsMapType() {
			return ty.ElementType(), true
		}
		// tuple/object element types depend on the key; not needed for homogeneous lists
		return cty.NilType, false
	}
}

func evalSplat(x ast.Splat, env *Env) Result {
	s := Eval(x.Src, env)
	if bad, ok := merge(s); !ok {
		return bad
	}
	// index keys of the steps are evaluated in the enclosing scope
	keys := make([]Result, len(x.Steps))
	for i, st := range x.Steps {
		if st.Kind == ast.StepIndex {
			keys[i] = Eval(st.Key, env)
		}
	}
	src := s.V
	ty := src.Type()
	seq := ty.IsListType() || ty.IsSetType() || ty.IsTupleType()
	var elems []cty.Value
	if seq {
		if src.IsNull() {
			return errR()
		}
		for it := src.ElementIterator(); it.Next(); {
			_, v := it.Element()
			elems = append(elems, v)
		}
	} else {
		if src.IsNull() {
			// a null scalar becomes the empty tuple; nothing else is evaluated against an element,
			// but erroneous index keys are still erroneous sub-expressions
			if bad, ok := merge(onlySet(keys)...); !ok {
				if bad.Err {
					return unspec("U-splat-null-source-with-erroneous-key")
				}
				return bad
			}
			return val(cty.EmptyTupleVal)
		}
		elems = []cty.Value{src}
	}
	if bad, ok := merge(onlySet(keys)...); !ok {
		if bad.Err && len(elems) == 0 {
			return unspec("U-splat-empty-source-with-erroneous-key")
		}
		return bad
	}
	outs := make([]cty.Value, len(elems))
	for i, e := range elems {
		cur := val(e)
		for j, st := range x.Steps {
			switch st.Kind {
			case ast.StepAttr:
				cur = getAttr(cur.V, st.Name)
			case ast.StepLegacy:
				cur = index(cur.V, cty.NumberIntVal(int64(st.N)))
			default:
				cur = index(cur.V, keys[j].V)
			}
			if cur.bad() {
				return cur
			}
		}
		outs[i] = cur.V
	}
	if ty.IsListType() || ty.IsSetType() {
		if len(outs) == 0 {
			ety := ty.ElementType()
			for _, st := range x.Steps {
				var ok bool
				ety, ok = stepType(ety, st)
				if !ok {
					return unspec("U10-splat-empty-list-with-untypable-steps")
				}
			}
			return val(cty.ListValEmpty(ety))
		}
		if !cty.CanListVal(outs) {
			return unspec("U6-splat-list-heterogeneous-results")
		}
		return val(cty.ListVal(outs))
	}
	if len(outs) == 0 {
		return val(cty.EmptyTupleVal)
	}
	return val(cty.TupleVal(outs))
}

func onlySet(rs []Result) []Result {
	var out []Result
	for _, r := range rs {
		if r.V != cty.NilVal || r.Err || r.Unspec != "" {
			out = append(out, r)
		}
	}
	return out
}

// ---------------------------------------------------------------------------

func toNumber(v cty.Value) (cty.Value, bool) {
	n, err := convert.Convert(v, cty.Number)
	if err != nil || n.IsNull() {
		return cty.NilVal, false
	}
	return n, true
}

func evalUnary(x ast.Unary, env *Env) Result {
	o := Eval(x.X, env)
	if bad, ok := merge(o); !ok {
		return bad
	}
	switch x.Op {
	case "-":
		n, ok := toNumber(o.V)
		if !ok {
			return errR()
		}
		return val(n.Negate())
	case "!":
		b, ok := toBool(o.V)
		if !ok {
			return errR()
		}
		return val(cty.BoolVal(!b))
	}
	return unspec("unknown-unary")
}

func convertibleToBool(v cty.Value) bool {
	_, err := convert.Convert(v, cty.Bool)
	return err == nil
}

func evalLogic(x ast.Binary, env *Env) Result {
	l := Eval(x.L, env)
	r := Eval(x.R, env)
	if l.Unspec != "" {
		return l
	}
	if r.Unspec != "" {
		return r
	}
	if (l.isVal() && l.Loose) || (r.isVal() && r.Loose) {
		return unspec("U9-loose-operand")
	}
	ctrl := x.Op == "||" // the controlling value: true for ||, false for &&
	// (a) a value that cannot be a bool is always an error (type errors are never short-circuited)
	if l.isVal() && !convertibleToBool(l.V) {
		return errR()
	}
	if r.isVal() && !convertibleToBool(r.V) {
		return errR()
	}
	isCtrl := func(res Result) bool {
		if !res.isVal() || res.V.IsNull() {
			return false
		}
		b, ok := toBool(res.V)
		return ok && b == ctrl
	}
	// (b) one side erroneous
	if l.Err || r.Err {
		if (l.Err && isCtrl(r)) || (r.Err && isCtrl(l)) {
			return unspec("U12-short-circuit-over-erroneous-operand")
		}
		if x.Op == "&&" && ((l.isVal() && l.V.IsNull()) || (r.isVal() && r.V.IsNull())) {
			return Result{Err: true, Note: "logical-and-null-operand"}
		}
		if l.Err {
			return Result{Err: true, Note: l.Note}
		}
		return Result{Err: true, Note: r.Note}
	}
	// (c) both are values
	if isCtrl(l) || isCtrl(r) {
		return val(cty.BoolVal(ctrl))
	}
	if l.V.IsNull() || r.V.IsNull() {
		if x.Op == "&&" {
			return Result{Err: true, Note: "logical-and-null-operand"}
		}
		return errR()
	}
	lb, _ := toBool(l.V)
	rb, _ := toBool(r.V)
	if x.Op == "&&" {
		return val(cty.BoolVal(lb && rb))
	}
	return val(cty.BoolVal(lb || rb))
}

func evalBinary(x ast.Binary, env *Env) Result {
	if x.Op == "&&" || x.Op == "||" {
		return evalLogic(x, env)
	}
	l := Eval(x.L, env)
	r := Eval(x.R, env)
	if bad, ok := merge(l, r); !ok {
		return bad
	}
	switch x.Op {
	case "==":
		return val(l.V.Equals(r.V))
	case "!=":
		return val(l.V.Equals(r.V).Not())
	}
	ln, ok1 := toNumber(l.V)
	rn, ok2 := toNumber(r.V)
	if !ok1 || !ok2 {
		return errR()
	}
	switch x.Op {
	case "+":
		return val(ln.Add(rn))
	case "-":
		return val(ln.Subtract(rn))
	case "*":
		return val(ln.Multiply(rn))
	case "/", "%":
		if rn.RawEquals(cty.Zero) || rn.AsBigFloat().Sign() == 0 {
			return unspec("U11-division-by-zero")
		}
		if x.Op == "/" {
			return val(ln.Divide(rn))
		}
		return val(ln.Modulo(rn))
	case "<":
		return val(ln.LessThan(rn))
	case "<=":
		return val(ln.LessThanOrEqualTo(rn))
	case ">":
		return val(ln.GreaterThan(rn))
	case ">=":
		return val(ln.GreaterThanOrEqualTo(rn))
	}
	return unspec("unknown-binary")
}

func isDynNull(v cty.Value) bool {
	return v.IsNull() && v.Type() == cty.DynamicPseudoType
}

func evalCond(x ast.Cond, env *Env) Result {
	p := Eval(x.P, env)
	t := Eval(x.T, env)
	f := Eval(x.F, env)
	for _, r := range []Result{p, t, f} {
		if r.Unspec != "" {
			return r
		}
	}
	if p.Loose {
		return unspec("U9-loose-operand")
	}
	// both branches well-defined: the types must unify whatever the predicate is
	if t.isVal() && f.isVal() {
		if t.Loose || f.Loose {
			return unspec("U9-loose-operand")
		}
		var rty cty.Type
		switch {
		case isDynNull(t.V):
			rty = f.V.Type()
		case isDynNull(f.V):
			rty = t.V.Type()
		default:
			rty, _ = convert.UnifyUnsafe([]cty.Type{t.V.Type(), f.V.Type()})
		}
		if rty == cty.NilType {
			return errR()
		}
		if p.Err {
			return Result{Err: true, Note: p.Note}
		}
		b, ok := toBool(p.V)
		if !ok {
			return errR()
		}
		sel := f.V
		if b {
			sel = t.V
		}
		out, err := convert.Convert(sel, rty)
		if err != nil {
			return errR()
		}
		return val(out)
	}
	if p.Err {
		return Result{Err: true, Note: p.Note}
	}
	b, ok := toBool(p.V)
	if !ok {
		return errR()
	}
	sel, other := f, t
	if b {
		sel, other = t, f
	}
	if sel.Err {
		return Result{Err: true, Note: sel.Note}
	}
	_ = other // erroneous and not selected: its errors are dropped, its type is not defined
	return Result{V: sel.V, Loose: true, CondTypeErrOK: true}
}

// ---------------------------------------------------------------------------
// templates

type titem struct {
	lit            *string // literal token text (nil for sequences)
	stripL, stripR bool
}

// cloneParts deep-copies parts so that literal texts can be edited.
func cloneParts(parts []ast.TPart) []ast.TPart {
	out := make([]ast.TPart, len(parts))
	for i, p := range parts {
		switch x := p.(type) {
		case ast.TIf:
			x.Then = cloneParts(x.Then)
			x.Else = cloneParts(x.Else)
			out[i] = x
		case ast.TFor:
			x.Body = cloneParts(x.Body)
			out[i] = x
		default:
			out[i] = p
		}
	}
	return out
}

// flatten lists literal cells and sequence markers in source order. Literal
// cells point into the (cloned) tree through setter closures.
type cell struct {
	isLit          bool
	get            func() string
	set            func(string)
	stripL, stripR bool
}

func flatten(parts []ast.TPart, out *[]cell) {
	for i := range parts {
		i := i
		switch x := parts[i].(type) {
		case ast.TLit:
			*out = append(*out, cell{isLit: true,
				get: func() string { return parts[i].(ast.TLit).Text },
				set: func(s string) { parts[i] = ast.TLit{Text: s} }})
		case ast.TInterp:
			*out = append(*out, cell{stripL: x.StripL, stripR: x.StripR})
		case ast.TIf:
			*out = append(*out, cell{stripL: x.SIf.L, stripR: x.SIf.R})
			flatten(x.Then, out)
			if x.HasElse {
				*out = append(*out, cell{stripL: x.SElse.L, stripR: x.SElse.R})
				flatten(x.Else, out)
			}
			*out = append(*out, cell{stripL: x.SEnd.L, stripR: x.SEnd.R})
		case ast.TFor:
			*out = append(*out, cell{stripL: x.SFor.L, stripR: x.SFor.R})
			flatten(x.Body, out)
			*out = append(*out, cell{stripL: x.SEnd.L, stripR: x.SEnd.R})
		}
	}
}

// a '$' or '%' followed by a whitespace character and then more whitespace up to the end:
// the scanner glues the first whitespace character to the '$' token (known finding).
var dollarSpaceQuirk = regexp.MustCompile(`[$%]\s\s+$`)

// rtrim removes the whitespace a `~` on the left side of a sequence strips from the
// preceding literal (decided D2: lexer-token granular in heredoc/bare templates).
func rtrim(text string, quoted bool, env *Env) string {
	if quoted {
		return strings.TrimRightFunc(text, unicode.IsSpace)
	}
	if dollarSpaceQuirk.MatchString(text) {
		env.note("strip-after-dollar-whitespace")
	}
	// the last literal token: the last line (with its newline) or the partial current line
	body := text
	if strings.HasSuffix(body, "\n") {
		body = body[:len(body)-1]
	}
	s := strings.LastIndex(body, "\n") + 1
	return text[:s] + strings.TrimRightFunc(text[s:], unicode.IsSpace)
}

func ltrim(text string, quoted bool) string {
	if quoted {
		return strings.TrimLeftFunc(text, unicode.IsSpace)
	}
	e := strings.Index(text, "\n")
	if e < 0 {
		e = len(text)
	} else {
		e++
	}
	return strings.TrimLeftFunc(text[:e], unicode.IsSpace) + text[e:]
}

func hasStrip(cells []cell) bool {
	for _, c := range cells {
		if c.stripL || c.stripR {
			return true
		}
	}
	return false
}

// flush applies the flush-heredoc rule (hclsyntax/spec.md §Template Expressions) to
// the literal cells in place; it returns a non-empty rule id when the
// specification does not say what happens.
func flush(cells []cell) string {
	type tok struct {
		cell       int
		start, end int
	}
	var leading []tok
	var counts []int
	atLineStart := true
	for i, c := range cells {
		if !c.isLit {
			if atLineStart {
				// a line that starts with a sequence has no leading literal, hence zero
				// leading spaces: nothing can be trimmed from any line
				counts = append(counts, 0)
				atLineStart = false
			}
			continue
		}
		text := c.get()
		off := 0
		for off < len(text) {
			end := strings.Index(text[off:], "\n")
			if end < 0 {
				end = len(text)
			} else {
				end = off + end + 1
			}
			line := text[off:end]
			if atLineStart {
				stripped := strings.TrimLeftFunc(line, unicode.IsSpace)
				lead := line[:len(line)-len(stripped)]
				if stripped == "" && strings.HasSuffix(line, "\n") {
					if line == "\n" {
						// an empty line has no indentation to analyse and nothing to trim
						// (hclsyntax's own tests: "<<-EOT\n  Foo\n\n  Bar\n" gives "Foo\n\nBar\n")
						atLineStart = true
						off = end
						continue
					}
					// a line of spaces only: counted (and trimmed) or ignored? the specification is silent
					return "U7-flush-heredoc-blank-line"
				}
				if strings.Trim(lead, " ") != "" {
					return "U8-flush-heredoc-non-space-indent"
				}
				leading = append(leading, tok{i, off, end})
				counts = append(counts, len(lead))
			}
			atLineStart = strings.HasSuffix(line, "\n")
			off = end
		}
		if text == "" && atLineStart {
			// an empty line-leading literal (possible after strip processing): zero indentation
			leading = append(leading, tok{i, 0, 0})
			counts = append(counts, 0)
			atLineStart = false
		}
	}
	min := -1
	for _, n := range counts {
		if min < 0 || n < min {
			min = n
		}
	}
	if min <= 0 {
		return ""
	}
	// remove `min` spaces from every line-leading token, last to first so offsets stay valid
	for k := len(leading) - 1; k >= 0; k-- {
		t := leading[k]
		text := cells[t.cell].get()
		cells[t.cell].set(text[:t.start] + text[t.start+min:])
	}
	return ""
}

// EvalTemplate evaluates stand-alone template parts (ParseTemplate input).
func EvalTemplate(parts []ast.TPart, env *Env) Result { return evalTemplate(parts, ast.Heredoc, env) }

func evalTemplate(parts []ast.TPart, form ast.TemplateForm, env *Env) Result {
	parts = cloneParts(parts)
	var cells []cell
	flatten(parts, &cells)
	quoted := form == ast.Quoted
	if form == ast.FlushHeredoc && hasStrip(cells) {
		return unspec("U9b-flush-heredoc-with-strip-markers")
	}
	for i, c := range cells {
		if c.isLit {
			continue
		}
		if c.stripL && i > 0 && cells[i-1].isLit {
			cells[i-1].set(rtrim(cells[i-1].get(), quoted, env))
		}
		if c.stripR && i+1 < len(cells) && cells[i+1].isLit {
			cells[i+1].set(ltrim(cells[i+1].get(), quoted))
		}
	}
	if form == ast.FlushHeredoc {
		if rule := flush(cells); rule != "" {
			return unspec(rule)
		}
	}
	// unwrapping: a template that is exactly one interpolation
	if len(parts) == 1 {
		if it, ok := parts[0].(ast.TInterp); ok {
			return Eval(it.X, env)
		}
	}
	return renderParts(parts, env)
}

func renderParts(parts []ast.TPart, env *Env) Result {
	var sb strings.Builder
	for _, p := range parts {
		switch x := p.(type) {
		case ast.TLit:
			sb.WriteString(x.Text)
		case ast.TInterp:
			r := Eval(x.X, env)
			if bad, ok := merge(r); !ok {
				return bad
			}
			s, ok := partString(r.V)
			if !ok {
				return errR()
			}
			sb.WriteString(s)
		case ast.TIf:
			c := Eval(x.Cond, env)
			tr := renderParts(x.Then, env)
			fr := val(cty.StringVal(""))
			if x.HasElse {
				fr = renderParts(x.Else, env)
			}
			for _, r := range []Result{c, tr, fr} {
				if r.Unspec != "" {
					return r
				}
			}
			if c.Loose {
				return unspec("U9-loose-operand")
			}
			if c.Err {
				return Result{Err: true, Note: c.Note}
			}
			b, ok := toBool(c.V)
			if !ok {
				return errR()
			}
			sel := fr
			if b {
				sel = tr
			}
			if sel.Err {
				return Result{Err: true, Note: sel.Note}
			}
			sb.WriteString(sel.V.AsString())
		case ast.TFor:
			c := Eval(x.Coll, env)
			if bad, ok := merge(c); !ok {
				return bad
			}
			if c.V.IsNull() {
				return errR()
			}
			elems, ok := iterate(c.V)
			if !ok {
				return errR()
			}
			for _, e := range elems {
				vars := map[string]cty.Value{}
				if x.KeyVar != "" {
					vars[x.KeyVar] = e.k
				}
				vars[x.ValVar] = e.v
				r := renderParts(x.Body, env.child(vars))
				if r.bad() {
					return r
				}
				sb.WriteString(r.V.AsString())
			}
		}
	}
	return val(cty.StringVal(sb.String()))
}

func partString(v cty.Value) (string, bool) {
	if v.IsNull() {
		return "", false
	}
	s, err := convert.Convert(v, cty.String)
	if err != nil || s.IsNull() {
		return "", false
	}
	return s.AsString(), true
}
