package ref

import (
	"unicode/utf8"

	"github.com/apparentlymart/go-textseg/v15/textseg"
)

// PosTable gives, for every byte offset of an input, the reference line/column
// obtained by counting newline sequences ("\n", with "\r\n" counted once) and
// grapheme clusters since the last newline (hclsyntax/spec.md, pos.go docs).
type PosTable struct {
	// Boundary[i] reports whether byte offset i is a grapheme-cluster boundary of the whole input.
	Boundary []bool
	Line     []int // 0-based line of offset i (number of '\n' bytes before i)
	Col      []int // 0-based column of offset i, meaningful when Boundary[i] && ColOK[i]
	// ColOK[i] is false from the first ill-formed UTF-8 byte of a line to the end of that
	// line: grapheme clusters are not defined there, so only bytes and lines are judged.
	ColOK []bool
}

// NewPosTable analyses src (offsets are relative to src[0]; the first skip bytes - a
// byte order mark - are not counted as columns).
func NewPosTable(src []byte, skip int) *PosTable {
	n := len(src)
	pt := &PosTable{Boundary: make([]bool, n+1), Line: make([]int, n+1), Col: make([]int, n+1), ColOK: make([]bool, n+1)}
	line, col, ok := 0, 0, true
	for i := 0; i <= skip && i <= n; i++ {
		pt.Boundary[i] = true
		pt.ColOK[i] = true
	}
	off := skip
	set := func(o int, boundary bool) {
		pt.Boundary[o] = boundary
		pt.Line[o], pt.Col[o], pt.ColOK[o] = line, col, ok
	}
	for off < n {
		// an ill-formed byte is a column of its own and taints the rest of the line
		r, w := utf8.DecodeRune(src[off:])
		if r == utf8.RuneError && w <= 1 {
			set(off, true)
			ok = false
			col++
			off++
			continue
		}
		// maximal well-formed run
		end := off
		for end < n {
			r, w := utf8.DecodeRune(src[end:])
			if r == utf8.RuneError && w <= 1 {
				break
			}
			end += w
		}
		b := src[off:end]
		for len(b) > 0 {
			adv, seq, _ := textseg.ScanGraphemeClusters(b, true)
			if adv == 0 {
				adv, seq = len(b), b
			}
			set(off, true)
			for k := 1; k < adv; k++ {
				set(off+k, false)
			}
			if seq[len(seq)-1] == '\n' && (len(seq) == 1 || (len(seq) == 2 && seq[0] == '\r')) {
				line++
				col = 0
				ok = true
			} else {
				col++
			}
			off += adv
			b = b[adv:]
		}
	}
	set(n, true)
	return pt
}
