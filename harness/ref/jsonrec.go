package ref

import "unicode/utf8"

// JSONVerdict is the recogniser's answer for a byte string.
type JSONVerdict int

const (
	JSONInvalid JSONVerdict = iota
	JSONValid
	// JSONUnspecified: RFC 8259 leaves the outcome to the implementation
	// (a leading byte order mark, or ill-formed UTF-8 inside a string).
	JSONUnspecified
)

// RootKind describes the root value of an accepted text.
type RootKind int

const (
	RootOther RootKind = iota
	RootObject
	RootArray
)

type jrec struct {
	b      []byte
	i      int
	unspec bool
	depth  int
}

// RecogniseJSON is a strict RFC 8259 recogniser (grammar of section 2-7), written
// independently of any JSON library.
func RecogniseJSON(b []byte) (JSONVerdict, RootKind) {
	r := &jrec{b: b}
	if len(b) >= 3 && b[0] == 0xEF && b[1] == 0xBB && b[2] == 0xBF {
		// section 8.1: parsers MAY ignore a BOM rather than treating it as an error
		r.unspec = true
		r.i = 3
	}
	r.ws()
	root := RootOther
	if r.i < len(r.b) {
		switch r.b[r.i] {
		case '{':
			root = RootObject
		case '[':
			root = RootArray
		}
	}
	if !r.value() {
		return JSONInvalid, RootOther
	}
	r.ws()
	if r.i != len(r.b) {
		return JSONInvalid, RootOther
	}
	if r.unspec {
		return JSONUnspecified, root
	}
	return JSONValid, root
}

func (r *jrec) ws() {
	for r.i < len(r.b) {
		switch r.b[r.i] {
		case ' ', '\t', '\n', '\r':
			r.i++
		default:
			return
		}
	}
}

func (r *jrec) lit(s string) bool {
	if r.i+len(s) <= len(r.b) && string(r.b[r.i:r.i+len(s)]) == s {
		r.i += len(s)
		return true
	}
	return false
}

func (r *jrec) value() bool {
	if r.i >= len(r.b) {
		return false
	}
	switch c := r.b[r.i]; {
	case c == '{':
		return r.object()
	case c == '[':
		return r.array()
	case c == '"':
		return r.str()
	case c == 't':
		return r.lit("true")
	case c == 'f':
		return r.lit("false")
	case c == 'n':
		return r.lit("null")
	case c == '-' || (c >= '0' && c <= '9'):
		return r.number()
	}
	return false
}

func (r *jrec) object() bool {
	r.i++ // {
	r.ws()
	if r.i < len(r.b) && r.b[r.i] == '}' {
		r.i++
		return true
	}
	for {
		r.ws()
		if r.i >= len(r.b) || r.b[r.i] != '"' {
			return false
		}
		if !r.str() {
			return false
		}
		r.ws()
		if r.i >= len(r.b) || r.b[r.i] != ':' {
			return false
		}
		r.i++
		r.ws()
		if !r.value() {
			return false
		}
		r.ws()
		if r.i >= len(r.b) {
			return false
		}
		switch r.b[r.i] {
		case ',':
			r.i++
		case '}':
			r.i++
			return true
		default:
			return false
		}
	}
}

func (r *jrec) array() bool {
	r.i++ // [
	r.ws()
	if r.i < len(r.b) && r.b[r.i] == ']' {
		r.i++
		return true
	}
	for {
		r.ws()
		if !r.value() {
			return false
		}
		r.ws()
		if r.i >= len(r.b) {
			return false
		}
		switch r.b[r.i] {
		case ',':
			r.i++
		case ']':
			r.i++
			return true
		default:
			return false
		}
	}
}

func isHex(c byte) bool {
	return (c >= '0' && c <= '9') || (c >= 'a' && c <= 'f') || (c >= 'A' && c <= 'F')
}

func (r *jrec) str() bool {
	r.i++ // opening quote
	for r.i < len(r.b) {
		c := r.b[r.i]
		switch {
		case c == '"':
			r.i++
			return true
		case c < 0x20:
			return false
		case c == '\\':
			if r.i+1 >= len(r.b) {
				return false
			}
			switch r.b[r.i+1] {
			case '"', '\\', '/', 'b', 'f', 'n', 'r', 't':
				r.i += 2
			case 'u':
				if r.i+6 > len(r.b) {
					return false
				}
				for k := 2; k < 6; k++ {
					if !isHex(r.b[r.i+k]) {
						return false
					}
				}
				r.i += 6
			default:
				return false
			}
		case c < 0x80:
			r.i++
		default:
			ru, n := utf8.DecodeRune(r.b[r.i:])
			if ru == utf8.RuneError && n <= 1 {
				// the grammar is over code points; ill-formed UTF-8 is outside it, but
				// implementations commonly substitute U+FFFD
				r.unspec = true
				r.i++
			} else {
				r.i += n
			}
		}
	}
	return false
}

func (r *jrec) digits() int {
	n := 0
	for r.i < len(r.b) && r.b[r.i] >= '0' && r.b[r.i] <= '9' {
		r.i++
		n++
	}
	return n
}

func (r *jrec) number() bool {
	if r.b[r.i] == '-' {
		r.i++
	}
	if r.i >= len(r.b) {
		return false
	}
	if r.b[r.i] == '0' {
		r.i++
	} else if r.b[r.i] >= '1' && r.b[r.i] <= '9' {
		r.digits()
	} else {
		return false
	}
	if r.i < len(r.b) && r.b[r.i] == '.' {
		r.i++
		if r.digits() == 0 {
			return false
		}
	}
	if r.i < len(r.b) && (r.b[r.i] == 'e' || r.b[r.i] == 'E') {
		r.i++
		if r.i < len(r.b) && (r.b[r.i] == '+' || r.b[r.i] == '-') {
			r.i++
		}
		if r.digits() == 0 {
			return false
		}
	}
	return true
}
