package ref

import (
	"unicode/utf8"

	"github.com/apparentlymart/go-textseg/v15/textseg"
)

// JSpan is a node of the span tree of a JSON text: the byte extent of every value and,
// for objects, of every member name. It is produced by a recursive-descent reading of
// RFC 8259 that is independent of hcl's JSON scanner and parser.
type JSpan struct {
	Kind       byte // 'o' object, 'a' array, 's' string, 'n' number, 'k' keyword
	Start, End int  // [Start, End) byte extent of the value
	Keys       []JSpan
	Vals       []*JSpan
}

type jspan struct {
	b   []byte
	pos int
	ok  bool
}

// JSONSpans reads a JSON text that is known to be valid and returns its span tree.
func JSONSpans(src []byte) (*JSpan, bool) {
	p := &jspan{b: src, ok: true}
	p.ws()
	v := p.value()
	p.ws()
	if !p.ok || p.pos != len(src) {
		return nil, false
	}
	return v, true
}

func (p *jspan) ws() {
	for p.pos < len(p.b) {
		switch p.b[p.pos] {
		case ' ', '\t', '\r', '\n':
			p.pos++
		default:
			return
		}
	}
}

func (p *jspan) str() JSpan {
	s := JSpan{Kind: 's', Start: p.pos}
	if p.pos >= len(p.b) || p.b[p.pos] != '"' {
		p.ok = false
		return s
	}
	p.pos++
	for p.pos < len(p.b) {
		switch p.b[p.pos] {
		case '\\':
			p.pos += 2
		case '"':
			p.pos++
			s.End = p.pos
			return s
		default:
			p.pos++
		}
	}
	p.ok = false
	return s
}

func (p *jspan) value() *JSpan {
	if !p.ok || p.pos >= len(p.b) {
		p.ok = false
		return nil
	}
	switch c := p.b[p.pos]; {
	case c == '"':
		s := p.str()
		return &s
	case c == '{':
		v := &JSpan{Kind: 'o', Start: p.pos}
		p.pos++
		p.ws()
		if p.pos < len(p.b) && p.b[p.pos] == '}' {
			p.pos++
			v.End = p.pos
			return v
		}
		for p.ok {
			p.ws()
			k := p.str()
			p.ws()
			if !p.ok || p.pos >= len(p.b) || p.b[p.pos] != ':' {
				p.ok = false
				return nil
			}
			p.pos++
			p.ws()
			val := p.value()
			if !p.ok {
				return nil
			}
			v.Keys = append(v.Keys, k)
			v.Vals = append(v.Vals, val)
			p.ws()
			if p.pos >= len(p.b) {
				p.ok = false
				return nil
			}
			if p.b[p.pos] == ',' {
				p.pos++
				continue
			}
			if p.b[p.pos] == '}' {
				p.pos++
				v.End = p.pos
				return v
			}
			p.ok = false
		}
		return nil
	case c == '[':
		v := &JSpan{Kind: 'a', Start: p.pos}
		p.pos++
		p.ws()
		if p.pos < len(p.b) && p.b[p.pos] == ']' {
			p.pos++
			v.End = p.pos
			return v
		}
		for p.ok {
			p.ws()
			val := p.value()
			if !p.ok {
				return nil
			}
			v.Vals = append(v.Vals, val)
			p.ws()
			if p.pos >= len(p.b) {
				p.ok = false
				return nil
			}
			if p.b[p.pos] == ',' {
				p.pos++
				continue
			}
			if p.b[p.pos] == ']' {
				p.pos++
				v.End = p.pos
				return v
			}
			p.ok = false
		}
		return nil
	case c == '-' || (c >= '0' && c <= '9'):
		v := &JSpan{Kind: 'n', Start: p.pos}
		for p.pos < len(p.b) {
			d := p.b[p.pos]
			if (d >= '0' && d <= '9') || d == '-' || d == '+' || d == '.' || d == 'e' || d == 'E' {
				p.pos++
				continue
			}
			break
		}
		v.End = p.pos
		return v
	case c >= 'a' && c <= 'z':
		v := &JSpan{Kind: 'k', Start: p.pos}
		for p.pos < len(p.b) && p.b[p.pos] >= 'a' && p.b[p.pos] <= 'z' {
			p.pos++
		}
		v.End = p.pos
		return v
	}
	p.ok = false
	return nil
}

// JSONPosTable gives the line / column the JSON syntax documents for every byte offset
// of a valid JSON text (json/scanner.go's stated conventions, which json/spec.md leaves
// to the implementation): a line feed starts a new line; a carriage return takes no
// column; a tab counts as two columns; every other byte outside a string is one column;
// inside a string the quote and backslash characters are one column each and the text
// between them is counted in grapheme clusters. Offsets inside a cluster have Boundary
// false. ColOK is false from an ill-formed UTF-8 byte to the end of its line.
func JSONPosTable(src []byte) *PosTable {
	n := len(src)
	pt := &PosTable{Boundary: make([]bool, n+1), Line: make([]int, n+1), Col: make([]int, n+1), ColOK: make([]bool, n+1)}
	line, col, ok := 0, 0, true
	set := func(o int, boundary bool) {
		pt.Boundary[o] = boundary
		pt.Line[o], pt.Col[o], pt.ColOK[o] = line, col, ok
	}
	inStr := false
	off := 0
	for off < n {
		c := src[off]
		if !inStr {
			set(off, true)
			switch c {
			case '\n':
				line++
				col = 0
				ok = true
			case '\r':
			case '\t':
				col += 2
			case '"':
				inStr = true
				col++
			default:
				col++
			}
			off++
			continue
		}
		switch {
		case c == '\\':
			// the escape introducer and the byte it escapes are delimiters of one column each
			set(off, true)
			col++
			off++
			if off < n && (src[off] == '"' || src[off] == '\\') {
				set(off, true)
				col++
				off++
			}
		case c == '"':
			set(off, true)
			col++
			off++
			inStr = false
		default:
			// maximal run up to the next delimiter
			end := off
			for end < n && src[end] != '"' && src[end] != '\\' {
				end++
			}
			run := src[off:end]
			for len(run) > 0 {
				r, w := utf8.DecodeRune(run)
				if r == utf8.RuneError && w <= 1 {
					ok = false
				}
				adv, _, _ := textseg.ScanGraphemeClusters(run, true)
				if adv == 0 {
					adv = len(run)
				}
				if !utf8.Valid(run[:adv]) {
					ok = false
				}
				set(off, true)
				for k := 1; k < adv; k++ {
					set(off+k, false)
				}
				col++
				off += adv
				run = run[adv:]
			}
		}
	}
	set(n, true)
	return pt
}
