package ref

import (
	"github.com/zclconf/go-cty/cty"
	"github.com/zclconf/go-cty/cty/convert"

	"verifharness/ast"
)

// This file is the reference dynamic-block expander (ext/dynblock/README.md): every
// `dynamic "T"` block is replaced, in place, by one block of type T per element of its
// for_each collection, in iteration order, with the iterator object {key, value}
// visible inside the generated block (and inside nested dynamic blocks). It works on
// the harness body tree only.

// ExpandResult is the outcome of the reference expansion.
type ExpandResult struct {
	Body   *ast.Body
	Err    bool
	Unspec string
}

type dynExpander struct {
	err    bool
	unspec string
	// labelCount gives the number of labels the schema expects for a block type at the
	// level being expanded (nil function = unknown: any count accepted).
}

// ExpandDyn expands b under env. The generated blocks carry their iterator bindings in
// ast.Block.Bind; static blocks nested in generated blocks inherit them through the
// decoder's scope chain.
func ExpandDyn(b *ast.Body, env *Env) ExpandResult {
	x := &dynExpander{}
	out := x.body(b, env, map[string]cty.Value{})
	return ExpandResult{Body: out, Err: x.err, Unspec: x.unspec}
}

func copyBind(m map[string]cty.Value) map[string]cty.Value {
	out := make(map[string]cty.Value, len(m)+1)
	for k, v := range m {
		out[k] = v
	}
	return out
}

func (x *dynExpander) body(b *ast.Body, env *Env, bind map[string]cty.Value) *ast.Body {
	out := &ast.Body{}
	for _, it := range b.Items {
		switch v := it.(type) {
		case ast.Attr:
			out.Items = append(out.Items, v)
		case ast.Block:
			nb := v
			nb.Body = x.body(v.Body, env, bind)
			out.Items = append(out.Items, nb)
		case ast.Dyn:
			x.dyn(v, env, bind, out)
		}
	}
	return out
}

func (x *dynExpander) dyn(d ast.Dyn, env *Env, bind map[string]cty.Value, out *ast.Body) {
	scope := env.child(bind)
	fe := Eval(d.ForEach, scope)
	if fe.Unspec != "" {
		x.unspec = fe.Unspec
		return
	}
	if fe.Err {
		x.err = true
		return
	}
	if fe.Loose {
		x.unspec = "U9-loose-operand"
		return
	}
	coll := fe.V
	if coll.IsNull() {
		x.err = true
		return
	}
	elems, ok := iterate(coll)
	if !ok {
		x.err = true
		return
	}
	name := d.Iterator
	if name == "" {
		name = d.Type
	}
	for _, e := range elems {
		inner := copyBind(bind)
		inner[name] = cty.ObjectVal(map[string]cty.Value{"key": e.k, "value": e.v})
		iscope := env.child(inner)
		var labels []ast.Label
		bad := false
		for _, le := range d.Labels {
			lr := Eval(le, iscope)
			if lr.Unspec != "" {
				x.unspec = lr.Unspec
				return
			}
			if lr.Loose {
				x.unspec = "U9-loose-operand"
				return
			}
			if lr.Err || lr.V.IsNull() {
				x.err = true
				bad = true
				break
			}
			sv, err := convert.Convert(lr.V, cty.String)
			if err != nil || sv.IsNull() {
				x.err = true
				bad = true
				break
			}
			labels = append(labels, ast.Label{Text: sv.AsString()})
		}
		if bad {
			continue
		}
		nb := ast.Block{Type: d.Type, Labels: labels, Bind: inner}
		nb.Body = x.body(d.Content, env, inner)
		out.Items = append(out.Items, nb)
	}
}
