package ref

import (
	"github.com/zclconf/go-cty/cty"
	"github.com/zclconf/go-cty/cty/convert"

	"verifharness/ast"
	"verifharness/gen"
)

// This file is the reference decoder: what each decoding-specification kind
// "describes for the body's content" according to the documentation of hcldec's spec
// types, stated over the harness body tree. It never touches hcl bodies.

// DecResult is the reference verdict of a decode.
type DecResult struct {
	V      cty.Value
	Err    bool
	Unspec string
	// EmptyMultiLabelMap: some BlockMapSpec with two or more labels had no (valid) block,
	// the situation of the known finding blockmap-multilabel-empty-type.
	EmptyMultiLabelMap bool
}

// TransformUpper is the reference semantics of the harness transform function:
// upper-case a known non-null string, return anything else unchanged.
func TransformUpper(v cty.Value) cty.Value {
	if v.Type() == cty.String && v.IsKnown() && !v.IsNull() {
		return cty.StringVal(upper(v.AsString()))
	}
	if v.Type() == cty.String && !v.IsKnown() {
		// the refinements of the argument (a prefix, say) do not hold for the result
		return cty.UnknownVal(cty.String)
	}
	return v
}

// TransformToNumber is the reference semantics of the type-changing harness transform:
// the result is always a number - the byte length of a string, 0/1 for a bool, a number
// itself, the element count of a collection or structure; null stays null, unknown stays unknown.
func TransformToNumber(v cty.Value) cty.Value {
	switch {
	case v.IsNull():
		return cty.NullVal(cty.Number)
	case !v.IsKnown():
		return cty.UnknownVal(cty.Number)
	}
	ty := v.Type()
	if ty.IsSetType() && !v.IsWhollyKnown() {
		// unknown members may turn out to be equal: the size of the set is not known
		return cty.UnknownVal(cty.Number)
	}
	switch {
	case ty == cty.String:
		return cty.NumberIntVal(int64(len(v.AsString())))
	case ty == cty.Bool:
		if v.True() {
			return cty.NumberIntVal(1)
		}
		return cty.NumberIntVal(0)
	case ty == cty.Number:
		return v
	case ty.IsCollectionType() || ty.IsTupleType() || ty.IsObjectType():
		return cty.NumberIntVal(int64(v.LengthInt()))
	}
	return cty.NumberIntVal(0)
}

// Transform applies the named harness transform.
func Transform(name string, v cty.Value) cty.Value {
	if name == "to_number" {
		return TransformToNumber(v)
	}
	return TransformUpper(v)
}

func upper(s string) string {
	b := []rune(s)
	for i, r := range b {
		if r >= 'a' && r <= 'z' {
			b[i] = r - 32
		}
	}
	return string(b)
}

// ValidateRejects is the predicate of the harness validation function.
func ValidateRejects(v cty.Value) bool {
	return v.Type() == cty.String && v.IsKnown() && !v.IsNull() && v.AsString() == "invalid"
}

// ImpliedType is the type a specification implies (hcldec documentation per kind).
func ImpliedType(s *gen.SpecM) cty.Type {
	switch s.Kind {
	case gen.SObject:
		atys := map[string]cty.Type{}
		for n, f := range s.Fields {
			atys[n] = ImpliedType(f)
		}
		return cty.Object(atys)
	case gen.STuple:
		etys := make([]cty.Type, len(s.Elems))
		for i, e := range s.Elems {
			etys[i] = ImpliedType(e)
		}
		return cty.Tuple(etys)
	case gen.SAttr:
		return s.Type
	case gen.SLiteral:
		return s.Literal.Type()
	case gen.SBlock:
		return ImpliedType(s.Nested)
	case gen.SBlockList:
		return cty.List(ImpliedType(s.Nested))
	case gen.SBlockSet:
		return cty.Set(ImpliedType(s.Nested))
	case gen.SBlockTuple, gen.SBlockObject:
		return cty.DynamicPseudoType
	case gen.SBlockMap:
		ty := ImpliedType(s.Nested)
		for range s.LabelNames {
			ty = cty.Map(ty)
		}
		return ty
	case gen.SBlockAttrs:
		return cty.Map(s.Type)
	case gen.SBlockLabel:
		return cty.String
	case gen.SDefault:
		return ImpliedType(s.Primary)
	case gen.STransformFunc:
		if s.Func == "to_number" {
			return cty.Number
		}
		return ImpliedType(s.Nested) // upper_or_same keeps the type
	case gen.SValidate, gen.SRefine:
		return ImpliedType(s.Nested)
	}
	return cty.DynamicPseudoType
}

// Conforms reports whether a value type conforms to an implied type: equal wherever
// the implied type is not dynamic, anything under a dynamic position.
func Conforms(got, want cty.Type) bool {
	switch {
	case want == cty.DynamicPseudoType:
		return true
	case want.IsPrimitiveType():
		return got.Equals(want)
	case want.IsListType():
		return got.IsListType() && Conforms(got.ElementType(), want.ElementType())
	case want.IsSetType():
		return got.IsSetType() && Conforms(got.ElementType(), want.ElementType())
	case want.IsMapType():
		return got.IsMapType() && Conforms(got.ElementType(), want.ElementType())
	case want.IsTupleType():
		if !got.IsTupleType() || got.Length() != want.Length() {
			return false
		}
		ge, we := got.TupleElementTypes(), want.TupleElementTypes()
		for i := range we {
			if !Conforms(ge[i], we[i]) {
				return false
			}
		}
		return true
	case want.IsObjectType():
		if !got.IsObjectType() {
			return false
		}
		ga, wa := got.AttributeTypes(), want.AttributeTypes()
		if len(ga) != len(wa) {
			return false
		}
		for n, wt := range wa {
			gt, ok := ga[n]
			if !ok || !Conforms(gt, wt) {
				return false
			}
		}
		return true
	}
	return got.Equals(want)
}

type decCtx struct {
	env        *Env
	err        bool
	un         string
	emptyMulti bool
	opts       DecodeOpts
}

// DecodeOpts selects known deviations of the implementation that the reference reproduces,
// so that everything else in the same case is still compared strictly.
type DecodeOpts struct {
	// EmptyMultiLabelMapQuirk: a BlockMapSpec with two or more labels and no block yields
	// cty.MapValEmpty(<nested type>) - one map level per extra label short of its implied
	// type (known finding blockmap-multilabel-empty-type).
	EmptyMultiLabelMapQuirk bool
}

// DecodeWith is Decode with options.
func DecodeWith(s *gen.SpecM, body *ast.Body, labels []string, env *Env, o DecodeOpts) DecResult {
	d := &decCtx{env: env, opts: o}
	v := d.body(s, body, labels)
	return DecResult{V: v, Err: d.err, Unspec: d.un, EmptyMultiLabelMap: d.emptyMulti}
}

// Decode decodes body under spec. labels are the labels of the enclosing block that
// remain available to BlockLabel specs.
func Decode(s *gen.SpecM, body *ast.Body, labels []string, env *Env) DecResult {
	d := &decCtx{env: env}
	v := d.body(s, body, labels)
	return DecResult{V: v, Err: d.err, Unspec: d.un, EmptyMultiLabelMap: d.emptyMulti}
}

func (d *decCtx) body(s *gen.SpecM, body *ast.Body, labels []string) cty.Value {
	// the schema this level implies
	attrs := map[string]bool{}
	required := map[string]bool{}
	blocks := map[string]int{}
	s.SameBody(func(x *gen.SpecM) {
		switch {
		case x.Kind == gen.SAttr:
			attrs[x.Name] = true
			if x.Required {
				required[x.Name] = true
			}
		case x.Kind.IsBlock():
			blocks[x.Name] = x.BlockLabelCount()
		}
	})
	present := map[string]ast.Node{}
	byType := map[string][]ast.Block{}
	for _, it := range body.Items {
		switch x := it.(type) {
		case ast.Attr:
			if !attrs[x.Name] {
				d.err = true // exhaustive processing: unexpected attribute
				continue
			}
			present[x.Name] = x.Expr
		case ast.Block:
			nl, ok := blocks[x.Type]
			if !ok {
				d.err = true
				continue
			}
			if len(x.Labels) != nl {
				d.err = true
				continue
			}
			byType[x.Type] = append(byType[x.Type], x)
		}
	}
	for n := range required {
		if _, ok := present[n]; !ok {
			d.err = true
		}
	}
	return d.spec(s, present, byType, labels)
}

// inBlock evaluates f with the block's extra bindings (dynamic-block iterators) in scope.
func (d *decCtx) inBlock(b ast.Block, f func() cty.Value) cty.Value {
	if b.Bind == nil {
		return f()
	}
	saved := d.env
	d.env = d.env.child(b.Bind)
	defer func() { d.env = saved }()
	return f()
}

func labelTexts(b ast.Block) []string {
	out := make([]string, len(b.Labels))
	for i, l := range b.Labels {
		out[i] = l.Text
	}
	return out
}

func (d *decCtx) spec(s *gen.SpecM, attrs map[string]ast.Node, blocks map[string][]ast.Block, labels []string) cty.Value {
	switch s.Kind {
	case gen.SObject:
		vals := map[string]cty.Value{}
		for _, n := range s.FieldNames() {
			vals[n] = d.spec(s.Fields[n], attrs, blocks, labels)
		}
		return cty.ObjectVal(vals)
	case gen.STuple:
		vals := make([]cty.Value, len(s.Elems))
		for i, e := range s.Elems {
			vals[i] = d.spec(e, attrs, blocks, labels)
		}
		return cty.TupleVal(vals)
	case gen.SAttr:
		e, ok := attrs[s.Name]
		if !ok {
			return cty.NullVal(s.Type)
		}
		r := Eval(e, d.env)
		if r.Unspec != "" {
			d.un = r.Unspec
			return cty.DynamicVal
		}
		if r.Err {
			d.err = true
			return cty.UnknownVal(s.Type)
		}
		if r.Loose {
			d.un = "U9-loose-operand"
			return cty.DynamicVal
		}
		v, err := convert.Convert(r.V, s.Type)
		if err != nil {
			d.err = true
			return cty.UnknownVal(s.Type)
		}
		return v
	case gen.SLiteral:
		return s.Literal
	case gen.SExpr:
		r := Eval(ast.Var{Name: s.ExprVar}, d.env)
		if r.Unspec != "" {
			d.un = r.Unspec
			return cty.DynamicVal
		}
		if r.Err {
			d.err = true
			return cty.DynamicVal
		}
		return r.V
	case gen.SBlockLabel:
		if s.Index >= len(labels) {
			d.err = true
			return cty.UnknownVal(cty.String)
		}
		return cty.StringVal(labels[s.Index])
	case gen.SBlock:
		bls := blocks[s.Name]
		if len(bls) == 0 {
			if s.Required {
				d.err = true
			}
			return cty.NullVal(ImpliedType(s.Nested))
		}
		if len(bls) > 1 {
			d.err = true
		}
		return d.inBlock(bls[0], func() cty.Value { return d.body(s.Nested, bls[0].Body, labelTexts(bls[0])) })
	case gen.SBlockList, gen.SBlockTuple, gen.SBlockSet:
		var vals []cty.Value
		for _, b := range blocks[s.Name] {
			b := b
			vals = append(vals, d.inBlock(b, func() cty.Value { return d.body(s.Nested, b.Body, labelTexts(b)) }))
		}
		if len(vals) < s.MinItems || (s.MaxItems > 0 && len(vals) > s.MaxItems) {
			d.err = true
		}
		if s.Kind == gen.SBlockTuple {
			if len(vals) == 0 {
				return cty.EmptyTupleVal
			}
			return cty.TupleVal(vals)
		}
		nty := ImpliedType(s.Nested)
		if len(vals) == 0 {
			if s.Kind == gen.SBlockSet {
				return cty.SetValEmpty(nty)
			}
			return cty.ListValEmpty(nty)
		}
		if d.err || d.un != "" {
			return cty.DynamicVal
		}
		// with dynamically-typed attributes inside, the blocks must agree on one type
		tys := make([]cty.Type, len(vals))
		for i, v := range vals {
			tys[i] = v.Type()
		}
		ety, _ := convert.UnifyUnsafe(tys)
		if ety == cty.NilType {
			d.err = true
			return cty.DynamicVal
		}
		for i, v := range vals {
			cv, err := convert.Convert(v, ety)
			if err != nil {
				d.err = true
				return cty.DynamicVal
			}
			vals[i] = cv
		}
		if !cty.CanListVal(vals) {
			// the types still differ in a dynamically-typed position (e.g. a null of unknown type)
			d.err = true
			return cty.DynamicVal
		}
		if s.Kind == gen.SBlockSet {
			return cty.SetVal(vals)
		}
		return cty.ListVal(vals)
	case gen.SBlockMap, gen.SBlockObject:
		return d.keyed(s, blocks[s.Name])
	case gen.SBlockAttrs:
		bls := blocks[s.Name]
		if len(bls) == 0 {
			if s.Required {
				d.err = true
			}
			return cty.NullVal(cty.Map(s.Type))
		}
		if len(bls) > 1 {
			d.err = true
		}
		vals := map[string]cty.Value{}
		saved := d.env
		if bls[0].Bind != nil {
			d.env = d.env.child(bls[0].Bind)
		}
		defer func() { d.env = saved }()
		for _, it := range bls[0].Body.Items {
			switch x := it.(type) {
			case ast.Block, ast.Dyn:
				d.err = true // blocks are not allowed in a free-form attributes block
			case ast.Attr:
				r := Eval(x.Expr, d.env)
				if r.Unspec != "" {
					d.un = r.Unspec
					continue
				}
				if r.Err {
					d.err = true
					continue
				}
				if r.Loose {
					// (as for AttrSpec: the value's exact type is not determined)
					d.un = "U9-loose-operand"
					continue
				}
				v, err := convert.Convert(r.V, s.Type)
				if err != nil {
					d.err = true
					continue
				}
				vals[x.Name] = v
			}
		}
		if len(vals) == 0 {
			return cty.MapValEmpty(s.Type)
		}
		if d.err || d.un != "" {
			return cty.DynamicVal
		}
		if !cty.CanMapVal(vals) {
			// a map needs one element type: arguments of different types are an error
			d.err = true
			return cty.DynamicVal
		}
		return cty.MapVal(vals)
	case gen.SDefault:
		v := d.spec(s.Primary, attrs, blocks, labels)
		if v.IsNull() {
			return d.spec(s.Default, attrs, blocks, labels)
		}
		return v
	case gen.STransformFunc:
		v := d.spec(s.Nested, attrs, blocks, labels)
		if d.err {
			return cty.DynamicVal
		}
		return Transform(s.Func, v)
	case gen.SValidate:
		v := d.spec(s.Nested, attrs, blocks, labels)
		if !d.err && ValidateRejects(v) {
			d.err = true
		}
		return v
	case gen.SRefine:
		return d.spec(s.Nested, attrs, blocks, labels)
	}
	d.un = "unknown-spec-kind"
	return cty.DynamicVal
}

type keyedNode struct {
	children map[string]*keyedNode
	order    []string
	val      cty.Value
	leaf     bool
}

func (d *decCtx) keyed(s *gen.SpecM, bls []ast.Block) cty.Value {
	depth := len(s.LabelNames)
	root := &keyedNode{children: map[string]*keyedNode{}}
	for _, b := range bls {
		labels := labelTexts(b)
		b := b
		v := d.inBlock(b, func() cty.Value { return d.body(s.Nested, b.Body, labels[depth:]) })
		cur := root
		for i := 0; i < depth; i++ {
			k := labels[i]
			nx, ok := cur.children[k]
			if !ok {
				nx = &keyedNode{children: map[string]*keyedNode{}}
				cur.children[k] = nx
				cur.order = append(cur.order, k)
			} else if i == depth-1 {
				d.err = true // the label combination must be unique
			}
			cur = nx
		}
		if !cur.leaf {
			cur.leaf = true
			cur.val = v
		}
	}
	nty := ImpliedType(s.Nested)
	if s.Kind == gen.SBlockMap && depth >= 2 && (len(root.order) == 0 || d.err) {
		d.emptyMulti = true
	}
	if d.err || d.un != "" {
		return cty.DynamicVal
	}
	if d.opts.EmptyMultiLabelMapQuirk && s.Kind == gen.SBlockMap && depth >= 2 && len(root.order) == 0 {
		return cty.MapValEmpty(nty)
	}
	var build func(n *keyedNode, remaining int) cty.Value
	build = func(n *keyedNode, remaining int) cty.Value {
		if remaining == 0 {
			return n.val
		}
		vals := map[string]cty.Value{}
		for _, k := range n.order {
			vals[k] = build(n.children[k], remaining-1)
		}
		if s.Kind == gen.SBlockObject {
			return cty.ObjectVal(vals)
		}
		if len(vals) == 0 {
			ety := nty
			for i := 1; i < remaining; i++ {
				ety = cty.Map(ety)
			}
			return cty.MapValEmpty(ety)
		}
		if !cty.CanMapVal(vals) {
			// only possible through the reproduced one-level-short empty map of a nested
			// multi-label BlockMapSpec: the implementation reports the blocks as inconsistent
			d.err = true
			return cty.DynamicVal
		}
		return cty.MapVal(vals)
	}
	return build(root, depth)
}
