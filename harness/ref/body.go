package ref

import (
	"sort"

	"verifharness/ast"
)

// This file is the reference model of schema-driven body processing
// (spec.md, "Schema-driven Processing" and "Partial Processing of Body Content"):
// a body is an ordered list of items; the three laws are stated over it.

// AttrS is an attribute schema.
type AttrS struct {
	Name     string
	Required bool
}

// BlockS is a block header schema.
type BlockS struct {
	Type    string
	NLabels int
}

// Schema is a body schema.
type Schema struct {
	Attrs  []AttrS
	Blocks []BlockS
}

// Union merges schemas with disjoint names.
func Union(parts ...Schema) Schema {
	var s Schema
	for _, p := range parts {
		s.Attrs = append(s.Attrs, p.Attrs...)
		s.Blocks = append(s.Blocks, p.Blocks...)
	}
	return s
}

// MBlock is a block returned by processing.
type MBlock struct {
	Type   string
	Labels []string
	Body   *ast.Body
	// Unknown: the block stands for the blocks of a dynamic block whose for_each is
	// unknown; every attribute value below it is unknown.
	Unknown bool
}

// Content is the result of applying a schema.
type Content struct {
	Attrs  map[string]ast.Node
	Blocks []MBlock
	// Err: the schema is violated (required attribute missing, label count mismatch,
	// duplicate attribute, or - for exhaustive processing - a non-matching item).
	Err bool
	// LabelMismatch: some block of a wanted type has the wrong number of labels.
	LabelMismatch bool
}

// View is a body together with the names already consumed by earlier partial processing.
type View struct {
	Body *ast.Body
	// SingleNamespace: attributes and blocks share one name space (JSON bodies).
	SingleNamespace bool
	hidA, hidB      map[string]bool
}

// NewView wraps a body.
func NewView(b *ast.Body, singleNamespace bool) *View {
	return &View{Body: b, SingleNamespace: singleNamespace, hidA: map[string]bool{}, hidB: map[string]bool{}}
}

func (v *View) hiddenAttr(n string) bool {
	return v.hidA[n] || (v.SingleNamespace && v.hidB[n])
}

func (v *View) hiddenBlock(n string) bool {
	return v.hidB[n] || (v.SingleNamespace && v.hidA[n])
}

// Partial applies s partially and returns the content and the remaining view.
func (v *View) Partial(s Schema) (Content, *View) {
	c := Content{Attrs: map[string]ast.Node{}}
	wantA := map[string]AttrS{}
	for _, a := range s.Attrs {
		wantA[a.Name] = a
	}
	wantB := map[string]BlockS{}
	for _, b := range s.Blocks {
		wantB[b.Type] = b
	}
	for _, it := range v.Body.Items {
		switch x := it.(type) {
		case ast.Attr:
			if _, ok := wantA[x.Name]; ok && !v.hiddenAttr(x.Name) {
				if _, dup := c.Attrs[x.Name]; dup {
					c.Err = true
					continue
				}
				c.Attrs[x.Name] = x.Expr
			}
		case ast.Block:
			bs, ok := wantB[x.Type]
			if !ok || v.hiddenBlock(x.Type) {
				continue
			}
			if len(x.Labels) != bs.NLabels {
				c.Err = true
				c.LabelMismatch = true
				continue
			}
			if x.Phantom {
				continue
			}
			labels := make([]string, len(x.Labels))
			for i, l := range x.Labels {
				labels[i] = l.Text
			}
			c.Blocks = append(c.Blocks, MBlock{Type: x.Type, Labels: labels, Body: x.Body, Unknown: x.Unknown})
		}
	}
	for _, a := range s.Attrs {
		if a.Required {
			if _, ok := c.Attrs[a.Name]; !ok {
				c.Err = true
			}
		}
	}
	rest := &View{Body: v.Body, SingleNamespace: v.SingleNamespace, hidA: map[string]bool{}, hidB: map[string]bool{}}
	for k := range v.hidA {
		rest.hidA[k] = true
	}
	for k := range v.hidB {
		rest.hidB[k] = true
	}
	for _, a := range s.Attrs {
		rest.hidA[a.Name] = true
	}
	for _, b := range s.Blocks {
		rest.hidB[b.Type] = true
	}
	return c, rest
}

// Exhaustive applies s exhaustively: every non-matching, not yet consumed item is an error.
func (v *View) Exhaustive(s Schema) Content {
	c, rest := v.Partial(s)
	for _, it := range v.Body.Items {
		switch x := it.(type) {
		case ast.Attr:
			if !rest.hiddenAttr(x.Name) {
				c.Err = true
			}
		case ast.Block:
			if !rest.hiddenBlock(x.Type) {
				c.Err = true
			}
		}
	}
	return c
}

// Leftovers lists the names of the items that are still visible in the view.
func (v *View) Leftovers() (attrs []string, blocks []string) {
	for _, it := range v.Body.Items {
		switch x := it.(type) {
		case ast.Attr:
			if !v.hiddenAttr(x.Name) {
				attrs = append(attrs, x.Name)
			}
		case ast.Block:
			if !v.hiddenBlock(x.Type) {
				blocks = append(blocks, x.Type)
			}
		}
	}
	sort.Strings(attrs)
	return attrs, blocks
}
